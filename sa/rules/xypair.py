"""R-XYPAIR — x goes with x, y with y.

A store whose target names an axis by suffix — `m["base_tilt_x"]`, `self._tilt_y`, `shift_x` — takes a value whose own
axis tags agree with it.  The tags of a value are: names / attributes / string keys ending in `_x` / `_y`, constant
subscripts [0] / [1] on a pair, and, through single reaching definitions, the position of a name in a tuple unpacking
of a known pair attribute (`tx, ty = waves.base_tilt`: tx is x, ty is y; base_tilt, sampling, extent, gpts ...).  A value tagged only with the other axis is a violation; a
value with no tag (a scalar, a call) is not judged.
"""
from __future__ import annotations

import ast
import re
from typing import Optional

from ..cfg import DataFlow
from ..model import FuncInfo, dotted, norm_text, walk_no_nested

# attributes / names that hold an (x, y) pair: unpacking them tags the targets by position
PAIRS = {"base_tilt", "tilt", "sampling", "extent", "gpts", "position", "offset", "angular_sampling", "start", "end",
         "reciprocal_space_sampling", "shape", "center", "origin"}
_SUF = re.compile(r"(?:^|_)(x|y)$")


def _tag_of_text(s: Optional[str]) -> Optional[str]:
    if not s:
        return None
    m = _SUF.search(s.split(".")[-1])
    return m.group(1) if m else None


def target_tag(t: ast.AST) -> Optional[str]:
    if isinstance(t, ast.Subscript) and isinstance(t.slice, ast.Constant) and isinstance(t.slice.value, str):
        return _tag_of_text(t.slice.value)
    if isinstance(t, (ast.Name, ast.Attribute)):
        return _tag_of_text(dotted(t))
    return None


def value_tags(df: DataFlow, at: int, e: ast.AST, depth: int = 0) -> set[str]:
    out: set[str] = set()
    if depth > 6:
        return out
    for n in ast.walk(e):
        if isinstance(n, ast.Subscript) and isinstance(n.slice, ast.Constant):
            if isinstance(n.slice.value, str):
                t = _tag_of_text(n.slice.value)
                if t:
                    out.add(t)
            elif n.slice.value in (0, 1) and not isinstance(n.slice.value, bool):
                out.add("xy"[n.slice.value])
        elif isinstance(n, ast.Attribute):
            t = _tag_of_text(n.attr)
            if t:
                out.add(t)
        elif isinstance(n, ast.Name):
            t = _tag_of_text(n.id)
            # a name's tag by its definition beats its spelling: tx, ty = pair
            d = df.single_def(at, n.id)
            if d is not None and d.kind == "assign" and d.value is not None:
                st = df.cfg.nodes[d.node].ast
                if isinstance(st, ast.Assign) and isinstance(st.targets[0], (ast.Tuple, ast.List)) and \
                        len(st.targets[0].elts) == 2 and not isinstance(st.value, (ast.Tuple, ast.List)) and \
                        (dotted(st.value) or "").split(".")[-1].lstrip("_") in PAIRS:
                    pos = [i for i, x in enumerate(st.targets[0].elts) if isinstance(x, ast.Name) and x.id == n.id]
                    if pos:
                        out.add("xy"[pos[0]])
                        continue
                if isinstance(st, ast.Assign) and isinstance(st.targets[0], (ast.Tuple, ast.List)) and \
                        isinstance(st.value, (ast.Tuple, ast.List)) and len(st.value.elts) == len(st.targets[0].elts):
                    pos = [i for i, x in enumerate(st.targets[0].elts) if isinstance(x, ast.Name) and x.id == n.id]
                    if pos:
                        out |= value_tags(df, d.node, st.value.elts[pos[0]], depth + 1) or ({t} if t else set())
                        continue
            if t:
                out.add(t)
    return out


def check_function(ctx, rule: str, f: FuncInfo) -> int:
    df = DataFlow(f.node)
    n = 0
    for node in df.cfg.nodes:
        st = node.ast
        if st is None or node.kind != "stmt" or not isinstance(st, (ast.Assign, ast.AugAssign)):
            continue
        tgts = st.targets if isinstance(st, ast.Assign) else [st.target]
        for t in tgts:
            tag = target_tag(t)
            if tag is None:
                continue
            tags = value_tags(df, node.idx, st.value)
            if not tags:
                continue
            n += 1
            other = "y" if tag == "x" else "x"
            ctx.check(tag in tags or other not in tags, rule, f"{f.qualname}:{norm_text(t)[:40]}", f.loc(st),
                      f"`{norm_text(t)[:40]}` ({tag}) takes a value tagged {sorted(tags)}",
                      f"`{norm_text(st)[:80]}` stores into the {tag}-component a value that carries only the "
                      f"{other}-component ({sorted(tags)}): the two axes are crossed", key_detail="xy")
    return n
