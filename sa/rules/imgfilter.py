"""Per-axis standard deviation and overlap depth of an ndimage filter that a 2D-measurement method applies to
`self.array` — read by *executing* the method's python-level tuple assembly, not by matching its spelling.

`(0,) * (len(self.shape) - 2) + tuple(s / d for s, d in zip(sigma, self.sampling))`, the same thing through
temporaries, `self.ensemble_dims`, a list that is appended to, `zip` in the other order ... are all the same per-axis
tuple.  The method body is run by the labelled-axis interpreter (sa/rules/axislayout.LayoutInterp: concrete python
control flow, tuples, zip, comprehensions, len; symbolic scalars are terms, `sa.terms.Poly`) for a small set of
representative inputs:

    number of ensemble axes E in {0, 1, 2}   x   sigma a scalar / a pair   x   lazy / eager array

with the measurement API modelled as (E ensemble axes followed by the two base axes)

    self.shape = self.array.shape = (m[0], .., m[E-1], n[0], n[1])     self.base_shape = (n[0], n[1])
    self.ensemble_shape = (m[0], ..)   self.ensemble_dims = E   self.sampling = (sampling[0], sampling[1])

The run stops at the first application of the filter — `F(self.array, sigma, **kw)` or
`da.map_overlap(F, self.array, **kw)` / `self.array.map_overlap(F, **kw)` with F an attribute of
`get_ndimage_module(...)` — and returns what that call receives (`FilterCall`).  Everything the interpreter does not
model raises AnalysisError; nothing is guessed.  The *decisions* (which sigma belongs on which axis, how deep the
overlap has to be) are taken by the caller on the returned normal forms.
"""
from __future__ import annotations

import ast
import math
from dataclasses import dataclass, field
from fractions import Fraction
from typing import Any, Optional

from ..model import AnalysisError, FuncInfo
from ..terms import Poly
from .absint import DomainError
from .axislayout import MOD, OPAQUE, Hooks, LayoutInterp, Obj, Raises, Sc

BASE_DIMS = 2

FILTER_KW = {"sigma", "mode", "cval", "truncate"}
OVERLAP_KW = {"depth", "boundary", "meta", "dtype"}


@dataclass
class FilterCall:
    arm: str  # lazy | eager
    ensemble_dims: int
    sigma_kind: str  # scalar | pair
    filter_name: str
    sigma: Any  # what the filter receives as sigma (interpreter value)
    kwargs: dict  # remaining keywords (interpreter values)
    node: ast.Call
    params: dict = field(default_factory=dict)  # the concrete parameter instantiation (boundary=...)

    @property
    def ndim(self) -> int:
        return self.ensemble_dims + BASE_DIMS


@dataclass
class Fault:
    """The method itself fails for this representative input (the python-level assembly raises)."""
    arm: str
    ensemble_dims: int
    sigma_kind: str
    message: str
    node: Optional[ast.AST] = None


class _Captured(Exception):
    def __init__(self, call: FilterCall):
        super().__init__("filter call")
        self.call = call


def user_sigma(kind: str, k: int) -> Poly:
    """The user's standard deviation along base axis k [length units]."""
    return Poly.atom("sigma") if kind == "scalar" else Poly.atom(f"sigma[{k}]")


def sampling(k: int) -> Poly:
    return Poly.atom(f"sampling[{k}]")


def axis_length(e: int, a: int) -> Poly:
    """Length of array axis a of a measurement with e ensemble axes."""
    return Poly.atom(f"m[{a}]") if a < e else Poly.atom(f"n[{a - e}]")


class _MeasurementHooks(Hooks):
    def __init__(self, func: FuncInfo, e: int, kind: str, lazy: bool, params: dict):
        self.func, self.e, self.kind, self.lazy, self.params = func, e, kind, lazy, params

    # ---- values
    def _shape(self) -> tuple:
        return tuple(Sc(axis_length(self.e, a)) for a in range(self.e + BASE_DIMS))

    def name(self, ident: str, interp):
        q = self.func.module.imports.get(ident)
        if q is not None:
            return Obj(("import", q))
        return NotImplemented

    def attr(self, base, attr: str, interp):
        if not isinstance(base, Obj):
            return NotImplemented
        tag = base.tag
        if tag == "self":
            if attr == "shape":
                return self._shape()
            if attr == "base_shape":
                return self._shape()[self.e:]
            if attr == "ensemble_shape":
                return self._shape()[:self.e]
            if attr == "ensemble_dims":
                return self.e
            if attr in ("base_dims", "_base_dims"):
                return BASE_DIMS
            if attr == "sampling":
                return tuple(Sc(sampling(k)) for k in range(BASE_DIMS))
            if attr == "is_lazy":
                return self.lazy
            if attr in ("array", "_array"):
                return Obj("array")
            return NotImplemented
        if tag == "array":
            if attr == "shape":
                return self._shape()
            if attr == "ndim":
                return self.e + BASE_DIMS
            return NotImplemented
        if tag == "ndimage":
            return Obj(("ndfilter", attr))
        if isinstance(tag, tuple) and tag[0] == "import":
            return Obj(("import", tag[1] + "." + attr))
        return NotImplemented

    # ---- calls
    @staticmethod
    def _is_filter(v) -> bool:
        return isinstance(v, Obj) and isinstance(v.tag, tuple) and v.tag[0] == "ndfilter"

    def _capture(self, arm: str, fn: Obj, rest: list, kwargs: dict, node: ast.Call):
        if not (rest and isinstance(rest[0], Obj) and rest[0].tag == "array"):
            raise AnalysisError(f"{self.func.qualname}: the {arm} filter call is not applied to self.array")
        rest = rest[1:]
        kw = dict(kwargs)
        if rest:
            if arm != "eager" or len(rest) > 1 or "sigma" in kw:
                raise AnalysisError(f"{self.func.qualname}: positional arguments of the {arm} filter call not understood")
            kw["sigma"] = rest[0]
        allowed = FILTER_KW | (OVERLAP_KW if arm == "lazy" else set())
        extra = sorted(set(kw) - allowed)
        if extra:
            raise AnalysisError(f"{self.func.qualname}: the {arm} filter call passes {extra}, which the per-axis model does "
                                "not cover")
        if "sigma" not in kw:
            raise AnalysisError(f"{self.func.qualname}: the {arm} filter call passes no sigma")
        sigma = kw.pop("sigma")
        raise _Captured(FilterCall(arm, self.e, self.kind, fn.tag[1], sigma, kw, node, dict(self.params)))

    def call(self, fname: str, args: list, kwargs: dict, node: ast.Call, interp):
        last = fname.split(".")[-1]
        if fname == "__call__":
            if self._is_filter(args[0]):
                self._capture("eager", args[0], args[1:], kwargs, node)
            return NotImplemented
        if last == "map_overlap":
            # da.map_overlap(F, array, ...): args = [module, F, array, ...];  array.map_overlap(F, ...): [array, F, ...]
            if len(args) >= 2 and self._is_filter(args[1]):
                head = args[0]
                if isinstance(head, Obj) and head.tag == "array":
                    self._capture("lazy", args[1], [head] + args[2:], kwargs, node)
                if isinstance(head, Obj) and isinstance(head.tag, tuple) and head.tag[0] == "import" \
                        and head.tag[1].split(".")[0] == "dask":
                    self._capture("lazy", args[1], args[2:], kwargs, node)
            return NotImplemented
        if last == "get_array_module":
            return MOD
        if last == "get_ndimage_module":
            return Obj("ndimage")
        if last == "isscalar" and len(args) == 1 and not kwargs:
            v = args[0]
            if isinstance(v, (Sc, int, float)) and not isinstance(v, bool):
                return True
            if isinstance(v, (tuple, list)):
                return False
            return NotImplemented
        if last == "ceil" and len(args) - (0 if fname.startswith("np.") or fname == "ceil" else 1) == 1 and not kwargs:
            v = args[-1]
            if isinstance(v, (int, float)) and not isinstance(v, bool):
                return math.ceil(v)
            if isinstance(v, Sc):
                return Obj(("ceil", v))
            if _is_rounded(v):
                return v  # already integer-valued
            return NotImplemented
        if fname in ("int", "float") and len(args) == 1 and not kwargs:
            if _is_rounded(args[0]):
                return args[0]  # already integer-valued
            return NotImplemented
        if fname == "min" and len(args) >= 2 and not kwargs:
            if all(isinstance(a, (int, float)) and not isinstance(a, bool) for a in args):
                return min(args)
            return Obj(("min", tuple(args)))
        if fname == "min" and len(args) == 1 and not kwargs and isinstance(args[0], (tuple, list)) and len(args[0]) >= 2:
            return self.call("min", list(args[0]), {}, node, interp)
        return NotImplemented


class _Interp(LayoutInterp):
    """LayoutInterp that keeps `int(<symbolic scalar>)` visible as a floor (the base class reads it as the scalar)."""

    def _builtin(self, name: str, args: list, kwargs: dict, node):
        if name == "int" and len(args) == 1 and not kwargs and isinstance(args[0], Sc):
            return Obj(("floor", args[0]))
        return super()._builtin(name, args, kwargs, node)


def _is_rounded(v) -> bool:
    return isinstance(v, Obj) and isinstance(v.tag, tuple) and v.tag[0] in ("ceil", "floor")


def _param_env(func: FuncInfo, kind: str, overrides: dict) -> tuple[dict, dict]:
    from ..model import fold_constant

    env: dict = {}
    concrete: dict = {}
    a = func.node.args
    if a.vararg or a.kwarg:
        raise AnalysisError(f"{func.qualname}: *args / **kwargs parameters are not modelled")
    defaults = func.defaults()
    names = [x.arg for x in a.posonlyargs + a.args + a.kwonlyargs]
    if not names or names[0] != "self" or "sigma" not in names:
        raise AnalysisError(f"{func.qualname}: expected a method with a `sigma` parameter")
    for n in names:
        if n == "self":
            env[n] = Obj("self")
        elif n == "sigma":
            env[n] = Sc(user_sigma("scalar", 0)) if kind == "scalar" else tuple(Sc(user_sigma("pair", k))
                                                                               for k in range(BASE_DIMS))
        elif n in overrides:
            env[n] = concrete[n] = overrides[n]
        elif n in defaults:
            try:
                v = defaults[n].value if isinstance(defaults[n], ast.Constant) else fold_constant(defaults[n])
            except Exception:  # noqa: BLE001
                raise AnalysisError(f"{func.qualname}: default of `{n}` is not a literal")
            if not (v is None or isinstance(v, (str, bool, int, float))):
                raise AnalysisError(f"{func.qualname}: default of `{n}` is not a literal")
            env[n] = concrete[n] = v
        else:
            env[n] = Sc(Poly.atom(n))
    return env, concrete


def run_case(func: FuncInfo, e: int, kind: str, lazy: bool, overrides: Optional[dict] = None):
    env, concrete = _param_env(func, kind, overrides or {})
    hooks = _MeasurementHooks(func, e, kind, lazy, concrete)
    interp = _Interp(hooks, {})
    try:
        res = interp.run(func.node.body, env)
    except _Captured as c:
        return c.call
    except Raises as r:
        raise AnalysisError(f"{func.qualname}: raises {r.name} for a valid input (E={e}, sigma {kind}, "
                            f"{'lazy' if lazy else 'eager'})")
    except DomainError as d:
        return Fault("lazy" if lazy else "eager", e, kind, str(d), getattr(d, "node", None))
    raise AnalysisError(f"{func.qualname}: no ndimage filter is applied to self.array on the "
                        f"{'lazy' if lazy else 'eager'} path (ended with {res[0] if res else 'fall-through'})")


def all_cases(func: FuncInfo, ensembles=(0, 1, 2), overrides: Optional[dict] = None) -> list:
    """[FilterCall | Fault] for every representative input."""
    out = []
    for e in ensembles:
        for kind in ("scalar", "pair"):
            for lazy in (True, False):
                c = run_case(func, e, kind, lazy, overrides)
                want = "lazy" if lazy else "eager"
                if isinstance(c, FilterCall) and c.arm != want:
                    raise AnalysisError(f"{func.qualname}: a {want} array is filtered through the {c.arm} form of the call")
                out.append(c)
    return out


# ------------------------------------------------------------------------------------------------ normal forms
def scalar_poly(v) -> Optional[Poly]:
    """Term of a plain (unrounded) scalar value."""
    if isinstance(v, bool):
        return None
    if isinstance(v, int):
        return Poly.const(v)
    if isinstance(v, float):
        return Poly.const(Fraction(v).limit_denominator(10 ** 9))
    if isinstance(v, Sc):
        return v.poly
    return None


def rounded(v) -> Optional[tuple[str, Poly]]:
    """('exact' | 'ceil' | 'floor', term): a scalar, ceil(term) or int(term) = floor(term) for term >= 0."""
    p = scalar_poly(v)
    if p is not None:
        return "exact", p
    if _is_rounded(v):
        p = scalar_poly(v.tag[1])
        if p is not None:
            return v.tag[0], p
    return None


def min_args(v) -> Optional[list]:
    """[(rounding, term)] of min(...), flattened; None when v is not a min."""
    if isinstance(v, Obj) and isinstance(v.tag, tuple) and v.tag[0] == "min":
        out = []
        for a in v.tag[1]:
            inner = min_args(a)
            if inner is not None:
                out.extend(inner)
                continue
            r = rounded(a)
            if r is None:
                raise AnalysisError("filter model: argument of min() is not a scalar term")
            out.append(r)
        return out
    return None


def affine_in(p: Poly, unit: Poly) -> Optional[tuple[Fraction, Fraction]]:
    """(c, k) with p = c * unit + k for a monomial `unit` that is not a constant; None when p has any other term."""
    if not unit.is_monomial() or unit.is_const():
        return None
    (mono, coeff), = unit.terms.items()
    c = k = Fraction(0)
    for m, v in p.terms.items():
        if m == mono:
            c = v / coeff
        elif m == ():
            k = v
        else:
            return None
    return c, k


def per_axis(v, ndim: int, what: str, spread_scalar: bool = True) -> tuple[Optional[list], str]:
    """A value given per array axis -> ([entry per axis], '') or (None, why it does not line up with the axes)."""
    if isinstance(v, dict):
        if not all(isinstance(k, int) and not isinstance(k, bool) and -ndim <= k < ndim for k in v):
            return None, f"the {what} dict has keys {sorted(map(str, v))} for an array with {ndim} axes"
        out = [0] * ndim
        for k, x in v.items():
            out[k % ndim] = x
        return out, ""
    if isinstance(v, (tuple, list)):
        if len(v) != ndim:
            return None, f"{what} has {len(v)} entries for an array with {ndim} axes"
        return list(v), ""
    if spread_scalar and (rounded(v) is not None or min_args(v) is not None):
        return [v] * ndim, ""
    if v is OPAQUE:
        raise AnalysisError(f"filter model: {what} is opaque")
    raise AnalysisError(f"filter model: cannot read {what} per axis")


def show(p: Poly) -> str:
    return " + ".join(t[2:] if t.startswith("1*") else t for t in p.key().split(" + "))
