"""R-MODULUS — abstract interpretation of kernel builders (engine E3b).

Shared by C04 (propagator / aperture / transmission function), C05 (plane wave, normalisation),
C23 (apertures and envelopes) and C39 (tilt factor).  Nothing here imports or runs abTEM: the
interpreter walks `ast` statements of the analysed functions.

Abstract value of a number or array element (`AV`)
    field   bool | real | imag | complex | top       (real/complex taint; `top` = not known)
    lo, hi  interval of the value (field bool/real) or of the imaginary part (field imag)
    mlo,mhi interval of the modulus |z|
    notes   provenance of imprecision, strings "unknown:<construct>" (the analyser does not model
            the construct) or "imprecise:<construct>" (bound obtained by dropping a correlation)

Named views used by the rules (the classes of DESIGN.md):
    (=1)  mlo == mhi == 1          (<=1)  mhi <= 1          (>=0) field real, lo >= 0
    [0,1] field real/bool, 0 <= lo, hi <= 1                 top   anything else

The interpreter is *sound for upper bounds*: every operation returns an over-approximation.  A
requirement that fails on a value without notes is a VIOLATION (all constructs were modelled and
the bound is the best the arithmetic allows, e.g. `1 + cos(x)` in [0, 2]); a requirement that fails
on a value carrying notes is an ANALYSIS-ERROR (the analyser lost its footing) — see `decide`.

Other values: `TupV` (tuple/list display), `SeqV` (homogeneous sequence), `ObjV` (array object
abstracted by the class of its array), `Opaque` (module, dtype, function, str, None, object).
"""
from __future__ import annotations

import ast
import math
from dataclasses import dataclass, field as dfield
from typing import Callable, Optional

from ..model import AnalysisError, ClassInfo, FuncInfo, ModuleInfo, Repo, dotted, module_constants, norm_text

INF = float("inf")
EPS = 1e-12


# ====================================================================== values
@dataclass(frozen=True)
class AV:
    field: str
    lo: float
    hi: float
    mlo: float
    mhi: float
    notes: frozenset = frozenset()

    # ---- views
    @property
    def is_realish(self) -> bool:
        return self.field in ("bool", "real")

    def eq1(self) -> bool:
        return self.mlo >= 1 - EPS and self.mhi <= 1 + EPS

    def le1(self) -> bool:
        return self.mhi <= 1 + EPS

    def ge0(self) -> bool:
        return self.is_realish and self.lo >= 0

    def unit_interval(self) -> bool:
        return self.is_realish and self.lo >= -EPS and self.hi <= 1 + EPS

    def is_const(self) -> bool:
        return self.field in ("bool", "real", "imag") and self.lo == self.hi

    def unknowns(self) -> list[str]:
        return sorted(self.notes)

    def with_notes(self, *more) -> "AV":
        n = set(self.notes)
        for m in more:
            n |= set(m)
        return AV(self.field, self.lo, self.hi, self.mlo, self.mhi, frozenset(n))

    def describe(self) -> str:
        def f(x):
            return "inf" if x == INF else "-inf" if x == -INF else f"{x:.6g}"

        if self.field in ("bool", "real"):
            s = f"{self.field} in [{f(self.lo)}, {f(self.hi)}]"
        elif self.field == "imag":
            s = f"imaginary, Im in [{f(self.lo)}, {f(self.hi)}]"
        else:
            s = f"{'complex' if self.field == 'complex' else 'real-or-complex'}, |z| in [{f(self.mlo)}, {f(self.mhi)}]"
        if self.notes:
            s += " {" + "; ".join(sorted(self.notes)) + "}"
        return s


def _mod_of_interval(lo: float, hi: float) -> tuple[float, float]:
    if lo <= 0 <= hi:
        return 0.0, max(abs(lo), abs(hi))
    return min(abs(lo), abs(hi)), max(abs(lo), abs(hi))


def real(lo: float = -INF, hi: float = INF, notes=frozenset(), kind: str = "real") -> AV:
    if lo > hi:
        lo, hi = hi, lo
    m = _mod_of_interval(lo, hi)
    return AV(kind, lo, hi, m[0], m[1], frozenset(notes))


def boolean(notes=frozenset()) -> AV:
    return real(0.0, 1.0, notes, "bool")


def imag(lo: float = -INF, hi: float = INF, notes=frozenset()) -> AV:
    m = _mod_of_interval(lo, hi)
    return AV("imag", lo, hi, m[0], m[1], frozenset(notes))


def cplx(mlo: float = 0.0, mhi: float = INF, notes=frozenset()) -> AV:
    return AV("complex", -INF, INF, max(mlo, 0.0), mhi, frozenset(notes))


def unknown(why: str, notes=frozenset()) -> AV:
    return AV("top", -INF, INF, 0.0, INF, frozenset(notes) | {f"unknown:{why}"})


REAL = real()
NONNEG = real(0.0, INF)
UNIT = cplx(1.0, 1.0)


@dataclass(frozen=True)
class TupV:
    items: tuple


@dataclass(frozen=True)
class SeqV:
    elem: object


@dataclass(frozen=True)
class Opaque:
    kind: str  # module | dtype-real | dtype-complex | dtype-bool | func | class | str | none | object
    name: str = ""
    ref: object = dfield(default=None, compare=False, hash=False, repr=False)


@dataclass(frozen=True)
class ObjV:
    """An array object (Waves, PotentialArray, ...) abstracted by the class of its array."""
    cls: str
    array: object
    ref: object = dfield(default=None, compare=False, hash=False, repr=False)


MODULE = Opaque("module", "xp")
NONE = Opaque("none")
ARRAY_ATTRS = ("array", "_array", "_eager_array")


def as_av(v, why: str = "value") -> AV:
    """Numeric view of any value (element of a sequence; array of an array object)."""
    if isinstance(v, AV):
        return v
    if isinstance(v, ObjV):
        return as_av(v.array, why)
    if isinstance(v, SeqV):
        return as_av(v.elem, why)
    if isinstance(v, TupV):
        if not v.items:
            return real(0.0, 0.0)
        out = as_av(v.items[0], why)
        for it in v.items[1:]:
            out = join_av(out, as_av(it, why))
        return out
    if isinstance(v, Opaque) and v.kind == "none":
        return unknown(f"None used as a number ({why})")
    return unknown(f"non-numeric {getattr(v, 'kind', type(v).__name__)} {getattr(v, 'name', '')} used as a number ({why})")


# ====================================================================== lattice / arithmetic
_FIELD_ORDER = {"bool": 0, "real": 1, "imag": 1, "complex": 2, "top": 3}


def _join_field(a: str, b: str) -> str:
    if a == b:
        return a
    if {a, b} == {"bool", "real"}:
        return "real"
    if "top" in (a, b):
        return "top"
    return "complex"


def join_av(a: AV, b: AV) -> AV:
    f = _join_field(a.field, b.field)
    notes = a.notes | b.notes
    if f in ("bool", "real"):
        return real(min(a.lo, b.lo), max(a.hi, b.hi), notes, f)
    if f == "imag":
        return imag(min(a.lo, b.lo), max(a.hi, b.hi), notes)
    return AV(f, -INF, INF, min(a.mlo, b.mlo), max(a.mhi, b.mhi), notes)


def join(a, b):
    if a is None:
        return b
    if b is None:
        return a
    if a == b:
        return a
    if isinstance(a, AV) and isinstance(b, AV):
        return join_av(a, b)
    if isinstance(a, TupV) and isinstance(b, TupV) and len(a.items) == len(b.items):
        return TupV(tuple(join(x, y) for x, y in zip(a.items, b.items)))
    if isinstance(a, (TupV, SeqV)) and isinstance(b, (TupV, SeqV)):
        return SeqV(join(_elem(a), _elem(b)))
    if isinstance(a, ObjV) and isinstance(b, ObjV):
        return ObjV(a.cls if a.cls == b.cls else f"{a.cls}|{b.cls}", join(a.array, b.array), a.ref)
    if isinstance(a, Opaque) and a.kind == "none":
        return b
    if isinstance(b, Opaque) and b.kind == "none":
        return a
    if isinstance(a, Opaque) and isinstance(b, Opaque):
        if a.kind == b.kind:
            return Opaque(a.kind, a.name if a.name == b.name else f"{a.name}|{b.name}", a.ref)
        return Opaque("object", f"{a.kind}|{b.kind}")
    if isinstance(a, AV) or isinstance(b, AV):
        return join_av(as_av(a, "join"), as_av(b, "join"))
    return Opaque("object", "join")


def _elem(v):
    if isinstance(v, SeqV):
        return v.elem
    if isinstance(v, TupV):
        out = None
        for it in v.items:
            out = join(out, it)
        return out if out is not None else unknown("element of an empty tuple")
    if isinstance(v, AV):
        return v
    if isinstance(v, ObjV):
        return v
    if isinstance(v, Opaque):
        return Opaque("object", f"element of {v.name or v.kind}")
    return unknown("element")


def _mul_bound(a: float, b: float) -> float:
    if a == 0 or b == 0:
        return 0.0
    return a * b


def _imul(alo, ahi, blo, bhi):
    c = [_mul_bound(x, y) for x in (alo, ahi) for y in (blo, bhi)]
    c = [0.0 if (isinstance(v, float) and math.isnan(v)) else v for v in c]
    return min(c), max(c)


def _varying(a: AV) -> bool:
    return not a.is_const()


def neg(a: AV) -> AV:
    if a.field in ("bool", "real"):
        return real(-a.hi, -a.lo, a.notes)
    if a.field == "imag":
        return imag(-a.hi, -a.lo, a.notes)
    return a


def add(a: AV, b: AV, sub: bool = False) -> AV:
    if sub:
        b = neg(b)
    notes = a.notes | b.notes
    if _varying(a) and _varying(b) and a.mhi != INF and b.mhi != INF:
        # bounded operands that may be correlated (cos(x)**2 + sin(x)**2): the interval sum can be too wide
        notes = notes | {"imprecise:sum of two varying terms"}
    if a.is_realish and b.is_realish:
        return real(a.lo + b.lo if not (a.lo == -INF or b.lo == -INF) else -INF,
                    a.hi + b.hi if not (a.hi == INF or b.hi == INF) else INF, notes)
    if a.field == "imag" and b.field == "imag":
        return imag(a.lo + b.lo if -INF not in (a.lo, b.lo) else -INF, a.hi + b.hi if INF not in (a.hi, b.hi) else INF,
                    notes)
    f = "top" if "top" in (a.field, b.field) else "complex"
    # real + imaginary: |z|^2 = x^2 + y^2
    if {a.field, b.field} <= {"bool", "real", "imag"} and a.field != b.field:
        mlo = math.hypot(a.mlo, b.mlo)
        mhi = INF if INF in (a.mhi, b.mhi) else math.hypot(a.mhi, b.mhi)
        return AV("complex", -INF, INF, mlo, mhi, notes)
    mhi = INF if INF in (a.mhi, b.mhi) else a.mhi + b.mhi
    mlo = max(0.0, a.mlo - b.mhi, b.mlo - a.mhi) if INF not in (a.mhi, b.mhi) else 0.0
    return AV(f, -INF, INF, mlo, mhi, notes)


def mul(a: AV, b: AV) -> AV:
    notes = a.notes | b.notes
    if a.is_realish and b.is_realish:
        lo, hi = _imul(a.lo, a.hi, b.lo, b.hi)
        return real(lo, hi, notes, "bool" if a.field == b.field == "bool" else "real")
    if {a.field, b.field} <= {"bool", "real", "imag"}:
        lo, hi = _imul(a.lo, a.hi, b.lo, b.hi)
        if a.field == "imag" and b.field == "imag":
            return real(-hi, -lo, notes)
        return imag(lo, hi, notes)
    f = "top" if "top" in (a.field, b.field) else "complex"
    return AV(f, -INF, INF, _mul_bound(a.mlo, b.mlo), _mul_bound(a.mhi, b.mhi), notes)


def inverse(b: AV) -> AV:
    notes = b.notes
    if b.is_realish:
        if b.lo > 0 or b.hi < 0:
            lo, hi = sorted((1 / b.lo if b.lo not in (INF, -INF) else 0.0, 1 / b.hi if b.hi not in (INF, -INF) else 0.0))
            return real(lo, hi, notes)
        return real(-INF, INF, notes)
    mlo = 0.0 if b.mhi == INF else (INF if b.mhi == 0 else 1 / b.mhi)
    mhi = INF if b.mlo == 0 else 1 / b.mlo
    if b.field == "imag":
        return AV("imag", -INF, INF, mlo, mhi, notes)
    return AV(b.field, -INF, INF, mlo, mhi, notes)


def div(a: AV, b: AV) -> AV:
    return mul(a, inverse(b))


def power(a: AV, e: AV) -> AV:
    notes = a.notes | e.notes
    if e.is_realish and e.lo == e.hi and float(e.lo).is_integer():
        n = int(e.lo)
        if n == 0:
            return real(1.0, 1.0, notes)
        if n < 0:
            return inverse(power(a, real(-n, -n))).with_notes(notes)
        if a.is_realish:
            cands = [a.lo ** n if a.lo not in (INF, -INF) else (INF if n % 2 == 0 or a.lo > 0 else -INF),
                     a.hi ** n if a.hi not in (INF, -INF) else (INF if n % 2 == 0 or a.hi > 0 else -INF)]
            lo, hi = min(cands), max(cands)
            if n % 2 == 0 and a.lo <= 0 <= a.hi:
                lo = 0.0
            return real(lo, hi, notes)
        if a.field == "imag" and n % 2 == 0:
            m = real(a.mlo ** n, a.mhi ** n if a.mhi != INF else INF)
            return (neg(m) if (n // 2) % 2 else m).with_notes(notes)
        return AV(a.field, -INF, INF, a.mlo ** n, a.mhi ** n if a.mhi != INF else INF, notes)
    if a.is_realish and a.lo >= 0 and e.is_realish and e.lo == e.hi and e.lo > 0:
        return real(a.lo ** e.lo, a.hi ** e.lo if a.hi != INF else INF, notes)
    if a.is_realish and a.lo >= 0 and e.is_realish:
        return real(0.0, INF, notes)
    f = "top" if "top" in (a.field, e.field) else ("real" if a.is_realish and e.is_realish else "complex")
    if f == "real":  # negative base, fractional exponent: nan in numpy, never complex
        return real(-INF, INF, notes)
    return AV(f, -INF, INF, 0.0, INF, notes)


def _drop_imprecise(notes) -> frozenset:
    return frozenset(n for n in notes if not n.startswith("imprecise:"))


def cexp(arg: AV) -> AV:
    """e^{i*arg}: unit modulus iff arg is real."""
    if arg.is_realish:
        return cplx(1.0, 1.0, _drop_imprecise(arg.notes))
    if arg.field == "imag":  # e^{i*(iy)} = e^{-y}
        lo = math.exp(-arg.hi) if arg.hi != INF else 0.0
        hi = math.exp(-arg.lo) if arg.lo != -INF else INF
        return real(lo, hi, arg.notes)
    return AV("top" if arg.field == "top" else "complex", -INF, INF, 0.0, INF, arg.notes)


def _exp(arg: AV) -> AV:
    if arg.is_realish:
        def e(x):
            if x == -INF:
                return 0.0
            if x == INF or x > 700:
                return INF
            return math.exp(x)
        return real(e(arg.lo), e(arg.hi), arg.notes)
    if arg.field == "imag":
        return cplx(1.0, 1.0, _drop_imprecise(arg.notes))
    return AV("top" if arg.field == "top" else "complex", -INF, INF, 0.0, INF, arg.notes)


def _sqrt(a: AV) -> AV:
    if a.is_realish:
        lo = math.sqrt(a.lo) if a.lo > 0 else 0.0
        hi = INF if a.hi == INF else math.sqrt(max(a.hi, 0.0))
        return real(lo, hi, a.notes)
    return AV(a.field, -INF, INF, math.sqrt(a.mlo), INF if a.mhi == INF else math.sqrt(a.mhi), a.notes)


def _trig(a: AV) -> AV:
    if a.is_realish:
        return real(-1.0, 1.0, _drop_imprecise(a.notes))
    return AV("top" if a.field == "top" else "complex", -INF, INF, 0.0, INF, a.notes)


def _abs(a: AV) -> AV:
    return real(a.mlo, a.mhi, a.notes)


def _abs2(a: AV) -> AV:
    return real(a.mlo ** 2, INF if a.mhi == INF else a.mhi ** 2, a.notes)


def apply_dtype(a: AV, dt) -> AV:
    if isinstance(dt, Opaque) and dt.kind == "dtype-complex":
        if a.field in ("bool", "real", "imag"):
            return AV("complex", -INF, INF, a.mlo, a.mhi, a.notes)
        return a
    if isinstance(dt, Opaque) and dt.kind in ("dtype-real", "dtype-bool"):
        if a.field in ("complex", "imag", "top"):  # numpy discards the imaginary part: certainly real afterwards
            return real(-a.mhi, a.mhi, a.notes if a.mhi != INF else frozenset())
        if a.lo == -INF and a.hi == INF:
            return real()
        return a
    if isinstance(dt, Opaque) and dt.kind == "none":
        return a
    return a.with_notes({"unknown:dtype not resolved"}) if dt is not None else a


# ====================================================================== decisions
def decide(ctx, rule: str, construct: str, where: str, v, want: str, what: str, key_detail: str = "") -> bool:
    """Record the verdict of requirement `want` on value `v`.

    want: 'eq1' | 'le1' | 'unit' ([0,1] real) | 'ge0' | 'real'.
    ok -> ctx.ok; fails without notes -> ctx.violation; fails with notes -> AnalysisError."""
    a = as_av(v, construct)
    good = {"eq1": a.eq1(), "le1": a.le1(), "unit": a.unit_interval(), "ge0": a.ge0(),
            "real": a.is_realish}[want]
    text = {"eq1": "modulus = 1", "le1": "modulus <= 1", "unit": "real value in [0, 1]", "ge0": "real value >= 0",
            "real": "real-valued"}[want]
    if good:
        ctx.ok(rule, construct, where, f"{what}: {a.describe()} satisfies {text}")
        return True
    if a.notes:
        raise AnalysisError(f"{construct}: cannot decide '{text}' for {what}; the abstract value is {a.describe()}")
    ctx.violation(rule, construct, where,
                  f"{what} must have {text} but the analysis can only bound it as {a.describe()}", key_detail)
    return False


# ====================================================================== interpreter
_SHAPE_FUNCS = {"expand_dims", "squeeze", "reshape", "tile", "broadcast_to", "roll", "fftshift", "ifftshift",
                "transpose", "swapaxes", "moveaxis", "ascontiguousarray", "flip", "repeat", "ravel", "flatten",
                "copy", "asnumpy", "atleast_1d", "atleast_2d", "atleast_3d", "take", "compress", "diag", "triu",
                "tril", "rot90", "sort", "unique", "compute", "rechunk", "persist", "get", "item", "tolist",
                "view", "contiguous", "asfortranarray"}
_CAST_FUNCS = {"array", "asarray", "asanyarray"}
_REAL_FUNCS = {"fftfreq", "rfftfreq", "arange", "linspace", "tan", "arctan", "arctan2", "arcsin", "arccos", "floor",
               "ceil", "round", "rint", "sign", "angle", "hypot", "log", "log10", "log2", "deg2rad", "rad2deg",
               "radians", "degrees", "unravel_index", "argmax", "argmin", "argsort", "searchsorted", "digitize",
               "cumsum", "diff", "gradient", "mod", "remainder", "floor_divide", "trunc", "random", "normal",
               "uniform", "bincount", "histogram", "indices", "size", "ndim", "count_nonzero", "nonzero"}
_BOOL_FUNCS = {"isfinite", "isnan", "isinf", "all", "any", "logical_and", "logical_or", "logical_not", "logical_xor",
               "less", "greater", "less_equal", "greater_equal", "equal", "not_equal", "isclose", "allclose",
               "array_equal", "iscomplexobj", "isreal", "isscalar", "issubdtype", "hasattr", "isinstance", "callable",
               "bool"}
_FOURIER_FUNCS = {"fft", "ifft", "fft2", "ifft2", "fftn", "ifftn", "rfft", "irfft", "rfft2", "irfft2",
                  "fft2_convolve", "fft_interpolate", "convolve", "correlate", "fftconvolve"}
# abTEM helpers whose behaviour is modelled directly instead of by interpreting their bodies (the model of
# complex_exponential is validated against its source by C04's R-CEXP rule)
TRUSTED_REPO = {"get_array_module", "complex_exponential", "abs2", "get_dtype", "fft2", "ifft2", "fftn", "ifftn",
                "fft2_convolve", "check_cupy_is_installed", "validate_device", "device_name_from_array_module",
                "copy_to_device", "asnumpy"}
_MODULE_NAMES = {"np", "numpy", "xp", "cp", "cupy", "da", "math", "cmath", "scipy"}
_MAPBLOCK_KW = {"meta", "dtype", "chunks", "new_axis", "drop_axis", "name", "token", "enforce_ndim", "align_arrays",
                "concatenate", "adjust_chunks"}
_DTYPE_NAMES = {"float32": "dtype-real", "float64": "dtype-real", "float16": "dtype-real", "float_": "dtype-real",
                "float": "dtype-real", "int": "dtype-real", "int32": "dtype-real", "int64": "dtype-real",
                "uint8": "dtype-real", "intp": "dtype-real", "double": "dtype-real", "single": "dtype-real",
                "complex64": "dtype-complex", "complex128": "dtype-complex", "complex": "dtype-complex",
                "complex_": "dtype-complex", "cdouble": "dtype-complex", "csingle": "dtype-complex",
                "bool": "dtype-bool", "bool_": "dtype-bool"}


@dataclass
class Summary:
    func: FuncInfo
    returns: list  # [(ast.Return | None, value)]
    value: object  # join of all return values (NONE when the function never returns a value)
    stores: list  # [(stmt, target dotted, op name | None, rhs value, old value)]
    taints: list  # [(call node, AV)] complex_exponential / exp applied to a not-provably-real argument


class _Terminated(Exception):
    pass


class Interp:
    """Abstract interpreter for abTEM kernel builders.

    attr_oracle(base_value, attr, text) -> value | None      assumptions about attributes of opaque objects
    call_oracle(interp, call, func_text, args, kwargs) -> value | None   trusted summaries of callees
    """

    def __init__(self, repo: Repo, attr_oracle: Optional[Callable] = None, call_oracle: Optional[Callable] = None,
                 max_depth: int = 7):
        self.repo = repo
        self.attr_oracle = attr_oracle
        self.call_oracle = call_oracle
        self.max_depth = max_depth
        self._depth = 0
        self._active: list[str] = []
        self._memo: dict = {}
        self._consts: dict[str, dict] = {}
        self.runs = 0
        self.max_runs = 600
        self.cexp_calls: list = []  # every e^{ix} construction seen: (FuncInfo, call node, arg AV, result AV)

    # ------------------------------------------------------------------ functions
    def run(self, f: FuncInfo, args: Optional[dict] = None, self_val=None) -> Summary:
        args = dict(args or {})
        key = (f.qualname, repr(sorted((k, repr(v)) for k, v in args.items())), repr(self_val))
        if key in self._memo:
            return self._memo[key]
        self.runs += 1
        if f.qualname in self._active or self._depth >= self.max_depth or self.runs > self.max_runs:
            why = "recursion" if f.qualname in self._active else "call depth" if self._depth >= self.max_depth \
                else "work budget"
            return Summary(f, [(None, unknown(f"{why} limit at {f.qualname}"))],
                           unknown(f"{why} limit at {f.qualname}"), [], [])
        env: dict[str, object] = {}
        a = f.node.args
        pos = [x.arg for x in a.posonlyargs + a.args]
        decos = f.decorators
        bound_self = f.cls is not None and "staticmethod" not in decos
        if bound_self and pos:
            env[pos[0]] = self_val if self_val is not None else Opaque("object", "self", f.cls)
            pos = pos[1:]
        defaults = f.defaults()
        for name in pos + [x.arg for x in a.kwonlyargs]:
            if name in args:
                env[name] = args.pop(name)
            elif name in defaults:
                env[name] = self._eval_in(f, defaults[name], {})
            else:
                env[name] = unknown(f"parameter {name} of {f.short} not bound")
        if a.vararg:
            env[a.vararg.arg] = SeqV(unknown("*args"))
        if a.kwarg:
            env[a.kwarg.arg] = Opaque("object", "**kwargs")
        frame = _Frame(self, f)
        self._active.append(f.qualname)
        self._depth += 1
        try:
            frame.block(f.body, env)
        finally:
            self._depth -= 1
            self._active.pop()
        val = None
        for _, v in frame.returns:
            val = join(val, v)
        s = Summary(f, frame.returns, val if val is not None else NONE, frame.stores, frame.taints)
        self._memo[key] = s
        return s

    def _eval_in(self, f: FuncInfo, expr: ast.expr, env: dict):
        return _Frame(self, f).eval(expr, env)

    def eval_expr(self, f: FuncInfo, expr: ast.expr, env: Optional[dict] = None):
        """Evaluate one expression in the scope of function `f` with the given environment."""
        return _Frame(self, f).eval(expr, dict(env or {}))

    def consts(self, mod: ModuleInfo) -> dict:
        if mod.name not in self._consts:
            self._consts[mod.name] = module_constants(mod)
        return self._consts[mod.name]

    def get_dtype_value(self, call: ast.Call, kwargs: dict, args: list):
        """`get_dtype(complex=...)` -> dtype; the default comes from get_dtype's own signature."""
        flag = kwargs.get("complex", args[0] if args else None)
        if flag is None:
            try:
                gd = self.repo.function("abtem.core.utils", "get_dtype")
                d = gd.defaults().get("complex")
                flag = real(1, 1, kind="bool") if isinstance(d, ast.Constant) and d.value is True else \
                    real(0, 0, kind="bool") if isinstance(d, ast.Constant) and d.value is False else None
            except AnalysisError:
                flag = None
        if isinstance(flag, AV) and flag.is_const():
            return Opaque("dtype-complex" if flag.lo else "dtype-real")
        return Opaque("dtype-unknown")


class _Frame:
    def __init__(self, interp: Interp, f: FuncInfo):
        self.ip = interp
        self.f = f
        self.returns: list = []
        self.stores: list = []
        self.taints: list = []
        self._breaks: list = []
        self._continues: list = []

    # ------------------------------------------------------------------ statements
    def block(self, body, env: dict):
        """Execute statements; returns the environment at normal fall-through or None."""
        for st in body:
            if env is None:
                return None
            env = self.stmt(st, env)
        return env

    def stmt(self, st: ast.stmt, env: dict):
        if isinstance(st, ast.Expr):
            self.eval(st.value, env)
            return env
        if isinstance(st, ast.Assign):
            v = self.eval(st.value, env)
            for t in st.targets:
                self.assign(t, v, env, st)
            return env
        if isinstance(st, ast.AnnAssign):
            if st.value is not None:
                self.assign(st.target, self.eval(st.value, env), env, st)
            return env
        if isinstance(st, ast.AugAssign):
            old = self.eval(_as_load(st.target), env)
            rhs = self.eval(st.value, env)
            new = self.binop(st.op, old, rhs, st)
            self.assign(st.target, new, env, st, aug=(type(st.op).__name__, rhs, old))
            return env
        if isinstance(st, ast.Return):
            v = self.eval(st.value, env) if st.value is not None else NONE
            self.returns.append((st, v))
            return None
        if isinstance(st, ast.Raise):
            return None
        if isinstance(st, ast.If):
            self.eval(st.test, env)
            e1 = self.block(st.body, dict(env))
            e2 = self.block(st.orelse, dict(env)) if st.orelse else dict(env)
            return _join_env(e1, e2)
        if isinstance(st, (ast.For, ast.While)):
            return self.loop(st, env)
        if isinstance(st, ast.With):
            for it in st.items:
                v = self.eval(it.context_expr, env)
                if it.optional_vars is not None:
                    self.assign(it.optional_vars, v, env, st)
            return self.block(st.body, env)
        if isinstance(st, ast.Try):
            before = dict(env)
            e = self.block(st.body, dict(env))
            if e is not None and st.orelse:
                e = self.block(st.orelse, e)
            outs = e
            mid = _join_env(before, e) if e is not None else before
            for h in st.handlers:
                he = dict(mid)
                if h.name:
                    he[h.name] = Opaque("object", "exception")
                outs = _join_env(outs, self.block(h.body, he))
            if st.finalbody and outs is not None:
                outs = self.block(st.finalbody, outs)
            return outs
        if isinstance(st, (ast.FunctionDef, ast.AsyncFunctionDef)):
            env[st.name] = Opaque("func", st.name, None)
            return env
        if isinstance(st, ast.ClassDef):
            env[st.name] = Opaque("class", st.name, None)
            return env
        if isinstance(st, (ast.Import, ast.ImportFrom)):
            for al in st.names:
                nm = (al.asname or al.name).split(".")[0]
                env.pop(nm, None)
                env["\0import:" + nm] = (st, al)
            return env
        if isinstance(st, (ast.Pass, ast.Global, ast.Nonlocal, ast.Assert)):
            return env
        if isinstance(st, ast.Delete):
            for t in st.targets:
                if isinstance(t, ast.Name):
                    env.pop(t.id, None)
            return env
        if isinstance(st, ast.Break):
            self._breaks.append(dict(env))
            return None
        if isinstance(st, ast.Continue):
            self._continues.append(dict(env))
            return None
        # unmodelled statement: every name it binds becomes unknown
        for n in ast.walk(st):
            if isinstance(n, ast.Name) and isinstance(n.ctx, ast.Store):
                env[n.id] = unknown(f"statement {type(st).__name__}")
        return env

    def loop(self, st, env: dict):
        saved_b, saved_c = self._breaks, self._continues
        head = dict(env)
        exits = None
        for it in range(8):
            self._breaks, self._continues = [], []
            cur = dict(head)
            if isinstance(st, ast.For):
                self.assign(st.target, _elem(self.eval(st.iter, cur)), cur, st)
            else:
                self.eval(st.test, cur)
            out = self.block(st.body, cur)
            for c in self._continues:
                out = _join_env(out, c)
            new_head = _join_env(dict(env), out) if out is not None else dict(env)
            if it >= 4:
                new_head = {k: _widen(head.get(k), v) for k, v in new_head.items()}
            brk = None
            for b in self._breaks:
                brk = _join_env(brk, b)
            if _env_eq(new_head, head):
                exits = brk
                break
            head = _join_env(head, new_head)
            exits = brk
        self._breaks, self._continues = saved_b, saved_c
        after = dict(head)
        if isinstance(st, ast.For):  # the target may stay bound from the last iteration
            pass
        if st.orelse:
            after = self.block(st.orelse, after)
        return _join_env(after, exits)

    def assign(self, target: ast.expr, v, env: dict, st: ast.stmt, aug=None) -> None:
        if isinstance(target, ast.Name):
            env[target.id] = v
            return
        if isinstance(target, (ast.Tuple, ast.List)):
            n = len(target.elts)
            for i, t in enumerate(target.elts):
                if isinstance(t, ast.Starred):
                    self.assign(t.value, SeqV(_elem(v)), env, st)
                elif isinstance(v, TupV) and len(v.items) == n:
                    self.assign(t, v.items[i], env, st)
                elif isinstance(v, AV) and "unknown" in " ".join(v.notes) and v.field == "top":
                    self.assign(t, v, env, st)
                else:
                    self.assign(t, _elem(v), env, st)
            return
        if isinstance(target, ast.Attribute):
            d = dotted(target)
            base = self.eval(target.value, env)
            if isinstance(base, ObjV) and target.attr in ARRAY_ATTRS and isinstance(target.value, ast.Name):
                env[target.value.id] = ObjV(base.cls, v, base.ref)
            if d is not None:
                env[d] = v
                self.stores.append((st, d, aug[0] if aug else None, aug[1] if aug else v, aug[2] if aug else None))
            return
        if isinstance(target, ast.Subscript):
            # weak update of the container: old contents may survive
            base_expr = target.value
            old = self.eval(base_expr, env)
            self.eval(target.slice, env)
            if isinstance(old, (AV, ObjV)):
                new = join(old, v) if isinstance(old, AV) else ObjV(old.cls, join(old.array, v), old.ref)
            elif isinstance(old, (TupV, SeqV)):
                new = SeqV(join(_elem(old), v))
            else:
                new = old
            d = dotted(base_expr)
            if isinstance(base_expr, ast.Name):
                env[base_expr.id] = new
            elif d is not None:
                env[d] = new
                self.stores.append((st, d + "[...]", aug[0] if aug else None, aug[1] if aug else v, old))
            return

    # ------------------------------------------------------------------ expressions
    def eval(self, n: ast.AST, env: dict):
        try:
            return self._eval(n, env)
        except RecursionError:
            return unknown("expression too deep")

    def _eval(self, n: ast.AST, env: dict):
        if isinstance(n, ast.Constant):
            v = n.value
            if isinstance(v, bool):
                return real(float(v), float(v), kind="bool")
            if isinstance(v, (int, float)):
                return real(float(v), float(v))
            if isinstance(v, complex):
                if v.real == 0:
                    return imag(v.imag, v.imag)
                return cplx(abs(v), abs(v))
            if v is None:
                return NONE
            if isinstance(v, str):
                return Opaque("str", v)
            return Opaque("object", repr(v))
        if isinstance(n, ast.Name):
            return self.name(n.id, env)
        if isinstance(n, ast.Attribute):
            return self.attribute(n, env)
        if isinstance(n, ast.UnaryOp):
            v = self.eval(n.operand, env)
            if isinstance(n.op, ast.Not):
                return boolean()
            a = as_av(v, norm_text(n))
            if isinstance(n.op, ast.USub):
                return neg(a)
            if isinstance(n.op, ast.UAdd):
                return a
            if isinstance(n.op, ast.Invert):
                return boolean(a.notes) if a.field == "bool" else real(notes=a.notes)
        if isinstance(n, ast.BinOp):
            return self.binop(n.op, self.eval(n.left, env), self.eval(n.right, env), n)
        if isinstance(n, ast.BoolOp):
            out = None
            for v in n.values:
                out = join(out, self.eval(v, env))
            return out
        if isinstance(n, ast.Compare):
            self.eval(n.left, env)
            for c in n.comparators:
                self.eval(c, env)
            return boolean()
        if isinstance(n, ast.IfExp):
            self.eval(n.test, env)
            return join(self.eval(n.body, env), self.eval(n.orelse, env))
        if isinstance(n, (ast.Tuple, ast.List)):
            items = []
            for e in n.elts:
                if isinstance(e, ast.Starred):
                    return SeqV(join(_elem(self.eval(e.value, env)),
                                     _elem(TupV(tuple(self.eval(x, env) for x in n.elts
                                                      if not isinstance(x, ast.Starred)))) if len(n.elts) > 1 else None))
                items.append(self.eval(e, env))
            return TupV(tuple(items))
        if isinstance(n, ast.Set):
            return SeqV(_elem(TupV(tuple(self.eval(e, env) for e in n.elts))))
        if isinstance(n, ast.Dict):
            for v in n.values:
                self.eval(v, env)
            return Opaque("object", "dict")
        if isinstance(n, ast.Subscript):
            return self.subscript(n, env)
        if isinstance(n, ast.Call):
            return self.call(n, env)
        if isinstance(n, (ast.ListComp, ast.GeneratorExp, ast.SetComp)):
            e2 = dict(env)
            for g in n.generators:
                self.assign(g.target, _elem(self.eval(g.iter, e2)), e2, n)  # type: ignore[arg-type]
                for c in g.ifs:
                    self.eval(c, e2)
            return SeqV(self.eval(n.elt, e2))
        if isinstance(n, ast.DictComp):
            return Opaque("object", "dict")
        if isinstance(n, ast.JoinedStr):
            return Opaque("str", "f-string")
        if isinstance(n, ast.Lambda):
            return Opaque("func", "lambda")
        if isinstance(n, ast.NamedExpr):
            v = self.eval(n.value, env)
            if isinstance(n.target, ast.Name):
                env[n.target.id] = v
            return v
        if isinstance(n, ast.Starred):
            return SeqV(_elem(self.eval(n.value, env)))
        if isinstance(n, ast.Slice):
            for p in (n.lower, n.upper, n.step):
                if p is not None:
                    self.eval(p, env)
            return Opaque("object", "slice")
        return unknown(f"expression {type(n).__name__}")

    def name(self, nm: str, env: dict):
        if nm in env:
            return env[nm]
        if nm in ("True", "False"):
            return real(float(nm == "True"), float(nm == "True"), kind="bool")
        if nm in _MODULE_NAMES:
            return Opaque("module", nm)
        mod = self.f.module
        imp_key = "\0import:" + nm
        target = None
        if imp_key in env:
            target = self._resolve_local_import(env[imp_key])
        if target is None:
            target = self.ip.repo.resolve_name(mod, nm)
        if isinstance(target, FuncInfo):
            return Opaque("func", target.qualname, target)
        if isinstance(target, ClassInfo):
            return Opaque("class", target.qualname, target)
        if isinstance(target, ModuleInfo):
            return Opaque("module", target.name, target)
        if nm in mod.imports:
            q = mod.imports[nm]
            if q.split(".")[0] in ("numpy", "cupy", "dask", "math", "scipy", "numba", "cmath"):
                return Opaque("module", nm) if q in ("numpy", "cupy", "dask.array", "math", "scipy", "cmath") else \
                    Opaque("func", q)
            return Opaque("func", q)
        c = self.ip.consts(mod)
        if nm in c and isinstance(c[nm], (int, float)) and not isinstance(c[nm], bool):
            return real(float(c[nm]), float(c[nm]))
        if nm in _DTYPE_NAMES:
            return Opaque(_DTYPE_NAMES[nm], nm)
        if nm in ("float", "int", "abs", "max", "min", "len", "tuple", "list", "reversed", "zip", "enumerate", "range",
                  "hasattr", "isinstance", "getattr", "sum", "round", "sorted", "set", "dict", "str", "bool", "complex",
                  "map", "any", "all", "print", "slice", "type", "id", "iter", "next", "pow", "divmod", "callable",
                  "super", "cast"):
            return Opaque("func", nm)
        return unknown(f"name {nm}")

    def _resolve_local_import(self, rec):
        st, al = rec
        if isinstance(st, ast.ImportFrom) and st.module and not st.level:
            m = self.ip.repo.modules.get(st.module)
            if m is not None:
                return self.ip.repo.resolve_name(m, al.name)
        return None

    def attribute(self, n: ast.Attribute, env: dict):
        d = dotted(n)
        if d is not None and d in env:
            return env[d]
        if d in ("np.pi", "numpy.pi", "math.pi", "xp.pi", "cp.pi"):
            return real(math.pi, math.pi)
        if d in ("np.e", "math.e"):
            return real(math.e, math.e)
        if d in ("np.inf", "math.inf", "xp.inf"):
            return real(INF, INF)
        if d in ("np.newaxis", "xp.newaxis"):
            return NONE
        base = self.eval(n.value, env)
        attr = n.attr
        if isinstance(base, Opaque) and base.kind == "module":
            if attr == "pi":
                return real(math.pi, math.pi)
            if attr in _DTYPE_NAMES:
                return Opaque(_DTYPE_NAMES[attr], attr)
            if isinstance(base.ref, ModuleInfo):
                t = self.ip.repo.resolve_name(base.ref, attr)
                if isinstance(t, FuncInfo):
                    return Opaque("func", t.qualname, t)
                if isinstance(t, ClassInfo):
                    return Opaque("class", t.qualname, t)
                if isinstance(t, ModuleInfo):
                    return Opaque("module", t.name, t)
            return Opaque("module" if attr in ("fft", "linalg", "random", "core", "ndimage", "special") else "func",
                          f"{base.name}.{attr}")
        if isinstance(base, ObjV):
            if attr in ARRAY_ATTRS:
                return base.array
            if attr in ("shape",):
                return SeqV(real(0.0, INF))
        if isinstance(base, AV):
            if attr in ("real", "imag"):
                return real(-base.mhi, base.mhi, base.notes) if not (attr == "real" and base.is_realish) else base
            if attr in ("T", "mT", "flat"):
                return base
            if attr == "shape":
                return SeqV(real(0.0, INF))
            if attr in ("ndim", "size", "nbytes", "itemsize"):
                return real(0.0, INF)
            if attr == "dtype":
                return Opaque({"bool": "dtype-bool", "real": "dtype-real", "complex": "dtype-complex",
                               "imag": "dtype-complex"}.get(base.field, "dtype-unknown"))
        if isinstance(base, (TupV, SeqV)) and attr in ("shape",):
            return SeqV(real(0.0, INF))
        if self.ip.attr_oracle is not None:
            r = self.ip.attr_oracle(base, attr, d or norm_text(n))
            if r is not None:
                return r
        # members of a known class
        cls = base.ref if isinstance(base, (Opaque, ObjV)) and isinstance(getattr(base, "ref", None), ClassInfo) else None
        if cls is not None:
            m = cls.find_method(attr)
            if m is not None:
                if m.is_property:
                    return self.ip.run(m, {}, self_val=base).value
                return Opaque("func", m.qualname, (m, base))
        return unknown(f"attribute {d or norm_text(n)}")

    def subscript(self, n: ast.Subscript, env: dict):
        base = self.eval(n.value, env)
        sl = n.slice
        idx = self.eval(sl, env) if not isinstance(sl, ast.Slice) else None
        if isinstance(base, TupV):
            if isinstance(sl, ast.Constant) and isinstance(sl.value, int) and -len(base.items) <= sl.value < len(base.items):
                return base.items[sl.value]
            if isinstance(sl, ast.UnaryOp) and isinstance(sl.op, ast.USub) and isinstance(sl.operand, ast.Constant) and \
                    isinstance(sl.operand.value, int) and sl.operand.value <= len(base.items):
                return base.items[-sl.operand.value]
            if isinstance(sl, ast.Slice):
                return SeqV(_elem(base))
            return _elem(base)
        if isinstance(base, SeqV):
            if isinstance(sl, ast.Slice):
                return base
            return base.elem
        if isinstance(base, AV):
            return base  # selection / reshape of an array keeps the element bounds
        if isinstance(base, ObjV):
            return base
        if isinstance(base, Opaque) and base.kind in ("object",):
            if self.ip.attr_oracle is not None:
                r = self.ip.attr_oracle(base, "[]", norm_text(n))
                if r is not None:
                    return r
            return unknown(f"subscript of {norm_text(n.value)}")
        if isinstance(base, Opaque) and base.kind == "class":
            return base
        return unknown(f"subscript of {norm_text(n.value)}")

    def binop(self, op: ast.operator, lv, rv, node: ast.AST):
        if isinstance(op, ast.Add) and isinstance(lv, (TupV, SeqV)) and isinstance(rv, (TupV, SeqV)):
            if isinstance(lv, TupV) and isinstance(rv, TupV):
                return TupV(lv.items + rv.items)
            return SeqV(join(_elem(lv), _elem(rv)))
        if isinstance(op, ast.Mult) and (isinstance(lv, (TupV, SeqV)) != isinstance(rv, (TupV, SeqV))):
            seq = lv if isinstance(lv, (TupV, SeqV)) else rv
            other = rv if seq is lv else lv
            if isinstance(other, AV) and other.is_realish and isinstance(node, ast.BinOp) and \
                    isinstance(node.left if seq is lv else node.right, (ast.Tuple, ast.List)):
                return SeqV(_elem(seq))  # sequence repetition
        a, b = as_av(lv, norm_text(node)), as_av(rv, norm_text(node))
        if isinstance(op, ast.Add):
            return add(a, b)
        if isinstance(op, ast.Sub):
            return add(a, b, sub=True)
        if isinstance(op, ast.Mult):
            return mul(a, b)
        if isinstance(op, ast.Div):
            return div(a, b)
        if isinstance(op, ast.Pow):
            return power(a, b)
        if isinstance(op, (ast.FloorDiv, ast.Mod)):
            if a.is_realish and b.is_realish:
                return real(notes=a.notes | b.notes)
        if isinstance(op, (ast.BitAnd, ast.BitOr, ast.BitXor)):
            if a.field == "bool" and b.field == "bool":
                return boolean(a.notes | b.notes)
            if a.is_realish and b.is_realish:
                return real(notes=a.notes | b.notes)
        if isinstance(op, ast.MatMult):
            f = "top" if "top" in (a.field, b.field) else ("real" if a.is_realish and b.is_realish else "complex")
            return AV(f, -INF, INF, 0.0, INF, a.notes | b.notes)
        return unknown(f"operator {type(op).__name__}", a.notes | b.notes)

    # ------------------------------------------------------------------ calls
    def call(self, n: ast.Call, env: dict):
        args = []
        for a in n.args:
            v = self.eval(a, env)
            args.append(v)
        kwargs = {}
        for k in n.keywords:
            v = self.eval(k.value, env)
            if k.arg is not None:
                kwargs[k.arg] = v
        ftext = dotted(n.func) or norm_text(n.func)
        short = n.func.attr if isinstance(n.func, ast.Attribute) else (n.func.id if isinstance(n.func, ast.Name) else "")
        if self.ip.call_oracle is not None:
            r = self.ip.call_oracle(self.ip, n, ftext, args, kwargs)
            if r is not None:
                return r
        starred = any(isinstance(a, ast.Starred) for a in n.args)
        # --- methods on values
        if isinstance(n.func, ast.Attribute):
            recv = self.eval(n.func.value, env)
            if isinstance(recv, (AV, ObjV, TupV, SeqV)) and not (isinstance(recv, AV) and recv.field == "top"
                                                                  and recv.notes and short not in _SHAPE_FUNCS):
                r = self.method_on_value(recv, short, args, kwargs, n, env)
                if r is not None:
                    return r
            if isinstance(recv, Opaque) and recv.kind == "module":
                if isinstance(recv.ref, ModuleInfo):
                    t = self.ip.repo.resolve_name(recv.ref, short)
                    if isinstance(t, FuncInfo):
                        return self.call_repo(t, n, args, kwargs, None, starred)
                    if isinstance(t, ClassInfo):
                        return self.construct(Opaque("class", t.qualname, t), args, kwargs, n)
                return self.library(short, args, kwargs, n, f"{recv.name}.{short}")
            if isinstance(recv, Opaque) and recv.kind in ("object", "class") and isinstance(recv.ref, ClassInfo):
                m = recv.ref.find_method(short)
                if m is not None:
                    return self.call_repo(m, n, args, kwargs, recv if recv.kind == "object" else None, starred)
            if isinstance(recv, ObjV) and isinstance(recv.ref, ClassInfo):
                m = recv.ref.find_method(short)
                if m is not None:
                    return self.call_repo(m, n, args, kwargs, recv, starred)
            if isinstance(recv, AV) and recv.field == "top":
                return unknown(f"method {short} on unknown value", recv.notes)
            return unknown(f"call {ftext}")
        # --- plain names
        fv = self.eval(n.func, env)
        if isinstance(fv, Opaque) and fv.kind == "func":
            if isinstance(fv.ref, FuncInfo):
                return self.call_repo(fv.ref, n, args, kwargs, None, starred)
            if isinstance(fv.ref, tuple):
                return self.call_repo(fv.ref[0], n, args, kwargs, fv.ref[1], starred)
            return self.library(fv.name.split(".")[-1], args, kwargs, n, fv.name)
        if isinstance(fv, Opaque) and fv.kind == "class":
            return self.construct(fv, args, kwargs, n)
        if isinstance(fv, Opaque) and fv.kind.startswith("dtype-"):
            a = as_av(args[0], ftext) if args else real(0, 0)
            if fv.name in ("float", "int") and not a.is_realish:
                return real()  # float()/int() raise TypeError on complex input: the result is certainly real
            return apply_dtype(a, fv)
        return unknown(f"call {ftext}")

    def construct(self, cv: Opaque, args, kwargs, n: ast.Call):
        cls = cv.ref
        if isinstance(cls, ClassInfo):
            init = cls.find_method("__init__")
            if init is not None and any(c.name == "ArrayObject" for c in cls.mro()) or (
                    init is not None and "array" in init.positional_params[1:2]):
                params = init.positional_params[1:]
                arr = kwargs.get("array")
                if arr is None and params and params[0] == "array" and args:
                    arr = args[0]
                if arr is None and "array" in params and len(args) > params.index("array"):
                    arr = args[params.index("array")]
                if arr is not None:
                    return ObjV(cls.name, arr, cls)
            return Opaque("object", cls.name, cls)
        return Opaque("object", cv.name)

    def call_repo(self, f: FuncInfo, n: ast.Call, args, kwargs, self_val, starred: bool):
        if f.cls is None and f.name in TRUSTED_REPO:
            return self.library(f.name, args, kwargs, n, f.qualname)
        if starred:
            return unknown(f"call of {f.short} with *args")
        decos = f.decorators
        bound = {}
        params = f.positional_params
        if f.cls is not None and "staticmethod" not in decos:
            params = params[1:]
        for p, a in zip(params, args):
            bound[p] = a
        if len(args) > len(params) and not f.has_vararg:
            return unknown(f"call of {f.short} with too many arguments")
        for k, v in kwargs.items():
            if k in f.params:
                bound[k] = v
        if any("overload" in d for d in decos) or f.is_abstract:
            return unknown(f"abstract/overload stub {f.short}")
        s = self.ip.run(f, bound, self_val=self_val)
        self.taints.extend(s.taints)
        return s.value

    def method_on_value(self, recv, short: str, args, kwargs, n: ast.Call, env):
        if isinstance(recv, (TupV, SeqV)):
            if short in ("index", "count"):
                return real(0.0, INF)
            if short in ("copy",):
                return recv
            if short in ("append", "extend", "insert"):
                if isinstance(n.func, ast.Attribute) and isinstance(n.func.value, ast.Name) and args:
                    add_v = args[-1] if short != "extend" else _elem(args[0])
                    env[n.func.value.id] = SeqV(join(_elem(recv) if (not isinstance(recv, TupV) or recv.items) else None,
                                                     add_v))
                return NONE
            return None
        a = as_av(recv, short)
        if short == "astype":
            dt = args[0] if args else kwargs.get("dtype")
            r = apply_dtype(a, dt)
            return ObjV(recv.cls, r, recv.ref) if isinstance(recv, ObjV) else r
        if short in ("conj", "conjugate"):
            return recv
        if short in _SHAPE_FUNCS or short in ("copy_to_device", "to_cpu", "to_gpu", "ensure_lazy", "lazy"):
            return recv
        if short in ("max", "min", "mean", "median"):
            return a
        if short in ("sum", "prod", "std", "var", "cumsum", "dot"):
            return self.reduce(short, a)
        if short in ("all", "any"):
            return boolean()
        if short in ("argmax", "argmin", "nonzero", "argsort"):
            return real(0.0, INF)
        if short == "fill" and isinstance(n.func, ast.Attribute) and isinstance(n.func.value, ast.Name) and args:
            env[n.func.value.id] = as_av(args[0], "fill")
            return NONE
        if short in ("real", "imag"):
            return real(-a.mhi, a.mhi, a.notes)
        if short == "__abs__":
            return _abs(a)
        if short == "clip":
            return self.library("clip", [recv] + list(args), kwargs, n, "clip")
        if isinstance(recv, ObjV):
            return None
        return unknown(f"array method {short}", a.notes)

    def reduce(self, short: str, a: AV) -> AV:
        if short in ("sum", "cumsum", "dot"):
            if a.is_realish:
                return real(0.0 if a.lo >= 0 else -INF, 0.0 if a.hi <= 0 else INF, a.notes)
            return AV(a.field, -INF, INF, 0.0, INF, a.notes)
        if short == "prod":
            if a.unit_interval():
                return real(0.0, 1.0, a.notes)
            if a.is_realish:
                return real(0.0 if a.lo >= 0 else -INF, INF, a.notes)
            return AV(a.field, -INF, INF, 0.0 if a.mlo < 1 else 1.0, 1.0 if a.mhi <= 1 else INF, a.notes)
        if short in ("std", "var"):
            return real(0.0, INF, a.notes)
        return a

    def library(self, short: str, args, kwargs, n: ast.Call, full: str):
        """Trusted model of numpy/cupy/dask/builtin functions, keyed by the final identifier."""
        A = lambda i=0: as_av(args[i], f"argument {i} of {full}") if len(args) > i else unknown(f"missing argument of {full}")
        dt = kwargs.get("dtype")

        def typed(v: AV) -> AV:
            return apply_dtype(v, dt) if dt is not None else v

        if short in _CAST_FUNCS:
            if not args:
                return unknown(f"{full}()")
            if isinstance(args[0], ObjV):
                return args[0]
            return typed(A())
        if short in ("zeros", "zeros_like"):
            return typed(real(0.0, 0.0))
        if short in ("ones", "ones_like"):
            return typed(real(1.0, 1.0))
        if short in ("full", "full_like"):
            return typed(A(1)) if len(args) > 1 else typed(as_av(kwargs.get("fill_value", unknown("full without value")), full))
        if short in ("empty", "empty_like"):
            return typed(real())
        if short in ("eye", "identity"):
            return typed(real(0.0, 1.0))
        if short in ("cos", "sin"):
            return _trig(A())
        if short in ("exp",):
            r = _exp(A())
            if not A().is_realish:
                self._note_cexp(n, A(), r, via="exp")
            return r
        if short == "expm1":
            return add(_exp(A()), real(-1, -1))
        if short == "complex_exponential":
            r = cexp(A())
            self._note_cexp(n, A(), r, via="complex_exponential")
            return r
        if short in ("abs2",):
            return _abs2(A())
        if short in ("abs", "absolute", "fabs"):
            return _abs(A())
        if short == "sqrt":
            return _sqrt(A())
        if short == "square":
            return power(A(), real(2, 2))
        if short == "power" or short == "pow":
            return power(A(0), A(1))
        if short in ("conj", "conjugate"):
            return args[0] if args else unknown(full)
        if short in ("real", "imag"):
            return real(-A().mhi, A().mhi, A().notes) if not (short == "real" and A().is_realish) else A()
        if short == "where":
            if len(args) >= 3:
                return join_av(A(1), A(2))
            return SeqV(real(0.0, INF))
        if short in ("minimum", "fmin"):
            a, b = A(0), A(1)
            if a.is_realish and b.is_realish:
                return real(min(a.lo, b.lo), min(a.hi, b.hi), a.notes | b.notes)
            return unknown(f"{full} of complex")
        if short in ("maximum", "fmax"):
            a, b = A(0), A(1)
            if a.is_realish and b.is_realish:
                return real(max(a.lo, b.lo), max(a.hi, b.hi), a.notes | b.notes)
            return unknown(f"{full} of complex")
        if short == "clip":
            a = A(0)
            lo = kwargs.get("a_min", kwargs.get("min", args[1] if len(args) > 1 else None))
            hi = kwargs.get("a_max", kwargs.get("max", args[2] if len(args) > 2 else None))
            if a.is_realish:
                l2, h2 = a.lo, a.hi
                if isinstance(lo, AV) and lo.is_realish:
                    l2, h2 = max(l2, lo.lo), max(h2, lo.lo)
                if isinstance(hi, AV) and hi.is_realish:
                    l2, h2 = min(l2, hi.hi), min(h2, hi.hi)
                return real(l2, h2, a.notes)
            return a
        if short in ("sum", "prod", "std", "var", "cumsum", "dot", "nansum", "trapz", "einsum", "tensordot", "matmul",
                     "vdot", "inner", "outer", "norm"):
            if short in ("einsum",):
                vals = [as_av(v, full) for v in args[1:]] or [unknown(full)]
                out = vals[0]
                for v in vals[1:]:
                    out = mul(out, v)
                return self.reduce("sum", out)
            if short == "norm":
                return real(0.0, INF, A().notes)
            if short in ("dot", "tensordot", "matmul", "vdot", "inner", "outer") and len(args) > 1:
                return self.reduce("sum", mul(A(0), A(1)))
            return self.reduce({"nansum": "sum", "trapz": "sum"}.get(short, short), A())
        if short in ("max", "min", "mean", "median", "amax", "amin", "nanmax", "nanmin", "average"):
            if len(args) > 1 and short in ("max", "min") and not isinstance(args[0], (TupV, SeqV)):
                out = A(0)
                for i in range(1, len(args)):
                    out = join_av(out, A(i))
                return out
            return A()
        if short in _SHAPE_FUNCS or short in ("pad",):
            if short == "pad":
                return join_av(A(), real(0.0, 0.0)) if "mode" not in kwargs else A()
            return args[0] if args else unknown(full)
        if short in ("concatenate", "stack", "vstack", "hstack", "dstack", "block"):
            return as_av(args[0], full) if args else unknown(full)
        if short == "meshgrid":
            return SeqV(as_av(TupV(tuple(args)), full)) if args else unknown(full)
        if short in _REAL_FUNCS:
            if short == "linspace" and len(args) >= 2 and A(0).is_realish and A(1).is_realish:
                return real(min(A(0).lo, A(1).lo), max(A(0).hi, A(1).hi))
            if short in ("arctan", "arcsin"):
                return real(-math.pi / 2, math.pi / 2)
            if short in ("arctan2", "angle"):
                return real(-math.pi, math.pi)
            if short == "arccos":
                return real(0.0, math.pi)
            if short == "sign":
                return real(-1.0, 1.0)
            if short in ("log", "log10", "log2", "tan", "floor", "ceil", "round", "rint", "trunc", "mod", "remainder",
                         "floor_divide", "hypot", "deg2rad", "rad2deg", "radians", "degrees", "cumsum", "diff",
                         "gradient") and args and not A().is_realish:
                return AV(A().field, -INF, INF, 0.0, INF, A().notes)
            if short == "hypot":
                return real(0.0, INF)
            return real()
        if short in _BOOL_FUNCS:
            return boolean()
        if short in _FOURIER_FUNCS:
            # a Fourier-space operation keeps no pointwise bound whatever its input: this is a *modelled* loss
            # (no note), so a requirement failing on it is a violation, not an analysis error
            return cplx(0.0, INF)
        if short == "map_blocks":
            return self.map_blocks(args, kwargs, n)
        if short in ("float", "int"):
            return real()  # float()/int() of a complex number raises TypeError
        if short == "complex":
            return cplx()
        if short in ("bool",):
            return boolean()
        if short == "len":
            return real(0.0, INF)
        if short in ("tuple", "list", "sorted", "reversed", "set", "iter"):
            if not args:
                return TupV(())
            return args[0] if isinstance(args[0], (TupV, SeqV)) else (
                SeqV(args[0]) if isinstance(args[0], (AV, ObjV)) else SeqV(_elem(args[0])))
        if short == "zip":
            return SeqV(TupV(tuple(_elem(a) for a in args)))
        if short == "enumerate":
            return SeqV(TupV((real(0.0, INF), _elem(args[0]) if args else unknown("enumerate()"))))
        if short == "range":
            return SeqV(real())
        if short in ("hasattr", "isinstance", "callable", "issubclass"):
            return boolean()
        if short == "getattr":
            if len(args) >= 2 and isinstance(args[1], Opaque) and args[1].kind == "str" and self.ip.attr_oracle:
                r = self.ip.attr_oracle(args[0], args[1].name, f"getattr(..., {args[1].name!r})")
                if r is not None:
                    return join(r, args[2]) if len(args) > 2 else r
            return unknown("getattr")
        if short == "cast":
            return args[1] if len(args) > 1 else unknown("cast")
        if short == "get_array_module":
            return MODULE
        if short == "get_dtype":
            return self.ip.get_dtype_value(n, kwargs, args)
        if short == "dtype":
            return args[0] if args and isinstance(args[0], Opaque) else Opaque("dtype-unknown")
        if short in ("check_cupy_is_installed", "print", "warn"):
            return NONE
        if short in ("str", "repr", "format"):
            return Opaque("str", "")
        if short == "next":
            return _elem(args[0]) if args else unknown("next()")
        if short == "map":
            return SeqV(unknown("map()"))
        if short in ("deepcopy",):
            return args[0] if args else unknown(full)
        return unknown(f"call {full}")

    def map_blocks(self, args, kwargs, n: ast.Call):
        if not args:
            return unknown("map_blocks()")
        fv = args[0]
        rest = list(args[1:])
        kw = {k: v for k, v in kwargs.items() if k not in _MAPBLOCK_KW}
        if isinstance(fv, Opaque) and fv.kind == "func":
            if isinstance(fv.ref, FuncInfo):
                return self.call_repo(fv.ref, n, rest, kw, None, False)
            if isinstance(fv.ref, tuple):
                return self.call_repo(fv.ref[0], n, rest, kw, fv.ref[1], False)
            if fv.ref is None and fv.name:
                return self.library(fv.name.split(".")[-1], rest, kw, n, fv.name)
        return unknown("map_blocks of an unresolved function")

    def _note_cexp(self, n: ast.Call, arg: AV, res: AV, via: str) -> None:
        self.ip.cexp_calls.append((self.f, n, arg, res, via))
        if not arg.is_realish and not (via == "exp" and arg.field == "imag"):
            self.taints.append((n, arg))


# ====================================================================== helpers
def _as_load(t: ast.expr) -> ast.expr:
    import copy

    t2 = copy.deepcopy(t)
    for n in ast.walk(t2):
        if hasattr(n, "ctx"):
            n.ctx = ast.Load()
    return t2


def _join_env(a: Optional[dict], b: Optional[dict]) -> Optional[dict]:
    if a is None:
        return b
    if b is None:
        return a
    out = {}
    for k in set(a) | set(b):
        if k in a and k in b:
            if k.startswith("\0"):
                out[k] = a[k]
            else:
                out[k] = join(a[k], b[k])
        else:
            v = a.get(k, b.get(k))
            out[k] = v  # bound on one path only: a use on the other path would be a NameError
    return out


def _env_eq(a: dict, b: dict) -> bool:
    return set(a) == set(b) and all(a[k] == b[k] for k in a if not k.startswith("\0"))


def _widen(old, new):
    if isinstance(old, AV) and isinstance(new, AV) and old != new:
        j = join_av(old, new)
        if j.is_realish:
            return real(-INF if j.lo < old.lo else j.lo, INF if j.hi > old.hi else j.hi, j.notes, j.field)
        return AV(j.field, -INF, INF, 0.0 if j.mlo < old.mlo else j.mlo, INF if j.mhi > old.mhi else j.mhi, j.notes)
    return new


# ====================================================================== convenience for checks
def standard_attr_oracle(real_attrs: set[str], opaque_attrs: set[str] = frozenset(), extra: Optional[dict] = None):
    """Oracle for attributes of opaque objects: names in `real_attrs` are real numbers / tuples of real
    numbers (an assumption the check must state with ctx.assume), `opaque_attrs` are non-numeric."""
    extra = extra or {}

    def oracle(base, attr, text):
        if attr in extra:
            return extra[attr]
        if attr in real_attrs:
            return real()
        if attr in opaque_attrs:
            return Opaque("object", text)
        return None

    return oracle


def return_paths(s: Summary):
    """[(label, where-node, value)] for every return statement of a summary."""
    out = []
    for i, (st, v) in enumerate(s.returns):
        out.append((f"return#{i + 1} `{norm_text(st.value)[:50] if st is not None and st.value is not None else 'None'}`",
                    st, v))
    return out
