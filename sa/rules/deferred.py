"""Run newly added rules before the established ones without letting a lost anchor of the new rules hide a verdict
of the old ones: an AnalysisError raised by `new` is kept, the established rules run, and the error is raised
afterwards.  The run is then decided by a violation if one was recorded (sa/check.py), otherwise it is an
ANALYSIS-ERROR.  Violations that are recorded known findings do not decide a run: when only those are present the
kept error must still end the run fail-closed, so they are withdrawn before it is raised (nothing is written for a
run that ends in ANALYSIS-ERROR)."""
from __future__ import annotations

from ..model import AnalysisError


def run(ctx, new, inner) -> None:
    pending = None
    try:
        new()
    except AnalysisError as e:
        pending = e
    inner(ctx)
    if pending is not None:
        from ..report import load_known

        try:
            known = {k for k, e in load_known().items() if e.get("status", "known") == "known"}  # still open
        except Exception:  # noqa: BLE001
            known = set()
        fresh = [i for i in ctx.instances if i.verdict == "violation" and i.key not in known]
        if not fresh:
            ctx.instances[:] = [i for i in ctx.instances if i.verdict != "violation"]
        raise pending
