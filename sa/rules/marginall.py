"""The padding margin for the periodic images of the atoms is an upper bound of the cutoff of EVERY species.

A finite-range projection integrator places, for every atom, a footprint whose radius is the radial cutoff of the
atom's species (`<integrator>.cutoff(symbol)`).  The builder makes the potential periodic by adding the periodic images
of the atoms that lie within a margin of the cell border (pad_atoms).  The potential is periodic — a whole-pixel
translation is a roll, the repeated cell equals the tiled unit — only if that margin is at least the cutoff of every
species that is present: an image of a wide atom that lies further out than the margin is dropped although its footprint
still reaches into the cell.  Decided by abstract interpretation of the value that reaches the margin argument, followed
through reaching definitions (path-sensitively: facts established by the tests on `<integrator>.finite` and by
emptiness tests of the species collection), conditional expressions, helper methods / properties / functions and
comprehensions.  Abstract values:

    NUM      a collection that holds the species of every atom (X.numbers, np.unique / set / sorted / ... of it);
             a subscript, a mask or a comprehension filter makes it a *selection*
    SP       the species of the current iteration of a loop / comprehension over a NUM;  SP1 one selected species
    CUT      <integrator>.cutoff(f(SP)) — the cutoff of the species of the current iteration
    COLL     a collection of cutoffs (comprehension / loop-built list / dict values / literal); `all` when it holds a
             CUT for every element of an unselected NUM
    SCALAR   a reduction of a COLL: max (max / np.max / sorted(...)[-1] / a running maximum in a loop), min, mean,
             one element, the cutoff of one selected species
    ZERO     the constant 0 (legitimate only where the integrator is known not to be finite, or no species exist)

The margin must be SCALAR(max) over a COLL(all).  Everything the interpreter cannot read is an AnalysisError.
"""
from __future__ import annotations

import ast
from dataclasses import dataclass
from typing import Optional

from ..cfg import DataFlow, forward_states, uses_of
from ..model import AnalysisError, ClassInfo, FuncInfo, bind_args, call_name, dotted, last_attr, norm_text, walk_no_nested
from . import pathfacts

NUMBER_ATTRS = {"numbers", "symbols"}
NUMBER_GETTERS = {"get_atomic_numbers", "get_chemical_symbols"}
CUTOFF_METHOD = "cutoff"
PASS_CALLS = {"tuple", "list", "set", "frozenset", "sorted", "reversed", "array", "asarray", "asanyarray", "sort",
              "unique", "flip", "fromiter", "ascontiguousarray"}
PASS_METHODS = {"tolist", "copy", "astype", "ravel", "flatten"}
MAX_CALLS = {"max", "amax", "nanmax"}
MIN_CALLS = {"min", "amin", "nanmin"}
MEAN_CALLS = {"mean", "median", "average", "nanmean"}
SCALAR_CASTS = {"float", "float32", "float64", "abs"}
SPECIES_CASTS = {"int", "str"}


@dataclass
class Val:
    kind: str  # zero const num sp sp1 cut coll dict empty scalar opaque self
    all: bool = True
    why: str = ""
    red: str = ""  # scalar: max min mean elem one scaled keys
    coll: Optional["Val"] = None
    site: Optional[tuple] = None  # (FuncInfo, ast node): where the collection of cutoffs is formed
    value: object = None
    desc: bool = False  # sorted in descending order


def _short(e: ast.AST, n: int = 60) -> str:
    return norm_text(e)[:n]


def _merge(a: frozenset, b: frozenset) -> Optional[frozenset]:
    for k, t in b:
        if (k, not t) in a:
            return None
    return a | b


class Engine:
    def __init__(self, repo):
        self.repo = repo
        self._ev: dict[int, "Ev"] = {}
        self.depth = 0

    def ev(self, f: FuncInfo) -> "Ev":
        if id(f) not in self._ev:
            self._ev[id(f)] = Ev(self, f)
        return self._ev[id(f)]


class Ev:
    def __init__(self, eng: Engine, f: FuncInfo):
        self.eng, self.f = eng, f
        self.df = DataFlow(f.node)
        self.cfg = self.df.cfg
        self.busy: set = set()
        self._states: dict = {}
        self._stmt_of: dict[int, ast.stmt] = {}

    # ------------------------------------------------------------------ small helpers
    def err(self, what: str) -> AnalysisError:
        return AnalysisError(f"{self.f.qualname}: {what}")

    def _loop_stmt_of(self, node_idx: int) -> Optional[ast.For]:
        loops = self.cfg.nodes[node_idx].loops
        if not loops:
            return None
        st = self.cfg.nodes[loops[-1]].ast
        return st if isinstance(st, ast.For) else None

    def _guards_in(self, container: ast.AST, stmt: ast.AST) -> Optional[list]:
        """[(If, arm)] between `container` (a loop / the function) and `stmt`; None when stmt is not inside."""
        def rec(body, stack):
            for st in body:
                if st is stmt:
                    return stack
                if isinstance(st, ast.If):
                    for arm, blk in ((True, st.body), (False, st.orelse)):
                        r = rec(blk, stack + [(st, arm)])
                        if r is not None:
                            return r
                elif isinstance(st, (ast.With, ast.Try)):
                    for fld in ("body", "orelse", "finalbody"):
                        r = rec(getattr(st, fld, []) or [], stack)
                        if r is not None:
                            return r
                    for h in getattr(st, "handlers", []):
                        r = rec(h.body, stack)
                        if r is not None:
                            return r
                elif isinstance(st, (ast.For, ast.While)) and st is not container:
                    r = rec(st.body, stack + [(st, True)])
                    if r is not None:
                        return r
            return None

        return rec(container.body, [])

    def _loop_filter(self, loop: ast.For, stmt: ast.AST, allow: Optional[ast.If] = None) -> str:
        """'' when `stmt` is executed for every iteration of `loop`; otherwise the reason it is not."""
        g = self._guards_in(loop, stmt)
        if g is None:
            raise self.err("statement not found inside its loop")
        g = [x for x in g if x[0] is not allow]
        if g:
            t = g[0][0]
            return f"only under `{_short(t.test if isinstance(t, ast.If) else t.iter, 50)}`"
        for n in walk_no_nested(loop):
            if isinstance(n, (ast.Break, ast.Continue)):
                return f"the loop leaves iterations early (`{type(n).__name__.lower()}`)"
        return ""

    # ------------------------------------------------------------------ facts
    def factkey(self, atom: ast.AST, truth: bool, at: int, depth: int = 0):
        """('FINITE', t): the integrator has a finite range (t) / has not;  ('EMPTY', t): no species present."""
        if isinstance(atom, ast.Name) and depth < 4:
            d = self.df.single_def(at, atom.id)
            if d is not None and d.kind == "assign" and d.value is not None and not isinstance(d.value, ast.Call):
                got = pathfacts.atoms_of(d.value, truth)
                if len(got) == 1:
                    r = self.factkey(got[0][0], got[0][1], d.node, depth + 1)
                    if r is not None:
                        return r
        if isinstance(atom, ast.Attribute) and atom.attr == "finite":
            return ("FINITE", truth)
        subj, empty_when_true = None, None
        if isinstance(atom, ast.Compare) and len(atom.ops) == 1:
            l, op, r = atom.left, atom.ops[0], atom.comparators[0]
            ln = self._len_subject(l)
            rn = self._len_subject(r)
            if ln is not None and isinstance(r, ast.Constant) and isinstance(r.value, (int, float)):
                c = r.value
                if isinstance(op, ast.Eq) and c == 0:
                    subj, empty_when_true = ln, True
                elif isinstance(op, ast.NotEq) and c == 0:
                    subj, empty_when_true = ln, False
                elif isinstance(op, ast.Lt) and c == 1 or isinstance(op, ast.LtE) and c == 0:
                    subj, empty_when_true = ln, True
            elif rn is not None and isinstance(l, ast.Constant) and isinstance(l.value, (int, float)):
                c = l.value
                if isinstance(op, ast.Lt) and c == 0 or isinstance(op, ast.LtE) and c == 1:
                    subj, empty_when_true = rn, False
        else:
            ln = self._len_subject(atom)
            if ln is not None:
                subj, empty_when_true = ln, False
            elif isinstance(atom, (ast.Name, ast.Attribute)):
                subj, empty_when_true = atom, False
        if subj is None:
            return None
        try:
            v = self.ev(subj, at, {})
        except AnalysisError:
            return None
        if v.kind in ("num", "coll", "dict", "empty"):
            return ("EMPTY", truth == empty_when_true)
        return None

    @staticmethod
    def _len_subject(e: ast.AST) -> Optional[ast.AST]:
        if isinstance(e, ast.Call) and call_name(e) == "len" and len(e.args) == 1:
            return e.args[0]
        if isinstance(e, ast.Attribute) and e.attr == "size":
            return e.value
        return None

    def facts_of(self, test: ast.AST, truth: bool, at: int) -> frozenset:
        out = set()
        for a, t in pathfacts.atoms_of(test, truth):
            k = self.factkey(a, t, at)
            if k is not None:
                out.add(k)
        return frozenset(out)

    def necessary(self, at: int) -> frozenset:
        out = set()
        for a, t in pathfacts.necessary_facts(self.cfg, at):
            # the fact is read at the test that established it; a name is resolved where the sink stands
            k = self.factkey(a, t, at)
            if k is not None:
                out.add(k)
        return frozenset(out)

    # ------------------------------------------------------------------ path-sensitive reaching definitions
    def _running_defs(self, var: str) -> set[int]:
        """Definitions `m = max(m, X)` / `if m < X: m = X` of `var` inside a loop."""
        out = set()
        for i, d in enumerate(self.df.defs):
            if d.var != var or d.kind != "assign" or d.value is None or not self.cfg.nodes[d.node].loops:
                continue
            if var in uses_of(d.value, self.df.selfname) or self._maxguard(d) is not None:
                out.add(i)
        return out

    def _maxguard(self, d) -> Optional[ast.If]:
        """`if m < X: m = X` (inside a loop): the guard that makes the assignment a running maximum."""
        loop = self._loop_stmt_of(d.node)
        if loop is None:
            return None
        st = self.cfg.nodes[d.node].ast
        g = self._guards_in(loop, st)
        if not g:
            return None
        t, arm = g[-1]
        if not (isinstance(t, ast.If) and arm and isinstance(t.test, ast.Compare) and len(t.test.ops) == 1
                and isinstance(t.test.ops[0], (ast.Lt, ast.LtE))):
            return None
        lo, hi = t.test.left, t.test.comparators[0]
        if isinstance(lo, ast.Name) and lo.id == d.var and norm_text(hi) == norm_text(d.value):
            return t
        return None

    def states(self, var: str) -> dict:
        if var in self._states:
            return self._states[var]  # None while it is being computed
        self._states[var] = None
        df, cfg = self.df, self.cfg
        defs_at: dict[int, int] = {}
        for ni, dl in df.node_defs.items():
            for di in dl:
                if df.defs[di].var == var:
                    defs_at[ni] = di
        running = self._running_defs(var)
        run_loops = {h for di in running for h in cfg.nodes[df.defs[di].node].loops}
        bodies = {h: cfg.loop_body_nodes(h) for h in run_loops}

        def transfer(node, st, label, succ):
            cur, facts = st
            if node.idx in defs_at:
                cur = defs_at[node.idx]
            if node.kind == "loop" and label == "F" and node.idx in run_loops:
                # the loop that accumulates the running maximum runs zero times only when there is no species
                if cur is None or df.defs[cur].node not in bodies[node.idx]:
                    return None
            if node.kind == "test" and label in ("T", "F") and isinstance(node.ast, ast.If):
                for a, t in pathfacts.atoms_of(node.ast.test, label == "T"):
                    k = self.factkey(a, t, node.idx)
                    if k is None:
                        continue
                    if (k[0], not k[1]) in facts:
                        return None
                    facts = facts | {k}
            return (cur, facts)

        self._states[var] = forward_states(cfg, (None, frozenset()), transfer, max_states=256)
        return self._states[var]

    # ------------------------------------------------------------------ alternatives of a value
    def alts(self, e: ast.AST, at: int, env: dict) -> list:
        """[(facts, Val)]: the abstract values `e` can take at node `at`, each with the facts of its path."""
        if isinstance(e, ast.IfExp):
            pol = None
            got = pathfacts.atoms_of(e.test, True)
            if len(got) == 1:
                k = self.factkey(got[0][0], got[0][1], at)
                if k is not None and k[0] == "EMPTY":
                    pol = k[1]
            if pol is not None:
                # without any species every margin is an upper bound: the arm taken when species exist decides
                return self.alts(e.orelse if pol else e.body, at, env)
            out = []
            for arm, truth in ((e.body, True), (e.orelse, False)):
                fs = self.facts_of(e.test, truth, at)
                for f2, v in self.alts(arm, at, env):
                    m = _merge(fs, f2)
                    if m is not None:
                        out.append((m, v))
            return out
        if isinstance(e, ast.Name) and e.id not in env:
            return self.name_alts(e.id, at, env)
        callee = self._callee(e)
        if callee is not None:
            return self.call_alts(callee, e)
        return [(frozenset(), self.ev1(e, at, env))]

    def ev(self, e: ast.AST, at: int, env: dict) -> Val:
        return self.join(self.alts(e, at, env), e)

    def join(self, alts: list, e: ast.AST) -> Val:
        if not alts:
            raise self.err(f"`{_short(e)}` has no feasible definition")
        if len(alts) == 1:
            return alts[0][1]
        vals = [v for _, v in alts]
        if all(v.kind in ("coll", "empty") for v in vals):
            colls = [v for v in vals if v.kind == "coll"]
            for fs, v in alts:
                if v.kind == "empty" and colls and ("EMPTY", True) not in fs:
                    raise self.err(f"`{_short(e)}` may be the empty collection on a path that is not guarded by the "
                                   "absence of species")
            if not colls:
                return vals[0]
            bad = [v for v in colls if not v.all]
            return bad[0] if bad else colls[0]
        sig = {(v.kind, v.all, v.red, v.coll.all if v.coll else None) for v in vals}
        if len(sig) == 1:
            return vals[0]
        raise self.err(f"`{_short(e)}` takes different kinds of values on different paths")

    def name_alts(self, var: str, at: int, env: dict) -> list:
        rd = self.df.reaching(at, var)
        if not rd:
            return [(frozenset(), Val("opaque", why=var))]
        if any(d.kind == "call" for d in rd):
            return [(frozenset(), self._appended(var, rd))]
        out = []
        seen = set()
        states = self.states(var)
        if states is None:
            # asked while the path analysis of `var` itself is running (a test on `var`): flow-insensitive answer
            for d in rd:
                out += self.def_alts(d, env)
            return out
        for cur, facts in sorted(states[at], key=lambda s: (-1 if s[0] is None else s[0], sorted(s[1]))):
            if cur is None:
                raise self.err(f"`{var}` may be read before it is assigned")
            d = self.df.defs[cur]
            for f2, v in self.def_alts(d, env):
                m = _merge(facts, f2)
                if m is None or (cur, m, id(v)) in seen:
                    continue
                seen.add((cur, m, id(v)))
                out.append((m, v))
        return out

    def def_alts(self, d, env: dict) -> list:
        key = (d.node, d.var)
        if key in self.busy:
            return [(frozenset(), Val("self"))]
        if d.kind == "param":
            return [(frozenset(), Val("opaque", why=f"parameter {d.var}"))]
        if d.kind == "import" or d.kind == "def":
            return [(frozenset(), Val("opaque", why=d.var))]
        self.busy.add(key)
        try:
            if d.kind == "for":
                loop = self.cfg.nodes[d.node].ast
                if not (isinstance(loop, ast.For) and isinstance(loop.target, ast.Name)):
                    raise self.err(f"loop variable `{d.var}` is unpacked from `{_short(loop.iter)}`")
                it = self.ev(loop.iter, d.node, env)
                return [(frozenset(), self._element_of(it, loop.iter, loop=loop))]
            if d.kind in ("assign", "walrus") and d.value is not None and d.strong:
                st = self.cfg.nodes[d.node].ast
                if d.kind == "assign" and isinstance(st, ast.Assign) and isinstance(st.targets[0], (ast.Tuple, ast.List)) \
                        and not isinstance(st.value, (ast.Tuple, ast.List)):
                    pos = [i for i, t in enumerate(st.targets[0].elts) if isinstance(t, ast.Name) and t.id == d.var]
                    if isinstance(st.value, ast.Call) and last_attr(st.value) == "unique" and pos == [0] and st.value.args:
                        v = self.ev(st.value.args[0], d.node, env)
                        if v.kind == "num":
                            return [(frozenset(), v)]
                    raise self.err(f"`{d.var}` is unpacked from `{_short(st.value)}`")
                res = self.alts(d.value, d.node, env)
                loop = self._loop_stmt_of(d.node)
                if loop is not None:
                    res = [(fs, self._in_loop(v, d, loop)) for fs, v in res]
                return res
            raise self.err(f"`{d.var}` has a {d.kind} definition the margin analysis does not model")
        finally:
            self.busy.discard(key)

    def _in_loop(self, v: Val, d, loop: ast.For) -> Val:
        """A value assigned inside a loop over the species, seen from after the loop."""
        st = self.cfg.nodes[d.node].ast
        guard = self._maxguard(d)
        if guard is not None and v.kind == "cut":
            flt = self._loop_filter(loop, st, allow=guard)
            coll = Val("coll", all=v.all and not flt, why=v.why or flt, site=(self.f, st))
            return Val("scalar", red="max", coll=coll)
        if v.kind == "scalar" and v.red == "max" and v.coll is not None and v.coll.value == "running":
            flt = self._loop_filter(loop, st)
            if flt and v.coll.all:
                v.coll.all, v.coll.why = False, flt
            return v
        return v

    def _appended(self, var: str, rd: list) -> Val:
        """cutoffs = []; for number in NUM: cutoffs.append(CUT(number))"""
        strong = [d for d in rd if d.strong]
        calls = [d for d in rd if d.kind == "call"]
        if len(strong) != 1 or len(strong) + len(calls) != len(rd) or strong[0].kind != "assign":
            raise self.err(f"`{var}` is built by in-place updates the margin analysis does not model")
        first = self.ev(strong[0].value, strong[0].node, {})
        if first.kind != "empty":
            raise self.err(f"`{var}` is updated in place after `{_short(strong[0].value)}`")
        all_, why, site = True, "", None
        for d in calls:
            c = d.value
            if not (isinstance(c, ast.Call) and last_attr(c) == "append" and len(c.args) == 1):
                raise self.err(f"`{var}` is updated by `{_short(c)}`")
            loop = self._loop_stmt_of(d.node)
            st = self.cfg.nodes[d.node].ast
            v = self.ev(c.args[0], d.node, {})
            site = (self.f, st)
            if loop is None or v.kind != "cut":
                one = self._as_one(v, c.args[0])
                all_, why = False, why or one.why
                continue
            flt = self._loop_filter(loop, st)
            if not v.all or flt:
                all_, why = False, why or v.why or f"appended {flt}"
        return Val("coll", all=all_, why=why, site=site)

    def _as_one(self, v: Val, e: ast.AST) -> Val:
        if v.kind == "scalar":
            return v
        if v.kind == "cut":
            return Val("scalar", red="one", why="the cutoff of the species of one loop iteration")
        raise self.err(f"`{_short(e)}` is not a cutoff")

    def _element_of(self, it: Val, src: ast.AST, loop=None) -> Val:
        if it.kind == "num":
            return Val("sp", all=it.all, why=it.why)
        if it.kind == "dict":
            return Val("sp", all=it.all, why=it.why)
        if it.kind == "coll":
            return Val("cut", all=it.all, why=it.why, site=it.site)
        if it.kind == "empty":
            return Val("sp", all=False, why="iterates an empty collection")
        raise self.err(f"iteration over `{_short(src)}`, which is neither the species nor their cutoffs")

    # ------------------------------------------------------------------ calls of helpers
    def _callee(self, e: ast.AST):
        """FuncInfos a helper call / property read `self.m()` / `self.m` / `f(...)` may run, or None."""
        sn = self.df.selfname
        cls = self.f.cls
        name, is_call = None, False
        if isinstance(e, ast.Call) and isinstance(e.func, ast.Attribute) and isinstance(e.func.value, ast.Name) \
                and e.func.value.id == sn and cls is not None:
            name, is_call = e.func.attr, True
        elif isinstance(e, ast.Attribute) and isinstance(e.value, ast.Name) and e.value.id == sn and cls is not None:
            name = e.attr
        if name is not None:
            m = cls.find_method(name)
            if m is None or (m.is_property != (not is_call)):
                return None
            out = [m]
            for sub in self.eng.repo.subclasses(cls):
                o = sub.own_method(name, "getter")
                if o is not None and o not in out:
                    out.append(o)
            return out
        if isinstance(e, ast.Call) and isinstance(e.func, ast.Name):
            t = self.eng.repo.resolve_name(self.f.module, e.func.id)
            if isinstance(t, FuncInfo) and t.module is self.f.module:
                return [t]
        return None

    def call_alts(self, callees: list, call: ast.AST) -> list:
        if self.eng.depth > 5:
            raise self.err(f"helper calls nested too deeply at `{_short(call)}`")
        self.eng.depth += 1
        try:
            out = []
            for g in callees:
                if g.is_abstract:
                    continue
                ev = self.eng.ev(g)
                rets = [n for n in walk_no_nested(g.node) if isinstance(n, ast.Return)]
                if any(isinstance(n, (ast.Yield, ast.YieldFrom)) for n in walk_no_nested(g.node)) or not rets:
                    raise self.err(f"`{_short(call)}`: {g.qualname} does not return a value")
                for r in rets:
                    if r.value is None:
                        raise self.err(f"{g.qualname} returns nothing on one path")
                    at = ev.cfg.node_of(r).idx
                    nec = ev.necessary(at)
                    for fs, v in ev.alts(r.value, at, {}):
                        m = _merge(nec, fs)
                        if m is not None:
                            out.append((m, v))
            if not out:
                raise self.err(f"`{_short(call)}` resolves to no concrete helper")
            return out
        finally:
            self.eng.depth -= 1

    # ------------------------------------------------------------------ expressions
    def _atoms_subset(self, e: ast.AST, at: int, depth: int = 0) -> str:
        """'' when `e` denotes all the atoms; the reason when it is a selection of them."""
        if depth > 8:
            return ""
        if isinstance(e, ast.Subscript):
            return f"`{_short(e, 50)}` selects some of the atoms"
        if isinstance(e, ast.Attribute):
            return self._atoms_subset(e.value, at, depth + 1)
        if isinstance(e, ast.Call):
            for a in list(e.args[:1]) + ([e.func.value] if isinstance(e.func, ast.Attribute) else []):
                r = self._atoms_subset(a, at, depth + 1)
                if r:
                    return r
            return ""
        if isinstance(e, ast.Name):
            for d in self.df.reaching(at, e.id):
                if d.kind in ("assign", "walrus") and d.value is not None and (d.node, d.var) not in self.busy:
                    self.busy.add((d.node, d.var))
                    try:
                        r = self._atoms_subset(d.value, d.node, depth + 1)
                    finally:
                        self.busy.discard((d.node, d.var))
                    if r:
                        return r
        return ""

    def _reduce(self, how: str, args: list, call: ast.Call, at: int, env: dict) -> Val:
        if any(k.arg == "key" for k in call.keywords):
            how = "elem"
        if len(args) == 1:
            v = self.ev(args[0], at, env)
            if v.kind == "coll":
                return Val("scalar", red=how, coll=v, why=f"`{_short(call, 50)}`")
            if v.kind == "num":
                return Val("sp1", why=f"the species `{_short(call, 50)}`")
            if v.kind == "dict":
                return Val("scalar", red="keys", coll=v, why=f"`{_short(call, 50)}` reduces the keys, not the cutoffs")
            if v.kind == "empty":
                return Val("zero")
            if v.kind == "scalar":
                return v
            raise self.err(f"`{_short(call)}` reduces something that is not a collection of cutoffs")
        flat = []
        for a in args:
            flat += [v for _, v in self.alts(a, at, env)]
        if how != "max":
            raise self.err(f"`{_short(call)}`: a {how} of several scalars is not modelled")
        running = any(v.kind == "self" for v in flat)
        rest = [v for v in flat if v.kind not in ("self", "zero", "const")]
        cuts = [v for v in rest if v.kind == "cut"]
        tops = [v for v in rest if v.kind == "scalar" and v.red == "max"]
        if cuts and len(cuts) == len(rest) and running:
            st = self.cfg.nodes[at].ast
            coll = Val("coll", all=all(c.all for c in cuts), why=next((c.why for c in cuts if c.why), ""),
                       site=(self.f, st), value="running")
            return Val("scalar", red="max", coll=coll)
        if tops:
            good = [v for v in tops if v.coll is not None and v.coll.all]
            return good[0] if good else tops[0]
        if rest and all(v.kind == "scalar" for v in rest):
            return rest[0]
        if cuts and not running:
            return Val("scalar", red="one", why="the cutoff of the species of one loop iteration")
        raise self.err(f"cannot read `{_short(call)}`")

    def ev1(self, e: ast.AST, at: int, env: dict) -> Val:
        if isinstance(e, ast.Name):
            if e.id in env:
                return env[e.id]
            return self.join(self.name_alts(e.id, at, env), e)
        if isinstance(e, ast.Constant):
            if isinstance(e.value, (int, float)) and not isinstance(e.value, bool):
                return Val("zero") if e.value == 0 else Val("const", value=e.value)
            if isinstance(e.value, str):
                return Val("sp1", why=f"the fixed species {e.value!r}")
            raise self.err(f"constant `{e.value!r}` where a margin / cutoff is expected")
        if isinstance(e, ast.NamedExpr):
            return self.ev(e.value, at, env)
        if isinstance(e, (ast.Tuple, ast.List, ast.Set)):
            if not e.elts:
                return Val("empty")
            pairs = []
            for x in e.elts:
                vals = [v for _, v in self.alts(x, at, env)]
                # a zero next to cutoffs does not lower their maximum (the start value of an accumulation)
                keep = [v for v in vals if v.kind not in ("zero", "const")] or vals[:1]
                pairs += [(v, x) for v in keep]
            els = [v for v, _ in pairs]
            if all(v.kind in ("sp", "sp1") for v in els):
                return Val("num", all=False, why=f"`{_short(e, 50)}` lists selected species")
            if all(v.kind in ("zero", "const") for v in els):
                raise self.err(f"`{_short(e)}` is a collection of constants")
            ones = []
            for v, x in pairs:
                if v.kind == "scalar" and v.red == "max" and v.coll is not None and v.coll.all:
                    return Val("coll", all=True, site=v.coll.site)
                ones.append(self._as_one(v, x))
            why = next((o.why for o in ones if o.why), "")
            return Val("coll", all=False, site=(self.f, e),
                       why=f"`{_short(e, 70)}` holds {why or 'the cutoffs of a fixed selection of species'}")
        if isinstance(e, ast.Dict):
            if not e.keys:
                return Val("empty")
            raise self.err(f"dict literal `{_short(e)}`")
        if isinstance(e, (ast.ListComp, ast.SetComp, ast.GeneratorExp, ast.DictComp)):
            return self._comprehension(e, at, env)
        if isinstance(e, ast.Attribute):
            if e.attr in NUMBER_ATTRS:
                sub = self._atoms_subset(e.value, at)
                return Val("num", all=not sub, why=sub)
            callee = self._callee(e)
            if callee is not None:
                return self.join(self.call_alts(callee, e), e)
            if e.attr == "T":
                return self.ev(e.value, at, env)
            return Val("opaque", why=_short(e))
        if isinstance(e, ast.Subscript):
            return self._subscript(e, at, env)
        if isinstance(e, ast.BinOp):
            return self._binop(e, at, env)
        if isinstance(e, ast.IfExp):
            return self.join(self.alts(e, at, env), e)
        if isinstance(e, (ast.Compare, ast.BoolOp, ast.UnaryOp)):
            return Val("opaque", why=_short(e))
        if isinstance(e, ast.Call):
            return self._call(e, at, env)
        raise self.err(f"cannot read `{_short(e)}`")

    def _comprehension(self, e, at: int, env: dict) -> Val:
        if len(e.generators) != 1 or not isinstance(e.generators[0].target, ast.Name):
            raise self.err(f"comprehension `{_short(e)}` has several generators / an unpacked target")
        g = e.generators[0]
        it = self.ev(g.iter, at, env)
        var = self._element_of(it, g.iter)
        env2 = dict(env)
        env2[g.target.id] = var
        flt = f"filtered by `if {_short(g.ifs[0], 40)}`" if g.ifs else ""
        if isinstance(e, ast.DictComp):
            k, v = self.ev(e.key, at, env2), self.ev(e.value, at, env2)
            if k.kind == "sp" and v.kind == "cut":
                return Val("dict", all=v.all and not flt, why=v.why or flt, site=(self.f, e))
            raise self.err(f"dict comprehension `{_short(e)}` does not map species to cutoffs")
        el = self.ev(e.elt, at, env2)
        if el.kind == "cut":
            return Val("coll", all=el.all and not flt, why=el.why or flt, site=el.site if it.kind == "coll" and not flt
                       and el.site else (self.f, e))
        if el.kind == "sp":
            return Val("num", all=el.all and not flt, why=el.why or flt)
        if el.kind == "scalar":
            return Val("coll", all=False, site=(self.f, e),
                       why=f"every element of `{_short(e, 60)}` is {el.why or 'the same cutoff'}")
        if el.kind == "sp1":
            return Val("num", all=False, why=f"every element of `{_short(e, 60)}` is {el.why}")
        raise self.err(f"comprehension `{_short(e)}` yields neither species nor cutoffs")

    def _subscript(self, e: ast.Subscript, at: int, env: dict) -> Val:
        s = e.slice
        full = isinstance(s, ast.Slice) and s.lower is None and s.upper is None and (
            s.step is None or (isinstance(s.step, ast.UnaryOp) and isinstance(s.step.op, ast.USub)
                               and isinstance(s.step.operand, ast.Constant) and s.step.operand.value == 1)
            or (isinstance(s.step, ast.Constant) and s.step.value in (1, -1)))
        base = self.ev(e.value, at, env)
        if base.kind in ("opaque", "const"):
            # a table indexed by the species (chemical_symbols[number], atomic_numbers[symbol])
            if isinstance(s, ast.Slice):
                return Val("opaque", why=_short(e))
            i = self.ev(s, at, env)
            if i.kind in ("sp", "sp1"):
                return i
            return Val("opaque", why=_short(e))
        if full:
            if base.kind in ("coll", "num") and isinstance(s.step, (ast.UnaryOp, ast.Constant)) and norm_text(s.step) == "-1":
                base = Val(base.kind, all=base.all, why=base.why, site=base.site, value=base.value, desc=not base.desc)
            return base
        if base.kind == "num":
            if isinstance(s, ast.Slice):
                return Val("num", all=False, why=f"only `{_short(e, 50)}` of the species")
            if isinstance(s, (ast.Compare, ast.BoolOp)) or (isinstance(s, ast.Name) and self._is_mask(s, at, env)):
                return Val("num", all=False, why=f"only the species selected by `{_short(e, 50)}`")
            return Val("sp1", why=f"the one species `{_short(e, 50)}`")
        if base.kind == "coll":
            if isinstance(s, ast.Slice):
                return Val("coll", all=False, why=f"only `{_short(e, 50)}` of the cutoffs", site=base.site)
            if isinstance(s, (ast.Compare, ast.BoolOp)):
                return Val("coll", all=False, why=f"only the cutoffs selected by `{_short(e, 50)}`", site=base.site)
            k = None
            if isinstance(s, ast.Constant) and isinstance(s.value, int):
                k = s.value
            elif isinstance(s, ast.UnaryOp) and isinstance(s.op, ast.USub) and isinstance(s.operand, ast.Constant):
                k = -s.operand.value
            if base.value == "sorted" and k in (0, -1):
                top = (k == -1) != base.desc
                return Val("scalar", red="max" if top else "min", coll=base, why=f"`{_short(e, 50)}`")
            return Val("scalar", red="elem", coll=base, why=f"`{_short(e, 50)}`")
        if base.kind == "dict":
            return Val("scalar", red="elem", coll=base, why=f"`{_short(e, 50)}`")
        if base.kind == "empty":
            return base
        raise self.err(f"cannot read the subscript `{_short(e)}`")

    def _is_mask(self, s: ast.Name, at: int, env: dict) -> bool:
        d = self.df.single_def(at, s.id)
        return d is not None and d.value is not None and isinstance(d.value, (ast.Compare, ast.BoolOp))

    def _binop(self, e: ast.BinOp, at: int, env: dict) -> Val:
        l, r = self.ev(e.left, at, env), self.ev(e.right, at, env)
        if isinstance(e.op, ast.Add) and {l.kind, r.kind} <= {"coll", "empty"}:
            colls = [v for v in (l, r) if v.kind == "coll"]
            if not colls:
                return l
            good = [v for v in colls if v.all]
            return good[0] if good else colls[0]
        for s, c, left in ((l, r, True), (r, l, False)):
            if s.kind == "scalar" and c.kind in ("const", "zero"):
                cv = 0 if c.kind == "zero" else c.value
                if isinstance(e.op, ast.Add) and cv >= 0:
                    return s
                if isinstance(e.op, ast.Sub) and left and cv <= 0:
                    return s
                if isinstance(e.op, ast.Mult) and cv >= 1:
                    return s
                if isinstance(e.op, ast.Div) and left and 0 < cv <= 1:
                    return s
                if s.red == "max" and (isinstance(e.op, ast.Mult) and 0 <= cv < 1 or isinstance(e.op, ast.Div) and left
                                       and cv > 1 or isinstance(e.op, ast.Sub) and left and cv > 0):
                    return Val("scalar", red="scaled", coll=s.coll, why=f"`{_short(e, 50)}` is smaller than the maximum")
        if l.kind in ("opaque", "const", "zero") and r.kind in ("opaque", "const", "zero"):
            return Val("opaque", why=_short(e))
        raise self.err(f"cannot read the arithmetic `{_short(e)}`")

    def _call(self, e: ast.Call, at: int, env: dict) -> Val:
        callee = self._callee(e)
        if callee is not None:
            return self.join(self.call_alts(callee, e), e)
        la = last_attr(e)
        cn = call_name(e)
        fn = e.func
        is_method = isinstance(fn, ast.Attribute) and dotted(fn.value) not in ("np", "xp", "numpy", "cp", "cupy", "math",
                                                                                "builtins")
        if la == CUTOFF_METHOD and isinstance(fn, ast.Attribute):
            args = list(e.args) + [k.value for k in e.keywords if k.arg]
            if len(args) != 1:
                raise self.err(f"`{_short(e)}`: cutoff called with {len(args)} arguments")
            a = self.ev(args[0], at, env)
            if a.kind == "sp":
                return Val("cut", all=a.all, why=a.why)
            if a.kind == "sp1":
                return Val("scalar", red="one", why=f"the cutoff of {a.why}")
            raise self.err(f"`{_short(e)}`: the species the cutoff is computed for is not understood")
        if la in NUMBER_GETTERS and isinstance(fn, ast.Attribute):
            sub = self._atoms_subset(fn.value, at)
            return Val("num", all=not sub, why=sub)
        if is_method and la in ("values", "keys") and not e.args:
            b = self.ev(fn.value, at, env)
            if b.kind == "dict":
                return Val("coll" if la == "values" else "num", all=b.all, why=b.why, site=b.site)
            if b.kind == "empty":
                return b
        if is_method and la in MAX_CALLS | MIN_CALLS | MEAN_CALLS and not e.args:
            return self._reduce("max" if la in MAX_CALLS else "min" if la in MIN_CALLS else "mean", [fn.value], e, at, env)
        if is_method and la in PASS_METHODS:
            return self.ev(fn.value, at, env)
        if not is_method and la in MAX_CALLS | MIN_CALLS | MEAN_CALLS and e.args:
            return self._reduce("max" if la in MAX_CALLS else "min" if la in MIN_CALLS else "mean", list(e.args), e, at, env)
        if not is_method and la in PASS_CALLS and e.args:
            if la == "unique" and any((k.arg or "").startswith("return_") for k in e.keywords):
                raise self.err(f"`{_short(e)}` returns several arrays")
            v = self.ev(e.args[0], at, env)
            if v.kind in ("num", "coll", "empty", "dict", "opaque"):
                if v.kind == "dict":
                    return Val("num", all=v.all, why=v.why)
                if la in ("sorted", "sort") and v.kind == "coll":
                    desc = False
                    for k in e.keywords:
                        if k.arg == "reverse":
                            if not isinstance(k.value, ast.Constant):
                                raise self.err(f"`{_short(e)}`: sort order is not a constant")
                            desc = bool(k.value.value)
                        elif k.arg == "key":
                            raise self.err(f"`{_short(e)}`: sorted by a key")
                    return Val("coll", all=v.all, why=v.why, site=v.site, value="sorted", desc=desc)
                if la in ("reversed", "flip") and v.kind == "coll" and v.value == "sorted":
                    return Val("coll", all=v.all, why=v.why, site=v.site, value="sorted", desc=not v.desc)
                if v.kind == "coll" and v.value == "sorted" and la in ("set", "frozenset", "unique"):
                    return Val("coll", all=v.all, why=v.why, site=v.site)
                return v
            raise self.err(f"`{_short(e)}` wraps something that is neither species nor cutoffs")
        if not is_method and cn in SCALAR_CASTS | {"np." + x for x in SCALAR_CASTS} and len(e.args) == 1:
            v = self.ev(e.args[0], at, env)
            if v.kind in ("scalar", "zero", "const", "cut"):
                return v
        if not is_method and cn in SPECIES_CASTS and len(e.args) == 1:
            v = self.ev(e.args[0], at, env)
            if v.kind in ("sp", "sp1", "opaque"):
                return v
        if cn == "filter" and len(e.args) == 2:
            v = self.ev(e.args[1], at, env)
            if v.kind in ("num", "coll"):
                return Val(v.kind, all=False, why=f"filtered by `{_short(e, 50)}`", site=v.site)
        if cn == "map" and len(e.args) == 2:
            v = self.ev(e.args[1], at, env)
            f0 = e.args[0]
            var = self._element_of(v, e.args[1])
            if isinstance(f0, ast.Lambda) and len(f0.args.args) == 1:
                env2 = dict(env)
                env2[f0.args.args[0].arg] = var
                el = self.ev(f0.body, at, env2)
            elif isinstance(f0, ast.Attribute) and f0.attr == CUTOFF_METHOD and var.kind == "sp":
                el = Val("cut", all=var.all, why=var.why)
            else:
                raise self.err(f"`{_short(e)}`: mapped function not understood")
            if el.kind == "cut":
                return Val("coll", all=el.all, why=el.why, site=(self.f, e))
            if el.kind == "sp":
                return Val("num", all=el.all, why=el.why)
        if cn == "len":
            return Val("opaque", why=_short(e))
        if cn in ("dict",) and not e.args and not e.keywords:
            return Val("empty")
        raise self.err(f"cannot read the call `{_short(e)}`")


# ---------------------------------------------------------------------------------------------- the rule
@dataclass
class Sink:
    f: FuncInfo
    call: ast.Call
    what: str  # label of the consumer
    expr: ast.AST
    periodic_images: bool  # the in-plane periodic images depend on it (necessary for the periodicity of the potential)


def _stmt_of(f: FuncInfo, expr: ast.AST) -> ast.stmt:
    best = None
    for st in ast.walk(f.node):
        if isinstance(st, ast.stmt) and not isinstance(st, (ast.FunctionDef, ast.ClassDef, ast.For, ast.While, ast.With,
                                                            ast.Try, ast.If)):
            if any(n is expr for n in ast.walk(st)):
                best = st
    if best is None:
        for st in ast.walk(f.node):
            if isinstance(st, (ast.If, ast.While)) and any(n is expr for n in ast.walk(st.test)):
                best = st
    if best is None:
        raise AnalysisError(f"{f.qualname}: call `{norm_text(expr)[:50]}` is not inside a simple statement")
    return best


def find_sinks(repo, funcs, pad: FuncInfo, cut: Optional[FuncInfo], sliced: Optional[ClassInfo]) -> list[Sink]:
    out = []
    for f in funcs:
        for c in walk_no_nested(f.node):
            if not isinstance(c, ast.Call):
                continue
            d = dotted(c.func)
            if d is None:
                continue
            t = repo.resolve_name(f.module, d)
            if t is pad:
                b = bind_args(c, pad)
                if "margins" not in b:
                    raise AnalysisError(f"{f.qualname}: `{norm_text(c)[:60]}` passes no margin")
                dirs = b.get("directions")
                inplane = True
                label = "pad_atoms"
                if dirs is not None:
                    if isinstance(dirs, ast.Constant) and isinstance(dirs.value, str):
                        inplane = bool(set(dirs.value) & {"x", "y"})
                        label = f"pad_atoms[{dirs.value}]"
                    else:
                        label = "pad_atoms[computed directions]"
                out.append(Sink(f, c, label, b["margins"], inplane))
            elif cut is not None and t is cut:
                b = bind_args(c, cut)
                if "margin" in b:
                    out.append(Sink(f, c, "cut_cell", b["margin"], False))
            elif sliced is not None and t is sliced:
                init = sliced.find_method("__init__")
                b = bind_args(c, init, skip_self=True) if init is not None else {}
                if "z_padding" in b:
                    out.append(Sink(f, c, f"{sliced.name} z_padding", b["z_padding"], False))
    return out


def check(ctx, rule: str, funcs, pad: FuncInfo, cut: Optional[FuncInfo] = None, sliced: Optional[ClassInfo] = None) -> int:
    """Returns the number of margins that decide the in-plane periodic images."""
    repo = ctx.repo
    eng = Engine(repo)
    sinks = find_sinks(repo, funcs, pad, cut, sliced)
    colls: dict[int, tuple] = {}  # id(site node) -> (Val, necessary?)
    n_inplane = 0
    counts: dict[str, int] = {}
    for s in sinks:
        ev = eng.ev(s.f)
        at = ev.cfg.node_of(_stmt_of(s.f, s.call)).idx
        nec = ev.necessary(at)
        base = f"{s.f.qualname}:margin of {s.what}"
        counts[base] = counts.get(base, 0) + 1
        construct = base if counts[base] == 1 else f"{base}#{counts[base]}"
        problems, goods = [], []
        for fs, v in ev.alts(s.expr, at, {}):
            facts = _merge(nec, fs)
            if facts is None:
                continue
            if v.kind == "zero":
                if ("FINITE", False) in facts:
                    goods.append("0 where the integrator has no finite range")
                elif ("EMPTY", True) in facts:
                    goods.append("0 where no species exist")
                else:
                    problems.append(("zero", "the margin is the constant 0 on a path on which the integrator may have a "
                                             "finite range"))
                continue
            if v.kind == "cut":
                v = Val("scalar", red="one", why="the cutoff of the species of one loop iteration")
            if v.kind != "scalar":
                raise AnalysisError(f"{s.f.qualname}: the margin `{norm_text(s.expr)[:50]}` passed to {s.what} is not a "
                                    f"scalar derived from the cutoffs ({v.kind} {v.why})")
            if v.red == "max" and v.coll is not None:
                site = v.coll.site
                if site is None:
                    raise AnalysisError(f"{s.f.qualname}: origin of the cutoffs reduced by `{norm_text(s.expr)[:50]}` lost")
                key = id(site[1])
                prev = colls.get(key)
                colls[key] = (v.coll, site, (prev[2] if prev else False) or s.periodic_images)
                goods.append(f"maximum over the cutoffs built in {site[0].short}")
            elif v.red == "one":
                problems.append(("one-species", f"the margin is {v.why or 'the cutoff of a single species'}"))
            else:
                txt = {"min": "the minimum", "mean": "an average", "elem": "one element", "keys": "a reduction of the keys",
                       "scaled": "a fraction of the maximum"}.get(v.red, v.red)
                problems.append((v.red, f"the margin is {txt} of the per-species cutoffs ({v.why}), not their maximum"))
        if not problems and not goods:
            raise AnalysisError(f"{s.f.qualname}: no feasible value of the margin passed to {s.what}")
        tail = (": periodic images of a species whose potential reaches further than this margin are dropped, so the "
                "potential is not periodic (a whole-pixel translation is no roll, the repeated cell is not the tiled unit)")
        if s.periodic_images:
            n_inplane += 1
            if problems:
                ctx.violation(rule, construct, s.f.loc(s.call), "; ".join(dict.fromkeys(p[1] for p in problems)) + tail,
                              key_detail=problems[0][0])
            else:
                ctx.ok(rule, construct, s.f.loc(s.call), "; ".join(dict.fromkeys(goods)))
        else:
            ctx.info(rule, construct, s.f.loc(s.call),
                     ("NOT an upper bound — " + "; ".join(dict.fromkeys(p[1] for p in problems)) if problems else
                      "; ".join(dict.fromkeys(goods))) + " (z / non-periodic margin: not needed for the in-plane periodicity)")
    for key, (coll, site, needed) in colls.items():
        sf, node = site
        construct = f"{sf.qualname}:one cutoff per species"
        if coll.all:
            (ctx.ok if needed else ctx.info)(rule, construct, sf.loc(node),
                                             "one cutoff for every species of the atoms (no filter, no selection)")
        elif needed:
            ctx.violation(rule, construct, sf.loc(node),
                          f"the cutoffs whose maximum becomes the padding margin do not cover every species: "
                          f"{coll.why or 'a selection of the species'}.  A species that is left out may have the wider "
                          "potential (Na 6.6 Å vs Cl 3.7 Å), its periodic images beyond the margin are dropped and the "
                          "potential is not periodic: translation is no roll, the repeated cell is not the tiled unit",
                          key_detail="coverage")
        else:
            ctx.info(rule, construct, sf.loc(node), f"does not cover every species: {coll.why}")
    return n_inplane
