"""R-SHIFT — typestate {FFT_ORDER, CENTERED} for arrays and coordinate vectors indexed by spatial frequency.

A frequency-indexed array is either in FFT order (zero frequency at index 0, what `fft2`, `fftfreq`,
`spatial_frequencies` produce and what `ifft2` / `fft_crop` consume) or CENTERED (zero frequency in the middle,
monotone coordinates).  The only legal transitions are

    fftshift : FFT_ORDER -> CENTERED        ifftshift : CENTERED -> FFT_ORDER

(`fftshift` applied to a CENTERED array, or `ifftshift` to an FFT-ordered one, is the inverse transition only for
even sizes — for odd sizes every element lands one place off).  Element-wise operations require all operands
in the same layout and keep it.  A `DiffractionPatterns` object carries the flag `fftshift`; its array must be
CENTERED iff the flag is true.

This module is a small abstract interpreter over function bodies (ast only).  Functions of the package that are
called are evaluated recursively (depth-limited) unless they have a *contract* (then the contract is used:
modular verification, every defect is reported once, at the function that breaks its own contract) or are in the
table of primitives.  Boolean flags (`fftshift`, `self.fftshift`) and string selectors (`units`) are enumerated by
the caller; a test on a known flag selects one arm, any other test evaluates both arms and merges (a variable
that is FFT_ORDER on one path and CENTERED on the other becomes UNKNOWN; UNKNOWN reaching a checked position is
an AnalysisError, never a verdict).
"""
from __future__ import annotations

import ast
import itertools
from dataclasses import dataclass, field
from typing import Callable, Optional

from ..model import AnalysisError, ClassInfo, FuncInfo, Repo, dotted, fold_constant, kw, last_attr

F = "FFT_ORDER"
C = "CENTERED"
N = "NEUTRAL"  # no frequency layout (scalars, real-space data, constant arrays)
TOP = "UNKNOWN"


@dataclass(frozen=True)
class Err:
    kind: str  # shift-on-centered | ishift-on-fftorder | mixed | needs-fftorder
    msg: str
    where: str = ""


@dataclass(frozen=True)
class Bool:
    value: bool


@dataclass(frozen=True)
class Str:
    value: str


@dataclass(frozen=True)
class Tup:
    elts: tuple


@dataclass(frozen=True)
class Obj:
    """A tracked-class instance built in the analysed function (identity = construction site)."""
    cls: str
    site: int


@dataclass
class Event:
    func: str  # qualname of the function whose body contains the node
    node: ast.AST
    op: str  # fftshift | ifftshift | fft_crop | ifft | mix | construct | store-array
    inp: object
    out: object
    axes: object = None
    extra: dict = field(default_factory=dict)


def flag_layout(b: bool) -> str:
    return C if b else F


def is_layout(v) -> bool:
    return v in (F, C)


# ------------------------------------------------------------------------------------------------ joins
def join_elem(vals, where: str = "") -> object:
    """Element-wise combination: operands must share one layout."""
    out = N
    for v in vals:
        if isinstance(v, Tup):
            v = join_elem(v.elts, where)
        if isinstance(v, Err):
            return v
        if isinstance(v, (Bool, Obj, Str)) or v == N or v is None:
            continue
        if v == TOP:
            out = TOP if not isinstance(out, Err) else out
            continue
        if out in (N,):
            out = v
        elif out == TOP:
            continue
        elif out != v:
            return Err("mixed", f"operands in different layouts ({out} with {v}) are combined element-wise", where)
    return out


def join_merge(a, b) -> object:
    """Control-flow merge of two values of one variable."""
    if a == b:
        return a
    if isinstance(a, Err):
        return a
    if isinstance(b, Err):
        return b
    if isinstance(a, Tup) and isinstance(b, Tup) and len(a.elts) == len(b.elts):
        return Tup(tuple(join_merge(x, y) for x, y in zip(a.elts, b.elts)))
    if isinstance(a, (Bool, Str)) or isinstance(b, (Bool, Str)):
        return N if (isinstance(a, (Bool, Str)) and isinstance(b, (Bool, Str))) else TOP
    return TOP


# ------------------------------------------------------------------------------------------------ tables
ELEMENTWISE = {"sqrt", "abs", "abs2", "square", "exp", "log", "floor", "ceil", "clip", "round", "rint", "asarray",
               "array", "astype", "conj", "conjugate", "real", "imag", "where", "arctan2", "maximum", "minimum",
               "nan_to_num", "copy", "roll", "tuple", "list", "float32", "float64", "ascontiguousarray", "angle",
               "meshgrid", "broadcast_arrays", "isnan", "isfinite", "logical_and", "logical_or", "logical_not",
               "sign", "power", "hypot", "cos", "sin", "complex_exponential", "asnumpy", "squeeze", "expand_dims",
               "broadcast_to", "reshape"}
NEUTRAL_RESULT = {"ones", "zeros", "empty", "full", "ones_like", "zeros_like", "empty_like", "full_like", "sum",
                  "mean", "max", "min", "any", "all", "len", "int", "float", "bool", "prod", "isscalar", "isclose",
                  "get_array_module", "get_dtype", "energy2wavelength", "range", "enumerate", "isinstance", "hasattr",
                  "str", "zip", "get_ndimage_module", "cumsum", "argmax", "argmin", "nansum", "std", "var", "dtype",
                  "unravel_index", "concatenate", "copy_kwargs", "_copy_kwargs", "keys", "get", "format", "print",
                  "validate_gpts", "device_name_from_array_module", "check_is_defined", "match", "safe_floor_int"}
FIRST_OPERAND = {"roll", "reshape", "astype", "clip", "squeeze", "expand_dims", "broadcast_to", "round", "copy",
                 "asnumpy", "tuple", "list"}
ARRAY_MODULES = {"np", "xp", "cp", "da", "numpy", "cupy", "math", "scipy"}
SOURCES_FFT = {"fftfreq", "rfftfreq"}
FORWARD_FFT = {"fft2", "fftn", "fft"}
INVERSE_FFT = {"ifft2", "ifftn", "ifft"}
RAMPS = {"linspace", "arange"}


class Contract:
    """Layout contract of a function: `result(flags)` -> expected layout of the (every element of the) result
    given the values of the callee's own flag parameters (None when a needed flag is unknown)."""

    def __init__(self, flag_params: list[str], result: Callable[[dict], object], self_flags: list[str] = (),
                 requires: Optional[dict[str, Callable[[dict], object]]] = None):
        self.flag_params = list(flag_params)
        self.self_flags = list(self_flags)
        self.result = result
        self.requires = requires or {}  # parameter -> layout the argument must have


class Interp:
    def __init__(self, repo: Repo, contracts: Optional[dict[str, Contract]] = None,
                 method_hints: Optional[dict[str, tuple[str, str]]] = None, max_depth: int = 6):
        self.repo = repo
        self.contracts = contracts or {}
        self.method_hints = method_hints or {}
        self.max_depth = max_depth
        self.events: list[Event] = []
        self.assumed: list[tuple[str, ast.AST, str]] = []
        self._memo: dict = {}
        self.tracked: dict[str, ClassInfo] = {}  # class name -> ClassInfo whose constructions are recorded

    def track(self, cls: ClassInfo) -> None:
        self.tracked[cls.name] = cls

    # -------------------------------------------------------------------------------------------- entry
    def run(self, f: FuncInfo, env: dict, self_flags: Optional[dict[str, bool]] = None):
        """Evaluate f's body.  env: name -> value for parameters (and dotted `self.x` names).
        Returns (list of (return node, value), final env)."""
        env = dict(env)
        for p, d in f.defaults().items():
            if p not in env and isinstance(d, ast.Constant) and isinstance(d.value, bool):
                env[p] = Bool(d.value)
        fr = _Frame(self, f, env, dict(self_flags or {}), 0)
        fr.exec_body(f.body)
        return fr.returns, fr.env

    # -------------------------------------------------------------------------------------------- calls
    def call_function(self, callee: FuncInfo, args: dict, self_flags: dict, depth: int, site: str):
        """Result layout of calling `callee` with bound argument values."""
        q = callee.qualname
        con = self.contracts.get(q)
        if con is not None:
            flags = {}
            for p in con.flag_params:
                v = args.get(p)
                if v is None:
                    d = callee.defaults().get(p)
                    if isinstance(d, ast.Constant) and isinstance(d.value, bool):
                        v = Bool(d.value)
                flags[p] = v.value if isinstance(v, Bool) else None
            for p in con.self_flags:
                flags[p] = self_flags.get(p)
            if any(v is None for v in flags.values()):
                return TOP
            for p, fn in con.requires.items():
                got = args.get(p, N)
                got = _element(got) if isinstance(got, Tup) else got
                want = fn(flags)
                if isinstance(got, Err):
                    return got
                if is_layout(got) and got != want:
                    return Err("callee-precondition", f"{callee.short} expects `{p}` in {want} layout but is handed a "
                               f"{got} array", site)
            return con.result(flags)
        if depth >= self.max_depth:
            return TOP
        key = (q, tuple(sorted((k, repr(v)) for k, v in args.items())), tuple(sorted(self_flags.items())))
        if key in self._memo:
            return self._memo[key]
        self._memo[key] = TOP  # recursion guard
        env = {}
        for p in callee.params:
            if p in args:
                env[p] = args[p]
            else:
                d = callee.defaults().get(p)
                if isinstance(d, ast.Constant) and isinstance(d.value, bool):
                    env[p] = Bool(d.value)
                else:
                    env[p] = N
        fr = _Frame(self, callee, env, dict(self_flags), depth + 1)
        fr.exec_body(callee.body)
        vals = [v for _, v in fr.returns]
        if not vals:
            res = N
        else:
            res = vals[0]
            for v in vals[1:]:
                res = join_merge(res, v)
        self._memo[key] = res
        return res


class _Frame:
    def __init__(self, it: Interp, f: FuncInfo, env: dict, self_flags: dict, depth: int):
        self.it = it
        self.f = f
        self.env = env
        self.self_flags = self_flags
        self.depth = depth
        self.returns: list[tuple[ast.AST, object]] = []
        self.selfname = f.positional_params[0] if f.cls is not None and f.positional_params and \
            f.positional_params[0] in ("self", "cls") else None

    # -------------------------------------------------------------------------------------------- statements
    def exec_body(self, body) -> bool:
        """Returns True if control certainly left the body (return/raise)."""
        for st in body:
            if self.exec_stmt(st):
                return True
        return False

    def exec_stmt(self, st: ast.stmt) -> bool:
        if isinstance(st, ast.Return):
            v = self.ev(st.value) if st.value is not None else N
            self.returns.append((st, v))
            for x in flatten(v):
                if isinstance(x, Obj):
                    for e in self.it.events:
                        if e.op == "construct" and id(e.node) == x.site:
                            e.extra["returned"] = True
            return True
        if isinstance(st, ast.Raise):
            return True
        if isinstance(st, ast.Assign):
            v = self.ev(st.value)
            for t in st.targets:
                self.bind(t, v, st)
            return False
        if isinstance(st, ast.AnnAssign):
            if st.value is not None:
                self.bind(st.target, self.ev(st.value), st)
            return False
        if isinstance(st, ast.AugAssign):
            v = self.ev(st.value)
            cur = self.ev(_load(st.target))
            self.bind(st.target, join_elem([cur, v], self.where(st)), st, weak=False)
            return False
        if isinstance(st, ast.Expr):
            self.ev(st.value)
            return False
        if isinstance(st, ast.If):
            b = self.ev_bool(st.test)
            if b is True:
                return self.exec_body(st.body)
            if b is False:
                return self.exec_body(st.orelse)
            self.ev(st.test)
            saved = dict(self.env)
            left1 = self.exec_body(st.body)
            env1 = self.env
            self.env = dict(saved)
            left2 = self.exec_body(st.orelse)
            env2 = self.env
            if left1 and left2:
                return True
            if left1:
                self.env = env2
            elif left2:
                self.env = env1
            else:
                self.env = _merge_env(env1, env2)
            return False
        if isinstance(st, (ast.For, ast.While)):
            if isinstance(st, ast.For):
                itv = self.ev(st.iter)
                self.bind(st.target, _element(itv), st)
            for _ in range(2):
                saved = dict(self.env)
                self.exec_body(st.body)
                self.env = _merge_env(saved, self.env)
                if isinstance(st, ast.For):
                    self.bind(st.target, _element(self.ev(st.iter)), st)
            self.exec_body(st.orelse)
            return False
        if isinstance(st, ast.With):
            for item in st.items:
                v = self.ev(item.context_expr)
                if item.optional_vars is not None:
                    self.bind(item.optional_vars, v, st)
            return self.exec_body(st.body)
        if isinstance(st, ast.Try):
            saved = dict(self.env)
            self.exec_body(st.body)
            env = self.env
            for h in st.handlers:
                self.env = dict(saved)
                self.exec_body(h.body)
                env = _merge_env(env, self.env)
            self.env = env
            self.exec_body(st.orelse)
            self.exec_body(st.finalbody)
            return False
        if isinstance(st, (ast.FunctionDef, ast.AsyncFunctionDef, ast.ClassDef, ast.Import, ast.ImportFrom, ast.Pass,
                           ast.Assert, ast.Delete, ast.Global, ast.Nonlocal, ast.Break, ast.Continue)):
            return False
        raise AnalysisError(f"{self.f.qualname}: unsupported statement {type(st).__name__} in layout analysis")

    def where(self, node: ast.AST) -> str:
        return f"{self.f.module.relpath}:{getattr(node, 'lineno', self.f.node.lineno)}"

    def bind(self, target: ast.expr, v, st, weak: bool = False) -> None:
        if isinstance(target, ast.Name):
            self.env[target.id] = v
        elif isinstance(target, (ast.Tuple, ast.List)):
            if isinstance(v, Tup) and len(v.elts) == len(target.elts):
                for t, x in zip(target.elts, v.elts):
                    self.bind(t, x, st)
            else:
                e = _element(v)
                for t in target.elts:
                    self.bind(t.value if isinstance(t, ast.Starred) else t, e, st)
        elif isinstance(target, ast.Subscript):
            base = target.value
            d = dotted(base)
            idx = self.index_layout(target.slice)
            if d is not None:
                cur = self.env.get(d, N)
                if isinstance(cur, Tup) or isinstance(v, Tup):
                    # store into a container: keep element-wise knowledge only when it is homogeneous
                    new = join_merge(_element(cur) if cur != N else _element(v), _element(v))
                else:
                    new = join_elem([cur, v, idx], self.where(st))
                if isinstance(target.slice, ast.Constant) and isinstance(target.slice.value, str):
                    # dict-style store kwargs["array"] = value
                    self.it.events.append(Event(self.f.qualname, st, "store-key", v, v,
                                                extra={"key": target.slice.value, "container": d,
                                                       "flags": dict(self.self_flags), "frame": id(self)}))
                    return
                self.env[d] = new
        elif isinstance(target, ast.Attribute):
            d = dotted(target)
            if d is not None:
                self.env[d] = v

    # -------------------------------------------------------------------------------------------- booleans
    def ev_bool(self, e: ast.expr) -> Optional[bool]:
        if isinstance(e, ast.Constant) and isinstance(e.value, bool):
            return e.value
        if isinstance(e, ast.UnaryOp) and isinstance(e.op, ast.Not):
            b = self.ev_bool(e.operand)
            return None if b is None else not b
        d = dotted(e)
        if d is not None:
            v = self.env.get(d)
            if isinstance(v, Bool):
                return v.value
            if self.selfname and d.startswith(self.selfname + "."):
                key = "self." + d.split(".", 1)[1]
                if key in self.self_flags:
                    return self.self_flags[key]
                # `self._fftshift` behind the property `fftshift`
                g = self.f.cls.find_method(d.split(".", 1)[1]) if self.f.cls else None
                if g is not None and g.is_property:
                    rv = _single_return_expr(g)
                    if rv is not None and dotted(rv) and dotted(rv).startswith("self."):
                        for k, val in self.self_flags.items():
                            gk = self.f.cls.find_method(k.split(".", 1)[1])
                            if gk is not None and gk.is_property and _single_return_expr(gk) is not None and \
                                    dotted(_single_return_expr(gk)) == dotted(rv):
                                return val
            return None
        if isinstance(e, ast.BoolOp):
            vals = [self.ev_bool(v) for v in e.values]
            if isinstance(e.op, ast.And):
                if any(v is False for v in vals):
                    return False
                return True if all(v is True for v in vals) else None
            if any(v is True for v in vals):
                return True
            return False if all(v is False for v in vals) else None
        if isinstance(e, ast.Compare) and len(e.ops) == 1 and isinstance(e.ops[0], (ast.Eq, ast.NotEq)):
            sa, sb = self._str_of(e.left), self._str_of(e.comparators[0])
            if sa is not None and sb is not None:
                return (sa == sb) if isinstance(e.ops[0], ast.Eq) else (sa != sb)
        if isinstance(e, ast.Compare) and len(e.ops) == 1 and isinstance(e.ops[0], (ast.Is, ast.IsNot, ast.Eq, ast.NotEq)):
            a, b = self.ev_bool(e.left), self.ev_bool(e.comparators[0])
            if a is not None and b is not None:
                same = a == b
                return same if isinstance(e.ops[0], (ast.Is, ast.Eq)) else not same
        return None

    def _str_of(self, e: ast.expr) -> Optional[str]:
        if isinstance(e, ast.Constant) and isinstance(e.value, str):
            return e.value
        if isinstance(e, ast.Name) and isinstance(self.env.get(e.id), Str):
            return self.env[e.id].value
        return None

    # -------------------------------------------------------------------------------------------- expressions
    def index_layout(self, s: ast.AST):
        if isinstance(s, ast.Tuple):
            return join_elem([self.index_layout(e) for e in s.elts])
        if isinstance(s, (ast.Slice, ast.Constant)):
            return N
        v = self.ev(s)
        return v if is_layout(v) or isinstance(v, Err) else N

    def ev(self, e: Optional[ast.AST]):
        if e is None:
            return N
        if isinstance(e, ast.Constant):
            if isinstance(e.value, bool):
                return Bool(e.value)
            return Str(e.value) if isinstance(e.value, str) else N
        if isinstance(e, ast.Name):
            return self.env.get(e.id, N)
        if isinstance(e, ast.Attribute):
            return self.ev_attribute(e)
        if isinstance(e, ast.Call):
            return self.ev_call(e)
        if isinstance(e, ast.BinOp):
            return join_elem([self.ev(e.left), self.ev(e.right)], self.where(e))
        if isinstance(e, ast.UnaryOp):
            if isinstance(e.op, ast.Not):
                b = self.ev_bool(e)
                if b is not None:
                    return Bool(b)
            return self.ev(e.operand)
        if isinstance(e, ast.BoolOp):
            b = self.ev_bool(e)
            if b is not None:
                return Bool(b)
            return join_elem([self.ev(v) for v in e.values], self.where(e))
        if isinstance(e, ast.Compare):
            return join_elem([self.ev(e.left)] + [self.ev(c) for c in e.comparators], self.where(e))
        if isinstance(e, ast.Subscript):
            base = self.ev(e.value)
            if isinstance(base, Tup):
                try:
                    k = fold_constant(e.slice)
                except Exception:
                    k = None
                if isinstance(k, int) and -len(base.elts) <= k < len(base.elts):
                    return base.elts[k]
                return _element(base)
            if isinstance(base, (Bool, Str)):
                return N
            return join_elem([base, self.index_layout(e.slice)], self.where(e))
        if isinstance(e, (ast.Tuple, ast.List)):
            vals = []
            for x in e.elts:
                if isinstance(x, ast.Starred):
                    vals.append(_element(self.ev(x.value)))
                else:
                    vals.append(self.ev(x))
            return Tup(tuple(vals))
        if isinstance(e, ast.IfExp):
            b = self.ev_bool(e.test)
            if b is True:
                return self.ev(e.body)
            if b is False:
                return self.ev(e.orelse)
            return join_merge(self.ev(e.body), self.ev(e.orelse))
        if isinstance(e, (ast.ListComp, ast.GeneratorExp, ast.SetComp)):
            saved = dict(self.env)
            for g in e.generators:
                self.bind(g.target, _element(self.ev(g.iter)), e)
            v = self.ev(e.elt)
            self.env = saved
            return _element(v) if not isinstance(v, Tup) else v
        if isinstance(e, ast.Starred):
            return _element(self.ev(e.value))
        if isinstance(e, ast.NamedExpr):
            v = self.ev(e.value)
            self.bind(e.target, v, e)
            return v
        return N

    def ev_attribute(self, e: ast.Attribute):
        d = dotted(e)
        if d is not None and d in self.env:
            return self.env[d]
        if d is not None and self.selfname and d.startswith(self.selfname + ".") and d.count(".") == 1 and self.f.cls:
            attr = e.attr
            key = "self." + attr
            if key in self.self_flags:
                return Bool(self.self_flags[key])
            g = self.f.cls.find_method(attr)
            if g is not None and g.is_property:
                return self.it.call_function(g, {}, self.self_flags, self.depth, self.where(e))
            return N
        if e.attr in ("real", "imag", "T", "mT", "array", "_array", "_eager_array"):
            return self.ev(e.value)
        if e.attr in ("shape", "dtype", "ndim", "size", "chunks", "device", "metadata"):
            return N
        base = self.ev(e.value)
        return N if base in (N,) or isinstance(base, Bool) else (base if isinstance(base, Err) else N)

    def _shift(self, call: ast.Call, op: str):
        if not call.args:
            raise AnalysisError(f"{self.f.qualname}: {op}() without operand")
        inp = self.ev(call.args[0])
        axes_e = kw(call, "axes") or (call.args[1] if len(call.args) > 1 else None)
        try:
            axes = fold_constant(axes_e) if axes_e is not None else None
        except Exception:
            axes = "?"
        if isinstance(axes, int):
            axes = (axes,)
        w = self.where(call)
        val = _element(inp) if isinstance(inp, Tup) else inp
        if isinstance(val, Err):
            out = val
        elif op == "fftshift":
            if val == C:
                out = Err("shift-on-centered", "fftshift is applied to an array/coordinate vector that is already "
                          "CENTERED; that equals the inverse shift only for even sizes — for odd sizes every entry "
                          "lands one place off (ifftshift is the CENTERED -> FFT_ORDER transition)", w)
            else:
                out = C
                if val != F:
                    self.it.assumed.append((self.f.qualname, call, "operand of fftshift assumed FFT_ORDER"))
        else:
            if val == F:
                out = Err("ishift-on-fftorder", "ifftshift is applied to an array that is already in FFT_ORDER "
                          "(zero frequency at index 0); the result is neither layout", w)
            else:
                out = F
                if val != C:
                    self.it.assumed.append((self.f.qualname, call, "operand of ifftshift assumed CENTERED"))
        self.it.events.append(Event(self.f.qualname, call, op, val, out, axes,
                                    extra={"flags": dict(self.self_flags)}))
        return out

    def ev_call(self, call: ast.Call):
        name = last_attr(call)
        full = dotted(call.func) or ""
        w = self.where(call)
        if name in ("map_blocks", "map_overlap") and call.args and last_attr(call.args[0]) in (
                FORWARD_FFT | INVERSE_FFT | {"fft_crop", "fftshift", "ifftshift"}):
            # blockwise application of a primitive == the primitive applied to the array
            fn = call.args[0]
            if isinstance(call.func, ast.Attribute) and (dotted(call.func.value) or "") not in ("da", "dask.array"):
                arr_args = [call.func.value] + list(call.args[1:])
            else:
                arr_args = list(call.args[1:])
            drop = ("chunks", "dtype", "meta", "drop_axis", "new_axis", "depth", "boundary", "name", "token")
            direct = ast.Call(func=fn, args=arr_args, keywords=[k for k in call.keywords if k.arg not in drop])
            ast.copy_location(direct, call)
            ast.fix_missing_locations(direct)
            return self.ev_call(direct)
        argv = [self.ev(a.value if isinstance(a, ast.Starred) else a) for a in call.args]
        kwv = {k.arg: self.ev(k.value) for k in call.keywords if k.arg}
        # ---- transitions
        if name in ("fftshift", "ifftshift"):
            return self._shift(call, name)
        # ---- construction of a tracked class / methods on such an object
        if name in self.it.tracked or (full.endswith(".__class__") and self.f.cls is not None
                                       and self.f.cls.name in self.it.tracked):
            k = self.it.tracked[name] if name in self.it.tracked else self.it.tracked[self.f.cls.name]
            init = k.find_method("__init__")
            params = init.positional_params[1:] if init is not None else []
            bound = dict(zip(params, argv))
            bound.update(kwv)
            star = any(kk.arg is None for kk in call.keywords)
            for p_, d_ in (init.defaults().items() if init is not None else ()):
                if p_ not in bound and not star and isinstance(d_, ast.Constant) and isinstance(d_.value, bool):
                    bound[p_] = Bool(d_.value)
            self.it.events.append(Event(self.f.qualname, call, "construct", bound.get("array", N), None,
                                        extra={"class": k.name, "args": bound, "star": star, "returned": False,
                                               "flags": dict(self.self_flags)}))
            return Obj(k.name, id(call))
        if isinstance(call.func, ast.Attribute):
            recv0 = self.ev(call.func.value)
            if isinstance(recv0, Obj) and recv0.cls in self.it.tracked:
                m = self.it.tracked[recv0.cls].find_method(call.func.attr)
                ann = ast.unparse(m.node.returns) if m is not None and m.node.returns is not None else ""
                return recv0 if (recv0.cls in ann and "Indexed" not in ann) or "Self" in ann else N
        # ---- package functions with a contract / evaluated recursively (before the generic tables, so that
        #      e.g. abtem's own `spatial_frequencies` is analysed rather than assumed)
        callee, bound = self.resolve_call(call, argv, kwv)
        if callee is not None and callee.name not in FORWARD_FFT | INVERSE_FFT | ELEMENTWISE | NEUTRAL_RESULT \
                and callee.name != "fft_crop":
            return self.it.call_function(callee, bound, self.self_flags, self.depth, w)
        # ---- primitives
        if name in SOURCES_FFT:
            return F
        if name in RAMPS:
            self.it.assumed.append((self.f.qualname, call, f"{name}(...) is a monotone ramp: CENTERED order"))
            return C
        if name in FORWARD_FFT:
            v = argv[0] if argv else N
            if isinstance(v, Err):
                return v
            if is_layout(v):
                return Err("mixed", f"forward FFT of an array that is itself frequency-indexed ({v})", w)
            return F
        if name in INVERSE_FFT or name == "fft_crop":
            v = argv[0] if argv else kwv.get("array", N)
            op = "fft_crop" if name == "fft_crop" else "ifft"
            if isinstance(v, Err):
                out = v
            elif v == C:
                out = Err("needs-fftorder", f"{name} expects its input in FFT_ORDER (low frequencies at both ends of "
                          "each axis) but receives a CENTERED array", w)
            else:
                out = F if name == "fft_crop" else N
                if v != F:
                    self.it.assumed.append((self.f.qualname, call, f"operand of {name} assumed FFT_ORDER"))
            self.it.events.append(Event(self.f.qualname, call, op, v, out, extra={"flags": dict(self.self_flags)}))
            return out
        # ---- map_blocks / map_overlap handled in resolve_call; generic tables
        if name in NEUTRAL_RESULT:
            vals = argv + list(kwv.values())
            if isinstance(call.func, ast.Attribute) and (dotted(call.func.value) or "?").split(".")[0] not in ARRAY_MODULES:
                vals = [self.ev(call.func.value)] + vals  # method form: (a * b).sum(...)
            errs = [x for v in vals for x in flatten(v) if isinstance(x, Err)]
            return errs[0] if errs else N
        if name in ELEMENTWISE:
            operands = list(argv) + [v for k, v in kwv.items() if k not in ("dtype", "axis", "axes", "out", "shape")]
            base0 = (dotted(call.func.value) or "").split(".")[0] if isinstance(call.func, ast.Attribute) else ""
            if isinstance(call.func, ast.Attribute) and base0 not in ARRAY_MODULES:
                operands.insert(0, self.ev(call.func.value))  # method form: x.astype(...), x.copy()
            if not operands:
                return N
            if name in FIRST_OPERAND:
                first = operands[0]
                return first
            flat = [(_element(v) if isinstance(v, Tup) else v) for v in operands]
            return join_elem(flat, w)
        # ---- method call on a layout-carrying receiver that we do not know: sum()/mean() etc. are in the tables;
        #      anything else on a layout value is unknown
        recv = self.ev(call.func.value) if isinstance(call.func, ast.Attribute) else N
        carriers = [v for v in argv + list(kwv.values()) + [recv] if is_layout(v) or isinstance(v, (Err, Tup)) and
                    (isinstance(v, Err) or any(is_layout(x) for x in v.elts))]
        errs = [v for v in carriers if isinstance(v, Err)]
        if errs:
            return errs[0]
        return TOP if carriers else N

    def resolve_call(self, call: ast.Call, argv, kwv):
        """-> (callee FuncInfo or None, bound argument values)."""
        func = call.func
        name = last_attr(call)
        pos = list(argv)
        fn_expr = func
        if name in ("map_blocks", "map_overlap") and call.args:
            fn_expr = call.args[0]
            if isinstance(func, ast.Attribute) and (dotted(func.value) or "") not in ("da", "dask.array"):
                pos = [self.ev(func.value)] + pos[1:]
            else:
                pos = pos[1:]
            kwv = {k: v for k, v in kwv.items() if k not in ("chunks", "dtype", "meta", "drop_axis", "new_axis",
                                                               "depth", "boundary", "name", "token")}
        callee = None
        skip_self = False
        if isinstance(fn_expr, ast.Name):
            t = self.it.repo.resolve_name(self.f.module, fn_expr.id)
            if isinstance(t, FuncInfo):
                callee = t
        elif isinstance(fn_expr, ast.Attribute):
            base = dotted(fn_expr.value)
            if base in ("self", "cls") and self.f.cls is not None:
                callee = self.f.cls.find_method(fn_expr.attr)
                skip_self = callee is not None and "staticmethod" not in callee.decorators
            elif base is not None:
                t = self.it.repo.resolve_name(self.f.module, f"{base}.{fn_expr.attr}")
                if isinstance(t, FuncInfo):
                    callee = t
                    skip_self = t.cls is not None and "staticmethod" not in t.decorators and \
                        "classmethod" not in t.decorators
            if callee is None and fn_expr.attr in self.it.method_hints and base not in ("np", "xp", "cp", "da"):
                mod, cls = self.it.method_hints[fn_expr.attr]
                callee = self.it.repo.cls(mod, cls).find_method(fn_expr.attr)
                skip_self = True
        if callee is None or callee.is_property:
            return None, {}
        params = callee.positional_params
        if skip_self or ("classmethod" in callee.decorators and params):
            params = params[1:]
        bound = {}
        for p, v in zip(params, pos):
            bound[p] = v
        bound.update(kwv)
        return callee, bound


# ------------------------------------------------------------------------------------------------ small helpers
def _merge_env(a: dict, b: dict) -> dict:
    out = {}
    for k in set(a) | set(b):
        if k in a and k in b:
            out[k] = join_merge(a[k], b[k])
        else:
            out[k] = a.get(k, b.get(k))
    return out


def _element(v):
    """Layout of an element of a (homogeneous) collection value."""
    if isinstance(v, Tup):
        if not v.elts:
            return N
        r = v.elts[0]
        for x in v.elts[1:]:
            r = join_merge(r, x)
        return _element(r) if isinstance(r, Tup) else r
    if isinstance(v, (Bool, Obj, Str)):
        return N
    return v


def _load(t: ast.expr) -> ast.expr:
    import copy

    t2 = copy.deepcopy(t)
    for n in ast.walk(t2):
        if hasattr(n, "ctx"):
            n.ctx = ast.Load()
    return t2


def _single_return_expr(f: FuncInfo) -> Optional[ast.expr]:
    rets = [n for n in ast.walk(f.node) if isinstance(n, ast.Return) and n.value is not None]
    return rets[0].value if len(rets) == 1 else None


def flatten(v) -> list:
    if isinstance(v, Tup):
        out = []
        for x in v.elts:
            out += flatten(x)
        return out
    return [v]


# ------------------------------------------------------------------------------------------------ checking API
@dataclass
class Spec:
    func: FuncInfo
    flags: list[str]  # names of boolean parameters, `self.<flag>` names, or free symbols (layout parameters)
    inputs: Callable[[dict], dict]  # valuation -> {name: value}
    expect: Optional[Callable[[dict], object]] = None  # valuation -> layout every result element must have
    expect_store: Optional[tuple[str, Callable[[dict], object]]] = None  # (dict key, valuation -> layout)
    batched: Optional[bool] = None  # True: shifts must name the two pattern axes; False: all axes; None: not checked
    label: str = ""
    strings: dict = field(default_factory=dict)  # string parameter -> list of values to enumerate


def valuations(flags: list[str]):
    for combo in itertools.product((True, False), repeat=len(flags)):
        yield dict(zip(flags, combo))


def fmt_val(v: dict) -> str:
    return ",".join(f"{k}={v[k]}" for k in sorted(v)) or "-"


def check_spec(ctx, rule: str, it: Interp, spec: Spec) -> None:
    """Run one function under every flag valuation and report one instance per valuation plus one per
    shift/crop site inside the function."""
    f = spec.func
    site_results: dict[int, list] = {}
    string_names = sorted(spec.strings)
    combos = [(val, dict(zip(string_names, sv))) for val in valuations(spec.flags)
              for sv in itertools.product(*[spec.strings[n] for n in string_names])]
    for val, svals in combos:
        it.events.clear()
        env = spec.inputs(val)
        self_flags = {k: v for k, v in val.items() if k.startswith("self.")}
        for k, v in val.items():
            if not k.startswith("self.") and k in f.params:
                env[k] = Bool(v)
        for k, v in svals.items():
            env[k] = Str(v)
        returns, final_env = it.run(f, env, self_flags)
        tag = fmt_val({**val, **svals})
        construct = f"{f.qualname}[{tag}]"
        events_here = [e for e in it.events if e.func == f.qualname]
        for e in events_here:
            if e.op in ("fftshift", "ifftshift", "fft_crop", "ifft"):
                site_results.setdefault(id(e.node), []).append((e, val))
        problems: list[tuple[str, str]] = []
        if not returns and _always_raises(f, it, env, self_flags):
            ctx.ok(rule, construct, f.where, f"{spec.label or f.short} under {tag}: the call is rejected (raises) — "
                                             "this layout is not accepted")
            continue
        if spec.expect is not None:
            want = spec.expect(val)
            if not returns:
                raise AnalysisError(f"{f.qualname}: no return reached under {tag}")
            for node, v in returns:
                for x in flatten(v):
                    if isinstance(x, Err):
                        problems.append((x.kind, f"{x.msg} (at {x.where})"))
                    elif x in (TOP, N) or isinstance(x, (Bool, Str)):
                        raise AnalysisError(f"{f.qualname}: cannot establish the layout of the value returned at line "
                                            f"{getattr(node, 'lineno', '?')} under {tag} (got {x})")
                    elif x != want:
                        problems.append(("result", f"returns a {x} value at line {getattr(node, 'lineno', '?')} "
                                                   f"where {want} is required"))
        else:
            for node, v in returns:
                for x in flatten(v):
                    if isinstance(x, Err):
                        problems.append((x.kind, f"{x.msg} (at {x.where})"))
        if spec.expect_store is not None:
            key, fn = spec.expect_store
            want = fn(val)
            stores = [e for e in events_here if e.op == "store-key" and e.extra.get("key") == key]
            if not stores:
                raise AnalysisError(f"{f.qualname}: no `[{key!r}] = ...` store found under {tag}")
            for e in stores:
                for x in flatten(e.inp):
                    if isinstance(x, Err):
                        problems.append((x.kind, f"{x.msg} (at {x.where})"))
                    elif x in (TOP, N) or isinstance(x, Bool):
                        raise AnalysisError(f"{f.qualname}: cannot establish the layout of the array stored under "
                                            f"{key!r} ({x}) under {tag}")
                    elif x != want:
                        problems.append(("result", f"the new object's array is {x} but its fftshift flag says {want}"))
        # element-wise mixing inside the body shows up as Err values in the environment
        for k, v in final_env.items():
            for x in flatten(v):
                if isinstance(x, Err) and not any(x.msg in p[1] for p in problems):
                    problems.append((x.kind, f"{x.msg} (variable `{k}`, at {x.where})"))
        if problems:
            kinds = sorted({k for k, _ in problems})
            seen = []
            for _, m in problems:
                if m not in seen:
                    seen.append(m)
            ctx.violation(rule, construct, f.where, f"{spec.label or f.short} under {tag}: " + "; ".join(seen),
                          key_detail="+".join(kinds))
        else:
            what = []
            if spec.expect is not None:
                what.append(f"result is {spec.expect(val)}")
            if spec.expect_store is not None:
                what.append(f"stored array is {spec.expect_store[1](val)}")
            ctx.ok(rule, construct, f.where, f"{spec.label or f.short} under {tag}: " + (", ".join(what) or
                                                                                         "no layout conflict"))
    # shift sites: axes
    counters: dict[str, int] = {}
    for nid, lst in sorted(site_results.items(), key=lambda kv: getattr(kv[1][0][0].node, "lineno", 0)):
        e0 = lst[0][0]
        if e0.op not in ("fftshift", "ifftshift") or spec.batched is None:
            continue
        counters[e0.op] = counters.get(e0.op, 0) + 1
        ordinal = counters[e0.op]
        axes = e0.axes
        if spec.batched:
            good = isinstance(axes, (tuple, list)) and sorted(axes) == [-2, -1]
            want = "exactly the two pattern axes (-2, -1); ensemble axes must not be shifted"
        else:
            good = axes is None or (isinstance(axes, (tuple, list)) and sorted(a % 2 for a in axes) == [0, 1]
                                    and len(axes) == 2) or (isinstance(axes, (tuple, list)) and len(axes) == 1)
            want = "all axes of the 2-D mask / the single axis of a coordinate vector"
        ctx.check(good, rule, f"{f.qualname}:{e0.op}-axes#{ordinal}", f"{f.module.relpath}:{getattr(e0.node, 'lineno', 0)}",
                  f"{e0.op} over axes {axes if axes is not None else 'all'}",
                  f"{e0.op} runs over axes {axes if axes is not None else 'all'}; required: {want}",
                  key_detail="axes")


def _always_raises(f: FuncInfo, it: Interp, env: dict, self_flags: dict) -> bool:
    """No return is reachable under this valuation and the body ends in a raise."""
    fr = _Frame(it, f, dict(env), dict(self_flags), 0)
    left = fr.exec_body(f.body)
    return left and not fr.returns


def check_fft_crop_convention(ctx, rule: str, repo: Repo) -> None:
    """Anchor of the `fft_crop needs FFT_ORDER` entry of the primitive table: the 1-D interpolation masks keep a
    head slice [:k] and a tail slice [-k:] of the longer axis, i.e. the frequencies at both ends."""
    f = repo.function("abtem.core.fft", "_fft_interpolation_masks_1d")
    heads = tails = 0
    for n in ast.walk(f.node):
        if isinstance(n, ast.Assign) and isinstance(n.targets[0], ast.Subscript) and isinstance(n.targets[0].slice, ast.Slice):
            s = n.targets[0].slice
            if s.lower is None and s.upper is not None:
                heads += 1
            elif s.lower is not None and s.upper is None:
                lo = s.lower
                neg = isinstance(lo, ast.UnaryOp) and isinstance(lo.op, ast.USub) or (
                    isinstance(lo, ast.BinOp) and isinstance(lo.left, ast.UnaryOp) and isinstance(lo.left.op, ast.USub)) or (
                    isinstance(lo, ast.BinOp) and isinstance(lo.left, ast.BinOp) and isinstance(lo.left.left, ast.UnaryOp))
                if neg:
                    tails += 1
    if not (heads >= 2 and tails >= 2):
        raise AnalysisError("abtem.core.fft._fft_interpolation_masks_1d no longer keeps head [:k] and tail [-k:] "
                            "slices: the FFT_ORDER requirement of fft_crop in the R-SHIFT primitive table is unfounded")
    ctx.ok(rule, f"{f.qualname}:keeps-both-ends", f.where,
           f"masks keep {heads} head and {tails} tail slices: fft_crop keeps the low frequencies of an FFT_ORDER array")


def check_constructions(ctx, rule: str, it: Interp, f: FuncInfo, flags: list[str], inputs: Callable[[dict], dict],
                        cls_name: str, flag_param: str = "fftshift") -> int:
    """Every `<cls_name>(array, ..., fftshift=E)` built in f and handed back to the caller: the array must be
    CENTERED iff E is true.  Objects that do not leave the function (e.g. only `.show()`n) are informational."""
    n = 0
    per_site: dict[int, list] = {}
    for val in valuations(flags):
        it.events.clear()
        env = inputs(val)
        self_flags = {k: v for k, v in val.items() if k.startswith("self.")}
        for k, v in val.items():
            if not k.startswith("self.") and k in f.params:
                env[k] = Bool(v)
        it.run(f, env, self_flags)
        for e in it.events:
            if e.op == "construct" and e.func == f.qualname and e.extra["class"] == cls_name:
                per_site.setdefault(id(e.node), []).append((val, e))
    if not per_site:
        raise AnalysisError(f"{f.qualname}: no {cls_name}(...) construction reached")
    for k, (site, lst) in enumerate(sorted(per_site.items(), key=lambda kv: getattr(kv[1][0][1].node, "lineno", 0))):
        node = lst[0][1].node
        where = f"{f.module.relpath}:{getattr(node, 'lineno', 0)}"
        suffix = f"#{k + 1}" if len(per_site) > 1 else ""
        for val, e in lst:
            tag = fmt_val(val)
            construct = f"{f.qualname}:{cls_name}(){suffix}[{tag}]"
            arr = e.inp
            flagv = e.extra["args"].get(flag_param)
            n += 1
            if e.extra["star"] and flagv is None:
                ctx.info(rule, construct, where, "flag passed through **kwargs: not decided here")
                continue
            if isinstance(arr, Err):
                ctx.violation(rule, construct, where, f"array handed to {cls_name}: {arr.msg} (at {arr.where})",
                              key_detail=arr.kind)
                continue
            if not is_layout(arr):
                ctx.info(rule, construct, where, f"array layout not produced in this function ({arr}); the flag is "
                                                 "the caller's responsibility")
                continue
            if not isinstance(flagv, Bool):
                raise AnalysisError(f"{f.qualname}: cannot evaluate the {flag_param} flag given to {cls_name}() "
                                    f"under {tag}")
            good = arr == flag_layout(flagv.value)
            if not e.extra["returned"]:
                ctx.info(rule, construct, where, f"{cls_name} with a {arr} array and {flag_param}={flagv.value} is "
                                                 "built for local use only (not returned)"
                         + ("" if good else "; flag and layout disagree but no flag-dependent method is reachable"))
                continue
            ctx.check(good, rule, construct, where,
                      f"{arr} array with {flag_param}={flagv.value}",
                      f"a {arr} array is wrapped in {cls_name}(..., {flag_param}={flagv.value}), which declares it "
                      f"{flag_layout(flagv.value)}: every flag-dependent method of the result (block_direct/bandlimit, "
                      "integrate_radial, polar_binning, center_of_mass, angular_coordinates, azimuthal_average) then "
                      "addresses the wrong pixels", key_detail="flag")
    return n
