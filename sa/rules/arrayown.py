"""Array ownership classes for numpy arrays held in local variables.

`classify(df, node, name)` follows the strong reaching definitions of `name` at CFG node `node` and
returns a set of classes

    FRESH      the function owns a new writable buffer: allocation, `.copy()`, `.astype(...)`, `np.array(x)`,
               arithmetic, `.to_numpy(copy=True)`, result of an unknown external call with array arguments
    PARAM:<p>  (a view of) the caller's argument p
    READONLY   a read-only view: pandas `.to_numpy()` / `.values` without `copy=True`
               (pandas >= 3 Copy-on-Write hands out non-writable views)
    ITER       an element produced by iterating over a call result (ownership not decided)
    CLOSURE:<n> a free variable of the scope (captured from the enclosing function or a module global)
    ATTR:<a> / OBJ:<o>   state of an object (`self.x`, or something a method of `o` returned from its state)
    UNKNOWN    anything else

View-preserving operations (`reshape`, `.T`, `asarray`, slices, `ravel`, `squeeze`, `.real`, ...) pass the
class of their operand through; a call `g(..., x, ...)` of a function that is not an allocator passes the
class of `x` through (it may return its argument).  Calls to functions of the analysed package are followed
into their return expressions (depth-limited).  Weak definitions (`x *= ..`, `x[..] = ..`, `x.attr = ..`)
do not change ownership.
"""
from __future__ import annotations

import ast
from typing import Optional

from ..cfg import DataFlow
from ..model import FuncInfo, Repo, dotted, kw, last_attr, walk_no_nested

FRESH = "FRESH"
READONLY = "READONLY"
ITER = "ITER"
UNKNOWN = "UNKNOWN"

ALLOCATORS = {"zeros", "ones", "empty", "full", "zeros_like", "ones_like", "empty_like", "full_like", "array", "arange",
              "linspace", "copy", "deepcopy", "meshgrid", "stack", "concatenate", "tile", "repeat", "eye", "diag",
              "exp", "sqrt", "abs", "conj", "conjugate", "sum", "mean", "prod", "fftfreq", "outer", "dot", "matmul",
              "einsum", "where", "cos", "sin", "round", "floor", "ceil", "angle", "square", "max", "min"}
VIEW_METHODS = {"reshape", "ravel", "squeeze", "view", "transpose", "swapaxes", "get", "compute", "rechunk", "persist"}
VIEW_FUNCS = {"asarray", "ascontiguousarray", "asanyarray", "reshape", "ravel", "squeeze", "transpose", "broadcast_to",
              "expand_dims", "atleast_1d", "atleast_2d", "asnumpy", "fftshift_view"}
VIEW_ATTRS = {"T", "real", "imag", "array", "_array", "_eager_array", "_lazy_array", "flat"}
FRESH_METHODS = {"copy", "astype", "conj", "conjugate", "sum", "mean", "round", "flatten", "tolist", "max", "min", "dot",
                 "cumsum", "clip", "repeat", "item", "to_cpu", "to_gpu"}


def all_scopes(repo: Repo):
    """Every function of the package including nested definitions (nested ones as FuncInfo without class)."""
    for f in repo.all_functions():
        yield f
        stack = [f.node]
        while stack:
            n = stack.pop()
            for c in ast.iter_child_nodes(n):
                if isinstance(c, (ast.FunctionDef, ast.AsyncFunctionDef)) and c is not f.node:
                    yield FuncInfo(f.module, c, None)
                    stack.append(c)
                elif not isinstance(c, (ast.ClassDef, ast.Lambda)):
                    stack.append(c)


class Ownership:
    def __init__(self, repo: Repo, depth: int = 5, max_candidates: int = 6):
        self.repo = repo
        self.depth = depth
        self.max_candidates = max_candidates
        self._dfs: dict[int, DataFlow] = {}
        self._nested: Optional[dict[str, list[FuncInfo]]] = None
        self._methods: Optional[dict[str, list[FuncInfo]]] = None
        self._rets: dict[int, list] = {}

    def _index(self) -> None:
        if self._nested is not None:
            return
        self._nested, self._methods = {}, {}
        top = {id(f.node) for f in self.repo.all_functions()}
        for f in all_scopes(self.repo):
            if id(f.node) not in top:
                self._nested.setdefault(f.name, []).append(f)
            elif f.cls is not None and not f.is_property:
                self._methods.setdefault(f.name, []).append(f)

    def _returns(self, target: FuncInfo) -> list:
        k = id(target.node)
        if k not in self._rets:
            self._rets[k] = [r for r in walk_no_nested(target.node) if isinstance(r, ast.Return) and r.value is not None]
        return self._rets[k]

    def candidates(self, f: FuncInfo, e: ast.Call) -> tuple[list[FuncInfo], bool]:
        """Package functions a call may reach -> (candidates, skip_self)."""
        self._index()
        fn = dotted(e.func)
        if fn is not None:
            t = self.repo.resolve_name(f.module, fn)
            if isinstance(t, FuncInfo):
                return [t], False
            if isinstance(e.func, ast.Name) and fn in self._nested:
                return self._nested[fn], False
            if fn.startswith("self.") and fn.count(".") == 1 and f.cls is not None:
                m = f.cls.find_method(fn[5:])
                if m is not None:
                    return [m], "staticmethod" not in m.decorators
        if isinstance(e.func, ast.Attribute):
            root = (dotted(e.func.value) or "").split(".")[0]
            if root not in ("np", "xp", "cp", "numpy", "cupy", "da", "dask", "scipy", "math", "pd"):
                ms = [m for m in self._methods.get(e.func.attr, []) if not m.is_abstract]
                if 1 <= len(ms) <= self.max_candidates:
                    return ms, True
        return [], False

    def df_of(self, f: FuncInfo) -> DataFlow:
        k = id(f.node)
        if k not in self._dfs:
            self._dfs[k] = DataFlow(f.node)
        return self._dfs[k]

    # ------------------------------------------------------------------ variables
    def classify(self, f: FuncInfo, node: int, name: str, _depth: int = 0, _seen=None) -> set[str]:
        df = self.df_of(f)
        seen = _seen if _seen is not None else set()
        key = (id(f.node), node, name)
        if key in seen:
            return set()  # recursion: contributes nothing new
        seen.add(key)
        try:
            out: set[str] = set()
            defs = [d for d in df.reaching(node, name) if d.strong]
            if not defs:
                # no definition in this scope: a closure variable of a nested function or a module global
                return {f"CLOSURE:{name}"}
            for d in defs:
                if d.kind == "param":
                    out.add(f"PARAM:{name}")
                elif d.kind in ("assign", "walrus") and d.value is not None:
                    out |= self.classify_expr(f, d.node, d.value, _depth, seen)
                elif d.kind == "for":
                    out.add(ITER)
                else:
                    out.add(UNKNOWN)
            return out
        finally:
            seen.discard(key)

    # ------------------------------------------------------------------ expressions
    def classify_expr(self, f: FuncInfo, node: int, e: ast.AST, _depth: int = 0, _seen=None) -> set[str]:
        seen = _seen if _seen is not None else set()
        rec = lambda x: self.classify_expr(f, node, x, _depth, seen)
        if isinstance(e, ast.Name):
            return self.classify(f, node, e.id, _depth, seen)
        if isinstance(e, ast.Tuple):
            out: set[str] = set()
            for x in e.elts:
                out |= rec(x)
            return out or {FRESH}
        if isinstance(e, (ast.BinOp, ast.UnaryOp, ast.Compare, ast.BoolOp, ast.Constant, ast.List,
                          ast.ListComp, ast.Dict, ast.JoinedStr)):
            return {FRESH}
        if isinstance(e, ast.IfExp):
            return rec(e.body) | rec(e.orelse)
        if isinstance(e, ast.Subscript):
            base = rec(e.value)
            return base  # a basic slice is a view; fancy indexing would be fresh — stay conservative
        if isinstance(e, ast.Attribute):
            if e.attr == "values":
                return {READONLY}
            if e.attr in VIEW_ATTRS:
                return rec(e.value)
            d = dotted(e)
            if d is not None and d.startswith("self."):
                return {f"ATTR:{d}"}
            return rec(e.value)
        if isinstance(e, ast.Call):
            name = last_attr(e)
            fn = dotted(e.func)
            if isinstance(e.func, ast.Attribute) and name == "to_numpy":
                c = kw(e, "copy")
                if isinstance(c, ast.Constant) and c.value is True:
                    return {FRESH}
                return {READONLY}
            if isinstance(e.func, ast.Attribute) and name == "astype" and dotted(e.func.value) not in (
                    "np", "xp", "cp", "numpy", "cupy"):
                c = kw(e, "copy")
                if isinstance(c, ast.Constant) and c.value is False:
                    # astype(..., copy=False) returns the array itself when the dtype already matches
                    return rec(e.func.value) | {FRESH}
            if isinstance(e.func, ast.Attribute) and name in FRESH_METHODS and fn not in ("np.copy",):
                root = dotted(e.func.value)
                if root not in ("np", "xp", "cp", "numpy", "cupy"):
                    return {FRESH}
            if isinstance(e.func, ast.Attribute) and name in VIEW_METHODS and dotted(e.func.value) not in (
                    "np", "xp", "cp", "numpy", "cupy"):
                return rec(e.func.value)
            if name in VIEW_FUNCS and e.args:
                return rec(e.args[0])
            if name in ALLOCATORS or fn in ("self.__class__", "type(self)"):
                return {FRESH}
            if fn is not None:
                from ..model import ClassInfo
                if isinstance(self.repo.resolve_name(f.module, fn), ClassInfo):
                    return {FRESH}  # constructor
            # package function(s): follow the returns (class-hierarchy analysis for method calls)
            targets, skip_self = self.candidates(f, e)
            if targets and _depth < self.depth:
                res: set[str] = set()
                for target in targets:
                    tdf = self.df_of(target)
                    rets = self._returns(target)
                    if not rets:
                        res.add(FRESH)
                        continue
                    sself = skip_self and "staticmethod" not in target.decorators
                    for r in rets:
                        rn = tdf.cfg.node_of(r).idx
                        for c in self.classify_expr(target, rn, r.value, _depth + 1, seen):
                            if c.startswith("PARAM:"):
                                p = c[6:]
                                if sself and target.positional_params and p == target.positional_params[0]:
                                    res |= rec(e.func.value) if isinstance(e.func, ast.Attribute) else {UNKNOWN}
                                    continue
                                arg = self._arg_for(e, target, p, sself)
                                if arg is not None:
                                    res |= rec(arg)
                                elif p in target.positional_params and p not in target.defaults():
                                    res.add(UNKNOWN)
                                # else: an option with a default / **kwargs that the call does not pass
                            elif c.startswith("ATTR:") and isinstance(e.func, ast.Attribute):
                                res.add("OBJ:" + (dotted(e.func.value) or "?"))
                            else:
                                res.add(c)
                return res or {FRESH}
            # unknown callee: may return one of its arguments, else something new
            res = set()
            cands = list(e.args) + [k.value for k in e.keywords if k.arg is not None]
            if isinstance(e.func, ast.Call):
                res |= {c for c in rec(e.func) if c != FRESH}  # calling a returned object (an FFTW plan ...)
            scalar = self._scalar_params(f)
            df = self.df_of(f)
            for a in cands:
                if isinstance(a, (ast.Name, ast.Attribute, ast.Subscript)):
                    root = a
                    while isinstance(root, (ast.Attribute, ast.Subscript)):
                        root = root.value
                    if isinstance(root, ast.Name) and not df.reaching(node, root.id):
                        continue  # a global (function, module): not an array the call could hand back
                    if isinstance(a, ast.Name) and a.id in scalar:
                        continue  # a parameter annotated bool / str / int / float / dict
                    res |= {c for c in rec(a) if c != FRESH}
            res.add(FRESH)
            return res
        return {UNKNOWN}

    @staticmethod
    def _scalar_params(f: FuncInfo) -> set[str]:
        out = set()
        a = f.node.args
        for x in a.posonlyargs + a.args + a.kwonlyargs + ([a.kwarg] if a.kwarg else []) + ([a.vararg] if a.vararg else []):
            if x.annotation is not None and ast.unparse(x.annotation) in ("bool", "str", "int", "float", "dict",
                                                                          "Callable"):
                out.add(x.arg)
        if a.kwarg:
            out.add(a.kwarg.arg)
        return out

    @staticmethod
    def _arg_for(call: ast.Call, target: FuncInfo, param: str, skip_self: bool = False) -> Optional[ast.expr]:
        params = target.positional_params[1:] if skip_self else target.positional_params
        for p, a in zip(params, call.args):
            if p == param and not isinstance(a, ast.Starred):
                return a
        for k in call.keywords:
            if k.arg == param:
                return k.value
        return None
