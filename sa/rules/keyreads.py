"""Read sets for R-CACHEKEY (sa/rules/memo2.py): what a cached value reads of a parameter, what a key retains of it.

Three refinements of "parameter p occurs in the expression":

(a) value side, interprocedural: a parameter handed whole to a callee that resolves inside the package (a method of
    the same class, also through `cls.` / `Class.`, overriding methods of subclasses included, or a module-level
    function) reads what the callee reads of the bound parameter: attributes `q.a`, constant components `q[0]`,
    helper calls `h(q)` expanded the same way; anything else (stored, returned, passed to an unresolvable callee) is
    the whole parameter.
(b) key side: only lossless wrappers (copy, deepcopy, tuple, list, asarray, float ..., tuple concatenation) keep the
    whole of what they wrap; `len(p)`, `id(p)`, `np.round(p.a)`, `p[i]`, an unknown call `g(p)` retain *something*
    of p but not p; a helper `h(p)` that resolves is replaced by what it returns.
(c) element precision: when the value iterates over a collection reached from a parameter and reads from each
    element, the key must determine those reads element by element (see `decide`).
"""
from __future__ import annotations

import ast
import copy
from typing import Optional

from ..model import AnalysisError, ClassInfo, FuncInfo, ModuleInfo, call_name, norm_text, strip_docstring

WHOLE = "*"
MAX_DEPTH = 4
# wrappers that keep the whole of a scalar / sequence argument
LOSSLESS = {"copy", "deepcopy", "tuple", "list", "asarray", "array", "atleast_1d", "ascontiguousarray", "float", "int",
            "str", "repr", "complex", "bytes", "tobytes", "tolist", "cast"}
# wrappers that keep a collection element by element, in order
SEQ_LOSSLESS = {"copy", "deepcopy", "tuple", "list", "asarray", "array"}
# wrappers of an iterable that enumerate every element exactly once
ORDER_KEEPING = {"reversed", "enumerate", "iter", "tuple", "list"}
VALUE_ORDER = ORDER_KEEPING | {"sorted"}


def norm_attr(a: str) -> str:
    """x._valid_gpts is x.gpts after the "is it defined" check; x._gpts is its backing field."""
    return a[len("_valid_"):] if a.startswith("_valid_") else (a.lstrip("_") or a)


def _last(call: ast.Call) -> str:
    return (call_name(call) or "").split(".")[-1]


def _parent_map(root: ast.AST) -> dict[int, ast.AST]:
    out: dict[int, ast.AST] = {}
    for n in ast.walk(root):
        for c in ast.iter_child_nodes(n):
            out[id(c)] = n
    return out


def _is_static(m: FuncInfo) -> bool:
    return any(d.split(".")[-1] == "staticmethod" for d in m.decorators)


def path_of(e: ast.AST, binding: dict[str, str]) -> Optional[str]:
    if isinstance(e, ast.Name):
        return binding.get(e.id)
    if isinstance(e, ast.Attribute):
        b = path_of(e.value, binding)
        return None if b is None else f"{b}.{norm_attr(e.attr)}"
    return None


def elem_test(t: ast.AST, evar: str) -> Optional[tuple[str, bool]]:
    """(test id, polarity) for a test on the element itself: hasattr(e, 'a') / isinstance(e, T) / their negation."""
    if isinstance(t, ast.UnaryOp) and isinstance(t.op, ast.Not):
        r = elem_test(t.operand, evar)
        return None if r is None else (r[0], not r[1])
    if isinstance(t, ast.Call) and t.args and isinstance(t.args[0], ast.Name) and t.args[0].id == evar and not t.keywords:
        nm = _last(t)
        if nm == "hasattr" and len(t.args) == 2 and isinstance(t.args[1], ast.Constant) and \
                isinstance(t.args[1].value, str):
            return f"hasattr(·, {t.args[1].value!r})", True
        if nm == "isinstance" and len(t.args) == 2:
            return f"isinstance(·, {norm_text(t.args[1])})", True
    return None


def _hasattr_id(a: str) -> str:
    return f"hasattr(·, {a!r})"


def _mentions(e: ast.AST, name: str) -> bool:
    return any(isinstance(n, ast.Name) and n.id == name for n in ast.walk(e))


def _strip_order(e: ast.AST, allowed: set[str]) -> tuple[ast.AST, bool]:
    """Peel reversed()/enumerate()/list()... off an iterable: (inner, enumerated?)."""
    enum = False
    while isinstance(e, ast.Call) and _last(e) in allowed and len(e.args) >= 1 and \
            isinstance(e.func, (ast.Name, ast.Attribute)):
        if _last(e) == "enumerate":
            enum = True
        elif len(e.args) != 1 and _last(e) != "sorted":
            break
        e = e.args[0]
    return e, enum


def _elem_var(target: ast.AST, enum: bool) -> Optional[str]:
    if enum:
        if isinstance(target, ast.Tuple) and len(target.elts) == 2 and isinstance(target.elts[1], ast.Name):
            return target.elts[1].id
        return None
    return target.id if isinstance(target, ast.Name) else None


class ElemUse:
    """One iteration of the value over `collection`: the tests it makes on each element, what it reads on which arm."""

    def __init__(self, collection: str, where: str, text: str):
        self.collection, self.where, self.text = collection, where, text
        self.filters: frozenset = frozenset()
        self.tests: set[str] = set()
        self.reads: list[tuple[frozenset, str]] = []
        self.owner = self.binding = self.node = None

    def read(self, conds: frozenset, what: str) -> None:
        if (conds, what) not in self.reads:
            self.reads.append((conds, what))


class KeyComp:
    """A comprehension of the key over the collection: filter, tests it records per element, attributes it keeps."""

    def __init__(self, filters: frozenset, text: str):
        self.filters, self.text = filters, text
        self.tests: set[str] = set()
        self.undecided: set[str] = set()
        self.reads: list[tuple[frozenset, str]] = []
        self.narrowed: list[str] = []


class KeyCover:
    def __init__(self):
        self.full = False
        self.comps: list[KeyComp] = []
        self.partial: list[str] = []


class Reads:
    def __init__(self, repo):
        self.repo = repo
        self._pm: dict[int, dict[int, ast.AST]] = {}

    # ------------------------------------------------------------------ callee resolution
    def callees(self, f: FuncInfo, call: ast.Call) -> Optional[list[tuple[FuncInfo, int]]]:
        """Implementations a call may reach, each with the number of implicit leading parameters; None: unresolved."""
        repo, fn = self.repo, call.func
        try:
            if isinstance(fn, ast.Name):
                t = repo.resolve_name(f.module, fn.id)
                if isinstance(t, FuncInfo) and t.cls is None:
                    return [(t, 0)]
                return None
            if not (isinstance(fn, ast.Attribute) and isinstance(fn.value, ast.Name)):
                return None
            owner, cls, poly = fn.value.id, None, False
            if owner in ("self", "cls") and f.cls is not None:
                cls, poly = f.cls, True
            else:
                t = repo.resolve_name(f.module, owner)
                if isinstance(t, ClassInfo):
                    cls = t
                elif isinstance(t, ModuleInfo):
                    g = repo.resolve_name(t, fn.attr)
                    return [(g, 0)] if isinstance(g, FuncInfo) and g.cls is None else None
            if cls is None:
                return None
            impls = []
            base = cls.find_method(fn.attr)
            if base is not None:
                impls.append(base)
            if poly:
                for c in repo.subclasses(cls):
                    m = c.own_method(fn.attr, "getter")
                    if m is not None and m not in impls:
                        impls.append(m)
            impls = [m for m in impls if not m.is_abstract and not m.is_property]
            if not impls:
                return None
            return [(m, 0 if _is_static(m) else 1) for m in impls]
        except AttributeError:  # a stub repository (positive controls) resolves nothing
            return None

    @staticmethod
    def bind(call: ast.Call, m: FuncInfo, skip: int) -> Optional[dict[str, ast.expr]]:
        if any(isinstance(a, ast.Starred) for a in call.args) or any(k.arg is None for k in call.keywords):
            return None
        pos = m.positional_params[skip:]
        if len(call.args) > len(pos):
            return None
        out = dict(zip(pos, call.args))
        for k in call.keywords:
            if k.arg not in m.params:
                return None
            out[k.arg] = k.value
        return out

    def parents(self, root: ast.AST) -> dict[int, ast.AST]:
        pm = self._pm.get(id(root))
        if pm is None:
            pm = self._pm[id(root)] = _parent_map(root)
        return pm

    @staticmethod
    def _aliases(g_node: ast.AST, q: str) -> set[str]:
        al = {q}
        changed = True
        while changed:
            changed = False
            for st in ast.walk(g_node):
                if isinstance(st, ast.Assign) and len(st.targets) == 1 and isinstance(st.targets[0], ast.Name) and \
                        isinstance(st.value, ast.Name) and st.value.id in al and st.targets[0].id not in al:
                    al.add(st.targets[0].id)
                    changed = True
        return al

    # ------------------------------------------------------------------ (a) what a callee reads of a parameter
    def param_reads(self, g: FuncInfo, q: str, depth: int = 0, stack: tuple = ()) -> set:
        key = (id(g.node), q)
        if key in stack or depth > MAX_DEPTH:
            return {WHOLE}
        par = self.parents(g.node)
        al = self._aliases(g.node, q)
        out: set = set()
        for n in ast.walk(g.node):
            if not (isinstance(n, ast.Name) and n.id in al and isinstance(n.ctx, ast.Load)):
                continue
            p = par.get(id(n))
            if isinstance(p, ast.Attribute) and p.value is n:
                out.add("." + norm_attr(p.attr))
            elif isinstance(p, ast.Subscript) and p.value is n:
                out.add(p.slice.value if isinstance(p.slice, ast.Constant) and isinstance(p.slice.value, int) else WHOLE)
            elif isinstance(p, ast.Assign) and p.value is n and len(p.targets) == 1 and isinstance(p.targets[0], ast.Name):
                continue  # plain alias, followed above
            elif isinstance(p, ast.Call) and any(a is n for a in p.args):
                out |= self.arg_reads(g, p, n, depth, stack + (key,))
            elif isinstance(p, ast.keyword) and isinstance(par.get(id(p)), ast.Call):
                out |= self.arg_reads(g, par[id(p)], n, depth, stack + (key,))
            else:
                out.add(WHOLE)
        return out

    def arg_reads(self, g: FuncInfo, call: ast.Call, arg: ast.AST, depth: int = 0, stack: tuple = ()) -> set:
        """Components read of a parameter handed whole to `call` as `arg`."""
        nm = _last(call)
        if nm in ("hasattr", "getattr") and isinstance(call.func, ast.Name) and len(call.args) >= 2 and \
                call.args[0] is arg and isinstance(call.args[1], ast.Constant) and isinstance(call.args[1].value, str):
            return {"." + norm_attr(call.args[1].value)}
        impls = self.callees(g, call)
        if impls is None:
            return {WHOLE}
        out: set = set()
        for m, skip in impls:
            b = self.bind(call, m, skip)
            names = [k for k, v in (b or {}).items() if v is arg]
            if not names:
                return {WHOLE}
            for k in names:
                out |= self.param_reads(m, k, depth + 1, stack)
        return out

    # ------------------------------------------------------------------ (b) helpers in the key are what they return
    def expand_helpers(self, f: FuncInfo, e: ast.AST, params: set[str], depth: int = 0) -> ast.AST:
        """Replace `h(.. p ..)` (h a module-level function or static method of the package that only returns an
        expression of its parameters) by that expression."""
        me = self

        class X(ast.NodeTransformer):
            def visit_Call(self, node: ast.Call):
                self.generic_visit(node)
                if _last(node) in LOSSLESS or not any(isinstance(x, ast.Name) and x.id in params
                                                      for a in list(node.args) + [k.value for k in node.keywords]
                                                      for x in ast.walk(a)):
                    return node
                impls = me.callees(f, node)
                if impls is None or len(impls) != 1 or depth > 2:
                    return node
                m, skip = impls[0]
                if skip and not isinstance(node.func, ast.Attribute):
                    return node
                ret = me.return_expr(m)
                b = me.bind(node, m, skip)
                if ret is None or b is None:
                    raise AnalysisError(f"{f.qualname}: the key calls {m.qualname}, whose result cannot be written as "
                                        "one expression of its arguments")
                free = {x.id for x in ast.walk(ret) if isinstance(x, ast.Name)} & set(m.params)
                if not free <= set(b) | set(m.defaults()) or (skip and _mentions(ret, "self")):
                    raise AnalysisError(f"{f.qualname}: cannot bind the arguments of {m.qualname} used in the key")

                class S(ast.NodeTransformer):
                    def visit_Name(self, n: ast.Name):
                        if n.id in b and isinstance(n.ctx, ast.Load):
                            return copy.deepcopy(b[n.id])
                        return n

                return me.expand_helpers(f, S().visit(ret), params, depth + 1)

        return X().visit(e)

    @staticmethod
    def return_expr(m: FuncInfo) -> Optional[ast.AST]:
        """The returned expression of a function whose body is simple assignments followed by one return."""
        from .memo2 import _Inliner

        body = strip_docstring(m.node.body)
        if not body or not isinstance(body[-1], ast.Return) or body[-1].value is None:
            return None
        if not all(isinstance(st, (ast.Assign, ast.AnnAssign)) for st in body[:-1]):
            return None
        return _Inliner(m).visit(copy.deepcopy(body[-1].value))

    # ------------------------------------------------------------------ (c) value side: iterations over collections
    def collect_uses(self, f: FuncInfo, val_e: ast.AST, params: set[str]) -> list[ElemUse]:
        uses: list[ElemUse] = []
        self._scan(f, val_e, {p: p for p in params}, 0, False, uses, ())
        return uses

    def _bindings(self, root: ast.AST, binding: dict[str, str]) -> dict[str, str]:
        """Extend by single plain definitions `x = q` / `x = q.a` of locals."""
        if not isinstance(root, (ast.FunctionDef, ast.AsyncFunctionDef)):
            return binding
        stores: dict[str, int] = {}
        for n in ast.walk(root):
            if isinstance(n, ast.Name) and isinstance(n.ctx, ast.Store):
                stores[n.id] = stores.get(n.id, 0) + 1
        out = dict(binding)
        changed = True
        while changed:
            changed = False
            for st in ast.walk(root):
                if isinstance(st, ast.Assign) and len(st.targets) == 1 and isinstance(st.targets[0], ast.Name):
                    t = st.targets[0].id
                    if t in out or stores.get(t) != 1:
                        continue
                    p = path_of(st.value, out)
                    if p is not None:
                        out[t] = p
                        changed = True
        return out

    def _narrow_use(self, root: ast.AST, node: ast.AST, par: dict[int, ast.AST], depth: int = 0) -> bool:
        """Is the value of `node` only tested for emptiness / length?"""
        p = par.get(id(node))
        if isinstance(p, ast.Call) and _last(p) in ("len", "bool") and isinstance(p.func, ast.Name):
            return True
        if isinstance(p, ast.UnaryOp) and isinstance(p.op, ast.Not):
            return True
        if isinstance(p, (ast.If, ast.While, ast.IfExp)) and p.test is node:
            return True
        if isinstance(p, ast.BoolOp) and depth < 3:
            return self._narrow_use(root, p, par, depth + 1)
        if isinstance(p, ast.Assign) and p.value is node and len(p.targets) == 1 and isinstance(p.targets[0], ast.Name) \
                and depth < 2:
            x = p.targets[0].id
            stores = [n for n in ast.walk(root) if isinstance(n, ast.Name) and n.id == x and isinstance(n.ctx, ast.Store)]
            loads = [n for n in ast.walk(root) if isinstance(n, ast.Name) and n.id == x and isinstance(n.ctx, ast.Load)]
            return len(stores) == 1 and bool(loads) and all(self._narrow_use(root, n, par, depth + 1) for n in loads)
        return False

    def _scan(self, owner: FuncInfo, root: ast.AST, binding: dict[str, str], depth: int, narrow_ret: bool,
              uses: list[ElemUse], stack: tuple) -> None:
        key = (id(root), tuple(sorted(binding.items())), narrow_ret)
        if key in stack or depth > MAX_DEPTH:
            return
        stack = stack + (key,)
        binding = self._bindings(root, binding)
        par = _parent_map(root)
        in_return: set[int] = set()
        for n in ast.walk(root):
            if isinstance(n, ast.Return) and n.value is not None:
                in_return |= {id(x) for x in ast.walk(n.value)}
        for n in ast.walk(root):
            if isinstance(n, (ast.For, ast.AsyncFor)):
                self._iteration(owner, n.iter, n.target, binding, uses, body=n.body + n.orelse, comp=None, skip_elt=False,
                                stmt=n)
            elif isinstance(n, (ast.GeneratorExp, ast.ListComp, ast.SetComp, ast.DictComp)):
                g0 = n.generators[0]
                self._iteration(owner, g0.iter, g0.target, binding, uses, body=None, comp=n,
                                skip_elt=narrow_ret and id(n) in in_return)
            elif isinstance(n, ast.Call):
                args = [a for a in list(n.args) + [k.value for k in n.keywords] if path_of(a, binding) is not None]
                if not args:
                    continue
                impls = self.callees(owner, n)
                if impls is None:
                    continue
                narrow = self._narrow_use(root, n, par)
                for m, skip in impls:
                    b = self.bind(n, m, skip)
                    if b is None:
                        continue
                    nb = {k: path_of(v, binding) for k, v in b.items() if path_of(v, binding) is not None}
                    if nb:
                        self._scan(m, m.node, nb, depth + 1, narrow, uses, stack)

    def _iteration(self, owner: FuncInfo, it: ast.AST, target: ast.AST, binding: dict[str, str], uses: list[ElemUse],
                   body, comp, skip_elt: bool, stmt=None) -> None:
        inner, enum = _strip_order(it, VALUE_ORDER)
        filters: frozenset = frozenset()
        c = path_of(inner, binding)
        if c is None and isinstance(inner, ast.Call):
            # iteration over the result of a helper that passes the elements of a collection through a filter
            try:
                ex = self.expand_helpers(owner, copy.deepcopy(inner), set(binding))
            except AnalysisError:
                return
            ex2, _ = _strip_order(ex, SEQ_LOSSLESS)
            if isinstance(ex2, (ast.GeneratorExp, ast.ListComp)) and len(ex2.generators) == 1:
                g0 = ex2.generators[0]
                src, e2 = _strip_order(g0.iter, VALUE_ORDER)
                ev = _elem_var(g0.target, e2)
                fs = [elem_test(t, ev) for t in g0.ifs] if ev else [None]
                if ev and isinstance(ex2.elt, ast.Name) and ex2.elt.id == ev and all(x is not None for x in fs):
                    c = path_of(src, binding)
                    filters = frozenset(fs)
        if c is None:
            return
        evar = _elem_var(target, enum)
        use = ElemUse(c, owner.qualname, norm_text(it)[:60])
        use.owner, use.binding, use.node = owner, dict(binding), (stmt if stmt is not None else comp)
        if comp is None and evar is not None and len(body) == 1 and isinstance(body[0], ast.If) and not body[0].orelse \
                and elem_test(body[0].test, evar) is not None:
            # the loop does nothing for the elements that fail the test: it iterates over the filtered collection
            filters = filters | {elem_test(body[0].test, evar)}
        use.filters = filters
        use.tests |= {t for t, _ in filters}
        if evar is None:
            use.read(frozenset(), WHOLE)
        elif comp is not None:
            conds: frozenset = frozenset()
            fl = set(filters)
            for g in comp.generators:
                for t in g.ifs:
                    et = elem_test(t, evar)
                    if et is not None and g is comp.generators[0]:
                        fl.add(et)
                        use.tests.add(et[0])
                    else:
                        self._reads(t, evar, conds, use)
                if g is not comp.generators[0]:
                    self._reads(g.iter, evar, conds, use)
            use.filters = frozenset(fl)
            if not skip_elt:
                for e in ([comp.key, comp.value] if isinstance(comp, ast.DictComp) else [comp.elt]):
                    self._reads(e, evar, conds, use)
        else:
            self._walk(body, evar, frozenset(), use)
        uses.append(use)

    def _walk(self, stmts, evar: str, conds: frozenset, use: ElemUse) -> None:
        for st in stmts:
            if isinstance(st, ast.If):
                et = elem_test(st.test, evar)
                if et is not None:
                    use.tests.add(et[0])
                    self._walk(st.body, evar, conds | {et}, use)
                    self._walk(st.orelse, evar, conds | {(et[0], not et[1])}, use)
                else:
                    self._reads(st.test, evar, conds, use)
                    self._walk(st.body, evar, conds, use)
                    self._walk(st.orelse, evar, conds, use)
            elif isinstance(st, (ast.For, ast.AsyncFor, ast.While, ast.With, ast.AsyncWith, ast.Try)):
                for fld, val in ast.iter_fields(st):
                    if isinstance(val, list) and val and isinstance(val[0], ast.stmt):
                        self._walk(val, evar, conds, use)
                    elif isinstance(val, list):
                        for x in val:
                            if isinstance(x, ast.ExceptHandler):
                                self._walk(x.body, evar, conds, use)
                            elif isinstance(x, ast.AST):
                                self._reads(x, evar, conds, use)
                    elif isinstance(val, ast.AST):
                        self._reads(val, evar, conds, use)
            else:
                self._reads(st, evar, conds, use)

    def _reads(self, n: ast.AST, evar: str, conds: frozenset, use: ElemUse) -> None:
        if isinstance(n, ast.IfExp):
            et = elem_test(n.test, evar)
            if et is not None:
                use.tests.add(et[0])
                self._reads(n.body, evar, conds | {et}, use)
                self._reads(n.orelse, evar, conds | {(et[0], not et[1])}, use)
                return
        et = elem_test(n, evar)
        if et is not None:
            use.tests.add(et[0])
            return
        if isinstance(n, ast.Call) and _last(n) == "getattr" and isinstance(n.func, ast.Name) and len(n.args) >= 2 and \
                isinstance(n.args[0], ast.Name) and n.args[0].id == evar and isinstance(n.args[1], ast.Constant):
            a = str(n.args[1].value)
            if len(n.args) == 3:
                use.tests.add(_hasattr_id(a))
            use.read(conds | {(_hasattr_id(a), True)}, "." + a)
            for x in n.args[2:]:
                self._reads(x, evar, conds, use)
            return
        if isinstance(n, ast.Attribute) and isinstance(n.value, ast.Name) and n.value.id == evar:
            use.read(conds | {(_hasattr_id(n.attr), True)}, "." + n.attr)
            return
        if isinstance(n, ast.Name) and n.id == evar and isinstance(n.ctx, ast.Load):
            use.read(conds, WHOLE)
            return
        for c in ast.iter_child_nodes(n):
            self._reads(c, evar, conds, use)

    # ------------------------------------------------------------------ (c) key side
    def key_cover(self, key_e: ast.AST, collection: str, params: set[str]) -> KeyCover:
        binding = {p: p for p in params}
        kc = KeyCover()

        def mentions(n: ast.AST) -> bool:
            return any(path_of(x, binding) == collection for x in ast.walk(n))

        def visit(n: ast.AST, lossless: bool, ctx: str) -> None:
            if path_of(n, binding) == collection:
                if lossless:
                    kc.full = True
                else:
                    kc.partial.append(ctx)
                return
            if isinstance(n, (ast.Tuple, ast.List)):
                for x in n.elts:
                    visit(x, lossless, ctx)
                return
            if isinstance(n, ast.Starred):
                visit(n.value, lossless, ctx)
                return
            if isinstance(n, ast.BinOp) and isinstance(n.op, ast.Add):
                visit(n.left, lossless, ctx)
                visit(n.right, lossless, ctx)
                return
            if isinstance(n, ast.Call) and _last(n) in SEQ_LOSSLESS and len(n.args) == 1 and not n.keywords:
                visit(n.args[0], lossless, ctx)
                return
            if isinstance(n, (ast.GeneratorExp, ast.ListComp)) and len(n.generators) == 1:
                g0 = n.generators[0]
                src, enum = _strip_order(g0.iter, ORDER_KEEPING)
                filters: list = []
                ev = _elem_var(g0.target, enum)
                # a comprehension over a filtered pass-through comprehension of the collection
                while isinstance(src, (ast.GeneratorExp, ast.ListComp)) and len(src.generators) == 1 and ev is not None:
                    gi = src.generators[0]
                    isrc, ienum = _strip_order(gi.iter, ORDER_KEEPING)
                    iev = _elem_var(gi.target, ienum)
                    if iev is None or not (isinstance(src.elt, ast.Name) and src.elt.id == iev):
                        break
                    fs = [elem_test(t, iev) for t in gi.ifs]
                    if any(x is None for x in fs):
                        break
                    filters += fs
                    src, _ = _strip_order(isrc, ORDER_KEEPING)
                if path_of(src, binding) == collection:
                    text = norm_text(n)[:90]
                    if not lossless:
                        kc.partial.append(f"{ctx} of `{text}`")
                        return
                    if ev is None:
                        kc.partial.append(f"a comprehension that unpacks the elements (`{text}`)")
                        return
                    fs = [elem_test(t, ev) for t in g0.ifs]
                    if any(x is None for x in fs):
                        kc.partial.append(f"a comprehension filtered by a condition on element values (`{text}`)")
                        return
                    comp = KeyComp(frozenset(filters + fs), text)
                    self._elt_cover(n.elt, ev, frozenset(), comp)
                    kc.comps.append(comp)
                    return
            if not mentions(n):
                return
            if isinstance(n, ast.Call):
                what = f"{norm_text(n.func)}(…)"
            elif isinstance(n, ast.Subscript):
                what = "a subscript"
            elif isinstance(n, ast.Compare):
                what = "a comparison"
            else:
                what = type(n).__name__
            for c in ast.iter_child_nodes(n):
                visit(c, False, what if lossless else ctx)

        visit(key_e, True, "")
        return kc

    def _elt_cover(self, n: ast.AST, ev: str, conds: frozenset, comp: KeyComp) -> None:
        if isinstance(n, ast.Name) and n.id == ev:
            comp.reads.append((conds, WHOLE))
            return
        if isinstance(n, ast.Attribute) and isinstance(n.value, ast.Name) and n.value.id == ev:
            comp.reads.append((conds, "." + n.attr))
            return
        if isinstance(n, (ast.Tuple, ast.List)):
            for x in n.elts:
                self._elt_cover(x, ev, conds, comp)
            return
        if isinstance(n, ast.Constant) or not _mentions(n, ev):
            return
        et = elem_test(n, ev)
        if et is not None:
            comp.tests.add(et[0])
            return
        if isinstance(n, ast.Call):
            nm = _last(n)
            if nm == "getattr" and isinstance(n.func, ast.Name) and len(n.args) in (2, 3) and \
                    isinstance(n.args[0], ast.Name) and n.args[0].id == ev and isinstance(n.args[1], ast.Constant):
                comp.reads.append((conds, "." + str(n.args[1].value)))
                return
            if nm in SEQ_LOSSLESS | {"float", "int"} and len(n.args) == 1 and not n.keywords:
                self._elt_cover(n.args[0], ev, conds, comp)
                return
            comp.narrowed.append(norm_text(n)[:50])
            return
        if isinstance(n, ast.IfExp):
            et = elem_test(n.test, ev)
            if et is None:
                comp.undecided.add(f"`{norm_text(n.test)[:40]}`")
                comp.narrowed.append(norm_text(n)[:50])
                return
            d = self._distinguishable(n.body, n.orelse, ev)
            (comp.tests if d else comp.undecided).add(et[0])
            self._elt_cover(n.body, ev, conds | {et}, comp)
            self._elt_cover(n.orelse, ev, conds | {(et[0], not et[1])}, comp)
            return
        comp.narrowed.append(norm_text(n)[:50])

    @staticmethod
    def _distinguishable(a: ast.AST, b: ast.AST, ev: str) -> bool:
        """Can the two arms of a conditional element expression never be equal?  (decidable cases only)"""

        def whole(x):
            while isinstance(x, ast.Call) and _last(x) in ("copy", "deepcopy") and len(x.args) == 1:
                x = x.args[0]
            return isinstance(x, ast.Name) and x.id == ev

        def differ(x, y) -> bool:
            for u, v in ((x, y), (y, x)):
                if isinstance(v, ast.Constant) and not isinstance(v.value, tuple):
                    if isinstance(u, ast.Constant):
                        return u.value != v.value or type(u.value) is not type(v.value)
                    if isinstance(u, (ast.Tuple, ast.List)):
                        return True  # a tuple / list display never equals a scalar constant
                    if whole(u) and v.value is None:
                        return True  # the element satisfied a test that None fails
            if isinstance(x, ast.Tuple) and isinstance(y, ast.Tuple) and not any(
                    isinstance(e, ast.Starred) for e in x.elts + y.elts):
                if len(x.elts) != len(y.elts):
                    return True
                return any(differ(p, q) for p, q in zip(x.elts, y.elts))
            return False

        return differ(a, b)

    # ------------------------------------------------------------------ conditional key parts
    @staticmethod
    def nonempty_form(t: ast.AST) -> tuple[ast.AST, bool]:
        """(X, True) when the test holds iff X is non-empty, (X, False) when it holds iff X is empty."""
        if isinstance(t, ast.UnaryOp) and isinstance(t.op, ast.Not):
            x, pol = Reads.nonempty_form(t.operand)
            return x, not pol
        if isinstance(t, ast.Compare) and len(t.ops) == 1 and isinstance(t.left, ast.Constant) and not isinstance(
                t.comparators[0], ast.Constant):
            # `0 < len(x)`: read as `len(x) > 0`
            mirror = {ast.Lt: ast.Gt, ast.Gt: ast.Lt, ast.LtE: ast.GtE, ast.GtE: ast.LtE, ast.Eq: ast.Eq,
                      ast.NotEq: ast.NotEq}
            if type(t.ops[0]) in mirror:
                t = ast.Compare(left=t.comparators[0], ops=[mirror[type(t.ops[0])]()], comparators=[t.left])
        if isinstance(t, ast.Compare) and len(t.ops) == 1 and isinstance(t.comparators[0], ast.Constant) and \
                isinstance(t.left, ast.Call) and _last(t.left) == "len" and len(t.left.args) == 1:
            c, op = t.comparators[0].value, type(t.ops[0])
            if (op, c) in ((ast.Gt, 0), (ast.NotEq, 0), (ast.GtE, 1)):
                return t.left.args[0], True
            if (op, c) in ((ast.Eq, 0), (ast.Lt, 1), (ast.LtE, 0)):
                return t.left.args[0], False
        if isinstance(t, ast.Call) and isinstance(t.func, ast.Name) and t.func.id in ("len", "bool") and len(t.args) == 1:
            return Reads.nonempty_form(t.args[0]) if t.func.id == "bool" else (t.args[0], True)
        return t, True

    def view_of(self, owner: FuncInfo, x: ast.AST, binding: dict[str, str]) -> Optional[tuple[str, frozenset]]:
        """(collection, filter) when x is the collection or a pass of its elements through tests on the element."""
        from .memo2 import _Inliner

        try:
            e = self.expand_helpers(owner, _Inliner(owner).visit(copy.deepcopy(x)), set(binding))
        except AnalysisError:
            return None
        e, _ = _strip_order(e, SEQ_LOSSLESS)
        c = path_of(e, binding)
        if c is not None:
            return c, frozenset()
        if isinstance(e, (ast.GeneratorExp, ast.ListComp)) and len(e.generators) == 1:
            g0 = e.generators[0]
            src, enum = _strip_order(g0.iter, VALUE_ORDER)
            ev = _elem_var(g0.target, enum)
            fs = [elem_test(t, ev) for t in g0.ifs] if ev else [None]
            c = path_of(src, binding)
            if c is not None and all(f is not None for f in fs):
                return c, frozenset(fs)
        return None

    def guarded(self, use: ElemUse, collection: str, flt: frozenset) -> bool:
        """Is the iteration reached only when some element of the collection passes `flt`?  (an enclosing `if` on the
        non-emptiness of that view, or an earlier sibling `if <view is empty>: return / raise`)"""
        owner, node = use.owner, use.node
        if owner is None or node is None:
            return False

        def same(test: ast.AST, want: bool) -> bool:
            x, pol = self.nonempty_form(test)
            return pol == want and self.view_of(owner, x, use.binding) == (collection, flt)

        def search(stmts) -> Optional[bool]:
            for i, st in enumerate(stmts):
                if not any(x is node for x in ast.walk(st)):
                    continue
                for prev in stmts[:i]:
                    if isinstance(prev, ast.If) and not prev.orelse and prev.body and \
                            isinstance(prev.body[-1], (ast.Return, ast.Raise)) and same(prev.test, False):
                        return True
                if st is node:
                    return False
                if isinstance(st, ast.If):
                    inb = any(x is node for s2 in st.body for x in ast.walk(s2))
                    if any(x is node for x in ast.walk(st.test)):
                        return False
                    if same(st.test, inb):
                        return True
                    return bool(search(st.body if inb else st.orelse))
                for fld, val in ast.iter_fields(st):
                    if isinstance(val, list) and val and isinstance(val[0], ast.stmt) and \
                            any(x is node for s2 in val for x in ast.walk(s2)):
                        return bool(search(val))
                    if isinstance(val, list):
                        for h in val:
                            if isinstance(h, ast.ExceptHandler) and any(x is node for x in ast.walk(h)):
                                return bool(search(h.body))
                return False
            return None

        return bool(search(owner.node.body))

    def key_guards(self, f: FuncInfo, key: ast.AST, collection: str, params: set[str]):
        """Conditions under which the part of the key that covers the collection is added: [] when it is unconditional
        (or the key is a single expression), else the list [(test, polarity), ...] of the one covering definition."""
        from .memo2 import _Inliner

        if not isinstance(key, ast.Name):
            return []
        name = key.id
        sites: list[tuple[ast.AST, tuple]] = []
        probe = _Inliner(f, strict=True)

        def rec(stmts, ifs: tuple):
            for st in stmts:
                if isinstance(st, (ast.FunctionDef, ast.AsyncFunctionDef, ast.ClassDef)):
                    continue
                if name in probe.built and st is probe.built_loop.get(name):
                    sites.append((probe.built[name], ifs))
                    continue
                if isinstance(st, (ast.Assign, ast.AnnAssign, ast.AugAssign)) and getattr(st, "value", None) is not None:
                    tg = st.targets if isinstance(st, ast.Assign) else [st.target]
                    if any(isinstance(t, ast.Name) and t.id == name for t in tg) and name not in probe.built:
                        sites.append((st.value, ifs))
                if isinstance(st, ast.If):
                    rec(st.body, ifs + ((st.test, True),))
                    rec(st.orelse, ifs + ((st.test, False),))
                    continue
                for fld, val in ast.iter_fields(st):
                    if isinstance(val, list) and val and isinstance(val[0], ast.stmt):
                        rec(val, ifs)
                    elif isinstance(val, list):
                        for h in val:
                            if isinstance(h, ast.ExceptHandler):
                                rec(h.body, ifs)

        rec(f.node.body, ())
        covering = []
        for value, ifs in sites:
            inl = _Inliner(f, strict=True)
            inl.stack.append(name)
            if name in inl.built:
                del inl.built[name]
            e = self.expand_helpers(f, inl.visit(copy.deepcopy(value)), params)
            kc = self.key_cover(e, collection, params)
            if kc.full or kc.comps:
                covering.append(ifs)
        if not covering:
            if any(ifs for _, ifs in sites):
                raise AnalysisError(f"{f.qualname}: the definition of the key that covers {collection} was not located "
                                    "among its conditional definitions")
            return []
        if any(not ifs for ifs in covering):
            return []
        if len(covering) != 1:
            raise AnalysisError(f"{f.qualname}: {collection} enters the key in several conditional definitions")
        return list(covering[0])

    # ------------------------------------------------------------------ property-derived attributes
    def attr_sources(self, collection: str, a: str) -> Optional[set[str]]:
        """If the elements of the collection are annotated (`-> list[Base]` on every annotated getter of its name) and
        every class below Base that has `a` computes it as a property of its own fields: those fields."""
        name = collection.rsplit(".", 1)[-1]
        repo = self.repo
        bases = set()
        try:
            for c in repo.all_classes():
                for m in c.methods.get(name, []) + c.methods.get("_" + name, []):
                    r = m.node.returns
                    if not m.is_property or r is None:
                        continue
                    if isinstance(r, ast.Constant) and isinstance(r.value, str):
                        try:
                            r = ast.parse(r.value, mode="eval").body
                        except SyntaxError:
                            return None
                    if not (isinstance(r, ast.Subscript) and (norm_text(r.value).split(".")[-1].lower() in (
                            "list", "tuple", "sequence")) and isinstance(r.slice, (ast.Name, ast.Attribute, ast.Tuple))):
                        return None
                    el = r.slice.elts[0] if isinstance(r.slice, ast.Tuple) else r.slice
                    t = repo.resolve_name(m.module, norm_text(el))
                    if not isinstance(t, ClassInfo):
                        return None
                    bases.add(id(t))
                    base = t
            if len(bases) != 1:
                return None
            from .memo2 import _self_attrs

            out: set[str] = set()
            n = 0
            for c in repo.subclasses(base, strict=False):
                m = c.find_method(a)
                if m is None:
                    if a in c.annotations or a in c.class_attrs:
                        return None
                    continue
                if not m.is_property:
                    return None
                n += 1
                for st in m.body:
                    out |= {x.lstrip("_") for x in _self_attrs(m, st)}
            return out if n else None
        except AttributeError:
            return None


def _fmt_conds(conds: frozenset) -> str:
    if not conds:
        return "every element"
    return "elements with " + " and ".join(sorted((t if pol else f"not {t}") for t, pol in conds))


def decide(rd: Reads, use: ElemUse, kc: KeyCover) -> tuple[str, str]:
    """('ok' | 'violation' | 'undecided', explanation) for one iteration of the value against the key's coverage."""
    if kc.full:
        return "ok", "the key contains the collection itself"
    best: Optional[tuple[list[str], list[str], KeyComp]] = None
    for comp in kc.comps:
        if comp.filters and comp.filters != use.filters:
            continue  # built over another sub-collection: says nothing about the elements it drops
        same_filter = comp.filters == use.filters
        need_tests = set(use.tests) - ({t for t, _ in use.filters} if same_filter and comp.filters else set())
        missing: list[str] = []
        undec: list[str] = []
        keeps_element = any(not kconds and kwhat == WHOLE for kconds, kwhat in comp.reads)
        for t in sorted(need_tests):
            if t in comp.tests or keeps_element:  # the whole element decides every test on it
                continue
            (undec if t in comp.undecided else missing).append(f"the outcome of {t.replace('·', 'element')} per element")
        have_attrs = {w[1:] for _, w in comp.reads if w != WHOLE}
        for conds, what in use.reads:
            cv = conds | (use.filters if not comp.filters else frozenset())
            implied = {c for c in cv}
            ok = False
            for kconds, kwhat in comp.reads:
                if kconds <= implied and (kwhat == WHOLE or kwhat == what):
                    ok = True
            if not ok and what != WHOLE:
                src = rd.attr_sources(use.collection, what[1:])
                arm_attrs = {w[1:].lstrip("_") for kconds, w in comp.reads if w != WHOLE and kconds <= implied}
                if src is not None and src and src <= arm_attrs:
                    ok = True
            if not ok:
                shown = frozenset(c for c in cv if what == WHOLE or c[0] != _hasattr_id(what[1:]))
                missing.append(("the whole element" if what == WHOLE else f"`{what}`") + " of "
                               + (_fmt_conds(shown).replace("·", "element") if shown or what == WHOLE
                                  else "each element that has it"))
        if not missing and not undec:
            return "ok", f"covered element by element by `{comp.text}`"
        cand = (missing, undec, comp)
        if best is None or (len(cand[0]), len(cand[1])) < (len(best[0]), len(best[1])):
            best = cand
    if best is not None:
        missing, undec, comp = best
        if missing:
            kept = sorted({w for _, w in comp.reads if w != WHOLE}) + sorted(set(comp.narrowed))
            return "violation", (f"the value reads {', '.join(dict.fromkeys(missing))}, which the key's element expression "
                                 f"does not retain (it keeps {', '.join(kept) or 'nothing of the element'})")
        return "undecided", (f"cannot decide whether the element expression `{comp.text}` of the key distinguishes "
                             f"{', '.join(undec)}")
    others = [c for c in kc.comps if c.filters and c.filters != use.filters]
    if others:
        flt = " and ".join(sorted((t if pol else f"not {t}") for t, pol in others[0].filters)).replace("·", "element")
        return "violation", (f"the key is built over the sub-collection of elements with {flt} only, so elements that "
                             "fail the filter leave no trace in it, while the value "
                             + ("visits every element" if not use.filters else "selects elements differently")
                             + (f" and distinguishes {', '.join(sorted(use.tests)).replace('·', 'element')}"
                                if use.tests else ""))
    if kc.partial:
        return "violation", ("the key contains the collection only through " + ", ".join(dict.fromkeys(kc.partial))
                             + ", which does not determine what the value reads from each element")
    return "absent", "the collection does not occur in the key"
