"""R-FLAGS — the per-slice exit-plane flags are the indicator function of the exit-plane indices.

`BaseField._exit_plane_after` turns the sorted tuple E of exit-plane indices (optionally led by the entrance
plane -1) into a boolean array F over the slices; `generate_slices` hands F[i] to multislice_and_detect, which
records a measurement after slice i iff F[i].  The series is consistent with truncated simulations only if

    F[i]  <=>  i in E   (i >= 0)

The function is read as a *merge walk*: a pointer p into E and a loop `for i in range(number of slices)`;

  (init)     p starts at 1 when E[0] is the entrance plane and at 0 otherwise (the entrance plane is not a slice:
             if the pointer stays on it no slice ever matches and no exit plane is recorded at all),
  (match)    slice i is flagged under the test `i == E[p]` (an equality between the loop index and the element the
             pointer designates),
  (bound)    E[p] is only evaluated under `p < len(E)` — strictly: explicit exit planes may end before the last
             slice, then p reaches len(E) while slices remain; a looser bound reads past the end, a tighter one
             never flags the last plane(s),
  (store)    the flag stored is True and it is stored at the loop index (or at E[p] before p advances),
  (advance)  every path through the matching arm advances p by exactly one, and p is advanced nowhere else in
             the loop.

Every comparison is decided on normal forms (`len(E) > p`, `p + 1 <= len(E)`, `E[p] == i`, nested ifs instead of
`and`, `p = p + 1`, a conditional expression for the initial pointer ... are all the same walk).  A function that is
not a merge walk (e.g. `F[list(E)] = True`) is not read: AnalysisError.
"""
from __future__ import annotations

import ast
from typing import Optional

from ..cfg import DataFlow
from ..model import AnalysisError, FuncInfo, call_name, dotted, norm_text, walk_no_nested
from ..terms import Normalizer, Poly

LEN_E = "len(E)"


def _int_const(e: ast.AST) -> Optional[int]:
    p = Normalizer().norm(e)
    v = p.const_value()
    if v is not None and v.denominator == 1 and not (isinstance(e, ast.Constant) and isinstance(e.value, (bool, str))):
        return int(v)
    return None


class MergeWalk:
    def __init__(self, f: FuncInfo, planes_attr: str = "exit_planes"):
        self.f = f
        self.attr = planes_attr
        self.df = DataFlow(f.node)
        # locals that are plain aliases of <obj>.exit_planes (single assignment in the function)
        self.aliases: set[str] = set()
        assigned: dict[str, list[ast.AST]] = {}
        for st in walk_no_nested(f.node):
            if isinstance(st, ast.Assign):
                for t in st.targets:
                    if isinstance(t, ast.Name):
                        assigned.setdefault(t.id, []).append(st.value)
            elif isinstance(st, (ast.AugAssign, ast.AnnAssign)) and isinstance(st.target, ast.Name):
                assigned.setdefault(st.target.id, []).append(st)
            elif isinstance(st, ast.For):
                for n in ast.walk(st.target):
                    if isinstance(n, ast.Name):
                        assigned.setdefault(n.id, []).append(st)
        for name, vals in assigned.items():
            if len(vals) == 1 and self._is_planes_attr(vals[0]):
                self.aliases.add(name)
        self.assigned = assigned

    # ------------------------------------------------------------------ recognisers
    def _is_planes_attr(self, e: ast.AST) -> bool:
        if isinstance(e, ast.Call) and call_name(e) in ("tuple", "list") and len(e.args) == 1:
            e = e.args[0]
        return isinstance(e, ast.Attribute) and e.attr == self.attr

    def is_planes(self, e: ast.AST) -> bool:
        return self._is_planes_attr(e) or (isinstance(e, ast.Name) and e.id in self.aliases)

    def norm(self, e: ast.AST) -> Poly:
        def hook(nz, c: ast.Call):
            if call_name(c) == "len" and len(c.args) == 1 and self.is_planes(c.args[0]):
                return Poly.atom(LEN_E)
            return None
        return Normalizer(call_hook=hook).norm(e)

    def entrance_test(self, t: ast.AST) -> Optional[bool]:
        """True for `E[0] == -1`, False for `E[0] != -1`, None for anything else."""
        if isinstance(t, ast.Compare) and len(t.ops) == 1 and isinstance(t.ops[0], (ast.Eq, ast.NotEq)):
            sides = [t.left, t.comparators[0]]
            sub = [s for s in sides if isinstance(s, ast.Subscript) and self.is_planes(s.value)
                   and _int_const(s.slice) == 0]
            other = [s for s in sides if not (isinstance(s, ast.Subscript) and self.is_planes(s.value))]
            if len(sub) == 1 and len(other) == 1 and _int_const(other[0]) == -1:
                return isinstance(t.ops[0], ast.Eq)
        return None

    def step_of(self, st: ast.stmt, var: str) -> Optional[int]:
        """k when `st` is `var += k` / `var = var + k` (k an integer constant)."""
        if isinstance(st, ast.AugAssign) and isinstance(st.target, ast.Name) and st.target.id == var:
            k = _int_const(st.value)
            if k is None:
                return None
            return k if isinstance(st.op, ast.Add) else -k if isinstance(st.op, ast.Sub) else None
        if isinstance(st, ast.Assign) and len(st.targets) == 1 and isinstance(st.targets[0], ast.Name) \
                and st.targets[0].id == var:
            d = Normalizer().norm(st.value) - Poly.atom(var)
            v = d.const_value()
            if v is not None and v.denominator == 1:
                return int(v)
        return None

    # ------------------------------------------------------------------ initial pointer
    def initial_pointer(self, body: list[ast.stmt], var: str, state):
        """Abstract value of `var` after `body`: (value when E[0] is the entrance plane, value otherwise); each
        component an int or None (not assigned yet).  Raises AnalysisError on anything else that defines `var`."""
        for st in body:
            defines = any(isinstance(n, ast.Name) and n.id == var and isinstance(n.ctx, ast.Store) for n in ast.walk(st))
            if not defines:
                continue
            if isinstance(st, ast.If):
                pol = self.entrance_test(st.test)
                if pol is None:
                    raise AnalysisError(f"{self.f.qualname}: `{var}` is set under `{norm_text(st.test)[:60]}`, which "
                                        "is not the entrance-plane test")
                a = self.initial_pointer(st.body, var, state)
                b = self.initial_pointer(st.orelse, var, state)
                if not pol:
                    a, b = b, a
                state = (a[0], b[1])
                continue
            k = self.step_of(st, var)
            if k is not None:
                if state[0] is None or state[1] is None:
                    raise AnalysisError(f"{self.f.qualname}: `{var}` advanced before it is initialised")
                state = (state[0] + k, state[1] + k)
                continue
            if isinstance(st, ast.Assign) and len(st.targets) == 1 and isinstance(st.targets[0], ast.Name):
                v = st.value
                c = _int_const(v)
                if c is not None:
                    state = (c, c)
                    continue
                if isinstance(v, ast.IfExp) and self.entrance_test(v.test) is not None:
                    a, b = _int_const(v.body), _int_const(v.orelse)
                    if a is not None and b is not None:
                        state = (a, b) if self.entrance_test(v.test) else (b, a)
                        continue
                if isinstance(v, ast.Call) and call_name(v) == "int" and len(v.args) == 1 and \
                        self.entrance_test(v.args[0]) is not None:
                    state = (1, 0) if self.entrance_test(v.args[0]) else (0, 1)
                    continue
            raise AnalysisError(f"{self.f.qualname}: cannot read `{norm_text(st)[:70]}` as an initialisation of the "
                                f"exit-plane pointer `{var}`")
        return state


def _count_paths(body: list[ast.stmt], pred) -> set[int]:
    cur = {0}
    for st in body:
        if pred(st):
            step = {1}
        elif isinstance(st, ast.If):
            step = _count_paths(st.body, pred) | _count_paths(st.orelse, pred)
        elif isinstance(st, (ast.For, ast.While)):
            inner = _count_paths(st.body, pred)
            step = {0} if inner == {0} else {0, 1, 2}
        elif isinstance(st, ast.With):
            step = _count_paths(st.body, pred)
        elif isinstance(st, ast.Try):
            step = _count_paths(st.body, pred) | {c for h in st.handlers for c in _count_paths(h.body, pred)}
        else:
            step = {0}
        cur = {min(a + b, 2) for a in cur for b in step}
    return cur


def check(ctx, f: FuncInfo, rule: str = "R-FLAGS") -> None:
    mw = MergeWalk(f)
    q = f.qualname
    rets = [r for r in walk_no_nested(f.node) if isinstance(r, ast.Return) and r.value is not None]
    ctx.require(len(rets) == 1 and isinstance(rets[0].value, ast.Name), f"{q}: expected a single `return <flags>`")
    F = rets[0].value.id
    creations = [v for v in mw.assigned.get(F, []) if isinstance(v, ast.expr)]
    ctx.require(len(mw.assigned.get(F, [])) == 1 and len(creations) == 1 and isinstance(creations[0], ast.Call),
                f"{q}: the flag array `{F}` is not created exactly once")
    cr = creations[0]
    cn = (call_name(cr) or "").split(".")[-1]
    all_false = False
    if cn == "zeros" and cr.args:
        dt = cr.args[1] if len(cr.args) > 1 else next((k.value for k in cr.keywords if k.arg == "dtype"), None)
        all_false = dt is not None and norm_text(dt).split(".")[-1] in ("bool", "bool_")
    elif cn == "full" and len(cr.args) >= 2:
        all_false = isinstance(cr.args[1], ast.Constant) and cr.args[1].value is False
    ctx.require(all_false, f"{q}: the flag array is not created as an all-False boolean array")
    size = cr.args[0]

    # ---- stores into the flag array and the loop around them
    parents: dict[int, ast.AST] = {}
    for n in ast.walk(f.node):
        for c in ast.iter_child_nodes(n):
            parents[id(c)] = n
    stores = [st for st in walk_no_nested(f.node) if isinstance(st, ast.Assign) and len(st.targets) == 1
              and isinstance(st.targets[0], ast.Subscript) and isinstance(st.targets[0].value, ast.Name)
              and st.targets[0].value.id == F]
    other_writes = [st for st in walk_no_nested(f.node) if isinstance(st, ast.AugAssign)
                    and F in {n.id for n in ast.walk(st.target) if isinstance(n, ast.Name)}]
    ctx.require(len(stores) == 1 and not other_writes,
                f"{q}: expected exactly one store `{F}[...] = ...` (found {len(stores)}): not a merge walk")
    store = stores[0]
    chain = []  # (If, polarity) from the outside in, up to the loop
    loop = None
    cur: ast.AST = store
    while id(cur) in parents:
        par = parents[id(cur)]
        if isinstance(par, ast.If):
            chain.append((par, any(cur is s for s in par.body)))
        elif isinstance(par, (ast.For, ast.While)):
            loop = par
            break
        elif isinstance(par, (ast.FunctionDef, ast.AsyncFunctionDef)):
            break
        cur = par
    chain.reverse()
    ctx.require(isinstance(loop, ast.For) and isinstance(loop.target, ast.Name) and isinstance(loop.iter, ast.Call)
                and call_name(loop.iter) == "range" and len(loop.iter.args) == 1 and not loop.orelse,
                f"{q}: the store into the flag array is not inside `for i in range(n)`: not a merge walk")
    ivar = loop.target.id
    ctx.require(all(pol for _, pol in chain), f"{q}: the flag is stored in an else arm: not read")

    def size_poly(e: ast.AST) -> Poly:
        if isinstance(e, ast.Call) and call_name(e) == "len" and len(e.args) == 1 and isinstance(e.args[0], ast.Name) \
                and e.args[0].id == F:
            e = size
        return Normalizer().norm(e)
    ctx.check(size_poly(loop.iter.args[0]) == size_poly(size), rule, f"{q}:all-slices", f.loc(loop),
              f"the walk visits every slice: range({norm_text(loop.iter.args[0])}) over an array of "
              f"{norm_text(size)} flags",
              f"the walk runs over range({norm_text(loop.iter.args[0])}) but the flag array has {norm_text(size)} "
              "entries: slices outside the range are never flagged", key_detail="all-slices")

    # ---- conjuncts in evaluation order
    conj: list[tuple[ast.expr, ast.If]] = []
    for i, _ in chain:
        vals = i.test.values if isinstance(i.test, ast.BoolOp) and isinstance(i.test.op, ast.And) else [i.test]
        for v in vals:
            conj.append((v, i))

    def planes_elem(e: ast.AST) -> Optional[str]:
        if isinstance(e, ast.Subscript) and mw.is_planes(e.value) and isinstance(e.slice, ast.Name):
            return e.slice.id
        return None

    match = None  # (position, compare, pointer name, If)
    for k, (c, i) in enumerate(conj):
        if isinstance(c, ast.Compare) and len(c.ops) == 1:
            sides = [c.left, c.comparators[0]]
            ptrs = [planes_elem(s) for s in sides]
            if any(p is not None for p in ptrs) and any(isinstance(s, ast.Name) and s.id == ivar for s in sides):
                match = (k, c, next(p for p in ptrs if p is not None), i)
                break
    ctx.require(match is not None, f"{q}: no test relating the slice index `{ivar}` to an element E[p] of the exit "
                "planes guards the store: not a merge walk")
    mpos, mcmp, pvar, mif = match
    ctx.check(isinstance(mcmp.ops[0], ast.Eq), rule, f"{q}:match", f.loc(mcmp),
              "slice i is flagged under `i == E[p]`",
              f"slice i is flagged under `{norm_text(mcmp)}`: a slice is marked as an exit plane when it is NOT the "
              "plane the pointer designates — measurements are recorded after the wrong slices", key_detail="match")

    # ---- (bound)
    P, L = Poly.atom(pvar), Poly.atom(LEN_E)
    bound = None  # (compare, c) meaning p < len(E) + c
    for k, (c, _) in enumerate(conj[:mpos]):
        if not (isinstance(c, ast.Compare) and len(c.ops) == 1):
            continue
        a, b, op = mw.norm(c.left), mw.norm(c.comparators[0]), c.ops[0]
        if isinstance(op, (ast.Gt, ast.GtE)):
            a, b = b, a
        d = b - a  # a < b  or  a <= b
        if isinstance(op, (ast.Lt, ast.Gt, ast.LtE, ast.GtE)):
            kc = (d - (L - P)).const_value()
            if kc is not None and kc.denominator == 1:
                bound = (c, int(kc) + (1 if isinstance(op, (ast.LtE, ast.GtE)) else 0))
        elif isinstance(op, ast.NotEq):
            if d == L - P or d == P - L:
                bound = (c, 0)
    ctx.require(bound is not None, f"{q}: `E[{pvar}]` is evaluated without a recognisable bound `{pvar} < len(E)` "
                "evaluated before it: cannot decide that the walk stays inside the exit planes")
    bc, slack = bound
    ctx.check(slack == 0, rule, f"{q}:bound", f.loc(bc), f"E[p] is read only under `{norm_text(bc)}` (p < len(E))",
              f"E[p] is read under `{norm_text(bc)}`, i.e. p < len(E) {'+' if slack > 0 else '-'} {abs(slack)}: "
              + ("once the last exit plane has been passed the pointer equals len(E) and E[p] is read past the end "
                 "(IndexError for explicit exit planes that end before the last slice)" if slack > 0 else
                 "the last exit plane(s) are never flagged"), key_detail="bound")

    # ---- (store)
    idx = store.targets[0].slice
    is_true = isinstance(store.value, ast.Constant) and store.value.value in (True, 1) and \
        not isinstance(store.value.value, float)
    at_i = isinstance(idx, ast.Name) and idx.id == ivar
    at_ep = planes_elem(idx) == pvar
    if at_ep:
        # the element must be read before the pointer advances
        arm = mif.body
        pos_store = next((k for k, s in enumerate(arm) if any(n is store for n in ast.walk(s))), None)
        pos_inc = [k for k, s in enumerate(arm) if any(isinstance(n, ast.stmt) and mw.step_of(n, pvar) is not None
                                                        for n in ast.walk(s))]
        ctx.require(pos_store is not None and all(pos_store < k for k in pos_inc),
                    f"{q}: `{norm_text(store)}` after the pointer advanced: not read")
    ctx.check(is_true and (at_i or at_ep), rule, f"{q}:store", f.loc(store),
              f"the matching slice gets the flag True (`{norm_text(store)}`)",
              f"`{norm_text(store)}` does not set the flag of the matching slice to True", key_detail="store")

    # ---- (advance)
    writes_p = [st for st in ast.walk(loop) if isinstance(st, ast.stmt) and not isinstance(st, (ast.If, ast.For, ast.While))
                and any(isinstance(n, ast.Name) and n.id == pvar and isinstance(n.ctx, ast.Store) for n in ast.walk(st))]
    for st in writes_p:
        ctx.require(mw.step_of(st, pvar) is not None, f"{q}: `{norm_text(st)[:60]}` is not a constant step of the pointer")
    in_arm = {id(n) for s in mif.body for n in ast.walk(s)}
    outside = [st for st in writes_p if id(st) not in in_arm]
    counts = _count_paths(mif.body, lambda s: mw.step_of(s, pvar) is not None)
    steps = {mw.step_of(st, pvar) for st in writes_p}
    good = counts == {1} and not outside and steps == {1}
    ctx.check(good, rule, f"{q}:advance", f.loc(mif),
              "every path through the matching arm advances the pointer by one; it is advanced nowhere else",
              ("the pointer into the exit planes is advanced outside the matching arm" if outside else
               f"paths through the matching arm advance the pointer {sorted(counts)} times (steps {sorted(steps)}): "
               + ("after the first match the pointer stays on the same plane, no later exit plane is ever flagged"
                  if counts == {0} or not writes_p else "exit planes are skipped")), key_detail="advance")

    # ---- (init)
    pre: list[ast.stmt] = []
    top = loop
    while id(top) in parents and not isinstance(parents[id(top)], (ast.FunctionDef, ast.AsyncFunctionDef)):
        top = parents[id(top)]
    ctx.require(top in f.node.body, f"{q}: the walk is not at the top level of the function")
    ctx.require(top is loop, f"{q}: the walk is nested in another statement: initial pointer not read")
    pre = f.node.body[:f.node.body.index(top)]
    after = f.node.body[f.node.body.index(top) + 1:]
    ctx.require(not any(isinstance(n, ast.Name) and n.id == pvar and isinstance(n.ctx, ast.Store)
                        for s in after for n in ast.walk(s)), f"{q}: pointer written after the walk")
    init = mw.initial_pointer(pre, pvar, (None, None))
    ctx.require(init[0] is not None and init[1] is not None, f"{q}: the pointer `{pvar}` is not initialised on every "
                "path before the walk")
    ctx.check(init == (1, 0), rule, f"{q}:init", f.loc(loop),
              "the pointer starts behind the entrance plane (1 if E[0] == -1 else 0)",
              f"the pointer starts at {init[0]} when E[0] is the entrance plane -1 and at {init[1]} otherwise "
              "(expected 1 and 0): " + ("the pointer stays on the entrance plane, which no slice index equals, so no "
                                        "slice is ever flagged and only the entrance plane is recorded"
                                        if init[0] == 0 else "exit planes are skipped"), key_detail="init")
