"""Path-enumerating symbolic execution of loop-free function bodies over the Poly term domain.

Used by the transfer-function checks (C21, C23).  Every simple local assignment is tracked in a
per-path environment  name -> Poly, so no reaching-definition query is needed: the value of a name
at a program point *on that path* is its environment entry (parameters and untracked names are
opaque atoms).  `if` statements fork the path (or are forced by a policy callback); every `return`
produces a PathResult carrying the branch decisions taken, the environment and the returned term.

Extra term constructors on top of sa/terms.py:
  * `D["KEY"]` where D is a recognised coefficient mapping      -> atom  §KEY
  * cos(x) / sin(x)                                             -> atoms cos⟨x⟩ / sin⟨x⟩ with the argument in
    normal form and its overall sign canonicalised (cos even, sin odd); `trig[atom] = (kind, Poly)`
  * zeros(...) / zeros_like(...) -> 0,   ones(...) / ones_like(...) -> 1
  * shape-only calls (expand_dims, asarray, array, astype, broadcast_to, squeeze) are identities
"""
from __future__ import annotations

import ast
from dataclasses import dataclass
from typing import Callable, Optional

from ..model import AnalysisError, dotted, last_attr
from ..terms import Normalizer, Poly

PARAMS_MARK = "⟪coefficients⟫"
SHAPE_ONLY = {"expand_dims", "asarray", "array", "broadcast_to", "squeeze", "ascontiguousarray", "float32",
              "float64", "float", "copy"}


class EnvNorm(Normalizer):
    def __init__(self, env: dict[str, Poly], trig: dict[str, tuple[str, Poly]],
                 call_hook: Optional[Callable[["EnvNorm", ast.Call], Optional[Poly]]] = None):
        super().__init__()
        self.env = env
        self.trig = trig
        self.user_hook = call_hook
        self.reads: list[str] = []

    def _name(self, name: str) -> Poly:
        if name in self.env:
            return self.env[name]
        return Poly.atom(name)

    def norm(self, n: ast.AST) -> Poly:
        if isinstance(n, ast.Subscript):
            base = self.norm(n.value)
            if base == Poly.atom(PARAMS_MARK):
                if isinstance(n.slice, ast.Constant) and isinstance(n.slice.value, str):
                    self.reads.append(n.slice.value)
                    return Poly.atom("§" + n.slice.value)
                raise AnalysisError("coefficient mapping indexed with a non-literal key")
            # indexing commutes with scaling:  (c*x)[i] == c*(x[i])
            if base.is_monomial() and not base.is_const():
                (mono, coef), = base.terms.items()
                if len(mono) == 1 and mono[0][1] == 1:
                    return Poly.const(coef) * Poly.atom(f"{mono[0][0]}[{self._slice_key(n.slice)}]")
        return super().norm(n)

    def _call(self, n: ast.Call) -> Poly:
        if self.user_hook is not None:
            r = self.user_hook(self, n)
            if r is not None:
                return r
        short = last_attr(n)
        if short in ("cos", "sin") and len(n.args) == 1 and not n.keywords:
            p = self.norm(n.args[0])
            flip = False
            if p.terms:
                lead = sorted(p.terms, key=lambda m: [(a, float(e)) for a, e in m])[0]
                if p.terms[lead] < 0:
                    p, flip = -p, True
            name = f"{short}⟨{p.key()}⟩"
            self.trig[name] = (short, p)
            r = Poly.atom(name)
            return -r if (flip and short == "sin") else r
        if short in ("zeros", "zeros_like"):
            return Poly.const(0)
        if short in ("ones", "ones_like"):
            return Poly.const(1)
        if short in SHAPE_ONLY and n.args:
            return self.norm(n.args[0])
        if short == "get" and isinstance(n.func, ast.Attribute) and n.args and \
                self.norm(n.func.value) == Poly.atom(PARAMS_MARK):
            k = n.args[0]
            if isinstance(k, ast.Constant) and isinstance(k.value, str):
                self.reads.append(k.value)
                return Poly.atom("§" + k.value)
        return super()._call(n)


@dataclass
class PathResult:
    conds: list[tuple[ast.expr, bool]]
    env: dict[str, Poly]
    value: Optional[Poly]  # returned term (None for `return` without value)
    stmt: Optional[ast.Return]


class SymExec:
    """policy(if_stmt, env) -> 'both' | 'true' | 'false'."""

    def __init__(self, func: ast.FunctionDef, *, policy: Optional[Callable[[ast.If, dict], str]] = None,
                 call_hook=None, is_param_dict: Optional[Callable[[ast.expr, dict], bool]] = None,
                 positional_identity: tuple[str, ...] = ("expand_dims_to_broadcast",),
                 on_stmt: Optional[Callable[[ast.stmt, dict, list], None]] = None,
                 after_bind: Optional[Callable[[str, Poly], Optional[Poly]]] = None, max_paths: int = 512):
        self.func = func
        self.policy = policy or (lambda st, env: "both")
        self.call_hook = call_hook
        self.is_param_dict = is_param_dict or (lambda v, env: False)
        self.positional_identity = positional_identity
        self.on_stmt = on_stmt
        self.after_bind = after_bind
        self.trig: dict[str, tuple[str, Poly]] = {}
        self.results: list[PathResult] = []
        self.fallthrough: list[PathResult] = []
        self.reads: list[str] = []
        self.max_paths = max_paths
        self._fresh = 0

    def normalizer(self, env: dict[str, Poly]) -> EnvNorm:
        return EnvNorm(env, self.trig, self.call_hook)

    def norm(self, expr: ast.AST, env: dict[str, Poly]) -> Poly:
        nz = self.normalizer(env)
        p = nz.norm(expr)
        self.reads += nz.reads
        return p

    def run(self) -> list[PathResult]:
        body = list(self.func.body)
        self._block(body, {}, [], lambda env, conds: self.fallthrough.append(PathResult(conds, env, None, None)))
        return self.results

    # ------------------------------------------------------------------
    def _opaque(self, name: str) -> Poly:
        self._fresh += 1
        return Poly.atom(f"{name}′{self._fresh}")

    def _block(self, body: list[ast.stmt], env: dict, conds: list, cont) -> None:
        if len(self.results) + len(self.fallthrough) > self.max_paths:
            raise AnalysisError("path explosion in symbolic execution")
        if not body:
            cont(env, conds)
            return
        st, rest = body[0], body[1:]
        if self.on_stmt is not None:
            self.on_stmt(st, env, conds)
        if isinstance(st, ast.Return):
            v = self.norm(st.value, env) if st.value is not None else None
            self.results.append(PathResult(list(conds), dict(env), v, st))
            return
        if isinstance(st, ast.Raise):
            return
        if isinstance(st, ast.If):
            mode = self.policy(st, env)
            if mode in ("both", "true"):
                self._block(st.body, dict(env), conds + [(st.test, True)],
                            lambda e, c: self._block(rest, e, c, cont))
            if mode in ("both", "false"):
                self._block(st.orelse, dict(env), conds + [(st.test, False)],
                            lambda e, c: self._block(rest, e, c, cont))
            return
        if isinstance(st, (ast.For, ast.While, ast.With, ast.Try)):
            for n in ast.walk(st):
                if isinstance(n, ast.Return):
                    raise AnalysisError(f"{self.func.name}: return inside a loop/with/try is not modelled")
            env = dict(env)
            for n in ast.walk(st):
                if isinstance(n, ast.Name) and isinstance(n.ctx, ast.Store):
                    env[n.id] = self._opaque(n.id)
            self._block(rest, env, conds, cont)
            return
        env = dict(env)
        self._simple(st, env)
        self._block(rest, env, conds, cont)

    def _simple(self, st: ast.stmt, env: dict) -> None:
        if isinstance(st, ast.AnnAssign) and st.value is not None:
            st = ast.Assign(targets=[st.target], value=st.value)
        if isinstance(st, ast.Assign):
            for t in st.targets:
                self._assign(t, st.value, env)
        elif isinstance(st, ast.AugAssign):
            name = dotted(st.target)
            if name is None:
                return  # subscript store: weak update, not tracked
            old = env.get(name, Poly.atom(name))
            v = self.norm(st.value, env)
            if isinstance(st.op, ast.Add):
                env[name] = old + v
            elif isinstance(st.op, ast.Sub):
                env[name] = old - v
            elif isinstance(st.op, ast.Mult):
                env[name] = old * v
            elif isinstance(st.op, ast.Div):
                env[name] = old * v.inverse()
            else:
                env[name] = self._opaque(name)

    def _assign(self, target: ast.expr, value: ast.expr, env: dict) -> None:
        if isinstance(target, (ast.Tuple, ast.List)):
            if isinstance(value, (ast.Tuple, ast.List)) and len(value.elts) == len(target.elts):
                vals = [self.norm(v, env) for v in value.elts]
                for t, v in zip(target.elts, vals):
                    self._bind(t, v, env)
                return
            if isinstance(value, ast.Call) and last_attr(value) in self.positional_identity and \
                    len(value.args) >= len(target.elts):
                vals = [self.norm(v, env) for v in value.args[:len(target.elts)]]
                for t, v in zip(target.elts, vals):
                    self._bind(t, v, env)
                return
            base = self.norm(value, env).key()
            for i, t in enumerate(target.elts):
                self._bind(t, Poly.atom(f"({base})#{i}"), env)
            return
        if self.is_param_dict(value, env):
            self._bind(target, Poly.atom(PARAMS_MARK), env)
            return
        self._bind(target, self.norm(value, env), env)

    def _bind(self, target: ast.expr, v: Poly, env: dict) -> None:
        name = dotted(target)
        if name is not None:
            if self.after_bind is not None:
                r = self.after_bind(name, v)
                if r is not None:
                    v = r
            env[name] = v
        # subscript / starred targets: weak update, not tracked


def cond_matches(conds: list[tuple[ast.expr, bool]], pred: Callable[[ast.expr], Optional[bool]]) -> Optional[bool]:
    """First branch decision whose test is recognised by `pred` (pred returns the truth value of the
    *recognised proposition* when the test is true; None when the test is unrelated).  Handles `not`."""
    for test, taken in conds:
        neg = False
        t = test
        while isinstance(t, ast.UnaryOp) and isinstance(t.op, ast.Not):
            t, neg = t.operand, not neg
        r = pred(t)
        if r is not None:
            return (r != neg) == taken
    return None
