"""Absolute slice positions of the per-slice quantities a generator of slices hands to what it yields.

A generator of slices produces, in pass k of its loop, the object that stands for slice number p(k) of the whole
sequence (or for the run [lo(k), hi(k)) of slices when it works in chunks).  Whatever it reads *per slice* to build
that object — the plane of a stored array, the thickness handed to the constructor, the exit-plane flags, a depth
from a cumulated table — has to be read at that same absolute position, otherwise slice p gets a property of another
slice.  The position of a read is

    offset of the table  +  index expression

where the offset of a table is 0 for an attribute of the object, `a` for a local bound to `T[a:b]` (plus the offset
of T; locals are followed through single reaching definitions, element-wise wrappers such as np.asarray / tuple /
np.cumsum keep the offset), and the index expression is evaluated to a polynomial (sa/terms.py) in

    §k<n>          the pass number of for-loop n          (range(a, b): target = a + §k;  enumerate(X, s): s + §k;
                                                           itertools.islice(X, a, b): element a + §k of X)
    §S<n>, §N<n>   start offset and size of the chunk of a loop over generate_chunks(.., start=s): (s + §S, s + §S + §N)
    first_slice, ... every other name, inlined through single reaching definitions.

Running counters (`c = e0` before the loop, `c += d` exactly once in every pass) evaluate to e0 + d·§k before the update
and e0 + d·(§k + 1) after it; a counter that is carried around an enclosing loop whose inner loop always runs its full
trip count N is e0 + d·(N·§k_outer + §k_inner).  A loop target the evaluator cannot bind is an atom `§?...`; a
disagreement that involves such an atom is not decided (AnalysisError), every other non-zero difference of two
positions is a disagreement for some window / some pass.

`reads_of_yields(...)` collects, for the yields of one loop, the *direct* table reads among

    * the arguments of the call(s) that make the yielded object (followed through `obj = obj.method(...)`),
    * the values stored into attributes of the yielded object,
    * the other elements of a yielded tuple,

where "direct" means: the quantity is the table element itself up to element-wise wrappers (tuple, np.where(..)[0],
x[None], a cast, a copy) — arithmetic between table elements (stencils, differences of limits) is not a direct read
and is left undecided.  A buffer that is allocated per pass and filled slot by slot (`buf = zeros((n,) + ..)`,
`buf[i] += f(.. T[p] ..)`) is the run [p - i, p - i + n); the reads that feed slot i must agree on p - i and p - i must
not move with the filling loop.
"""
from __future__ import annotations

import ast
from dataclasses import dataclass
from typing import Optional

from ..cfg import DataFlow
from ..model import AnalysisError, FuncInfo, call_name, kw, last_attr, norm_text, walk_no_nested
from ..terms import FlowNormalizer, Poly, is_array_module

ALLOCATORS = {"zeros", "empty", "ones", "full"}
CHUNKERS = {"generate_chunks"}
CASTS = {"tuple", "list", "asarray", "array", "ascontiguousarray", "asanyarray", "copy", "astype", "squeeze"}
SELECTORS = {"where", "nonzero", "flatnonzero", "argwhere"}  # positions *within* the selected run
CUMULATIVE = {"cumsum"}
POS = "§"
OPAQUE = "§?"


def is_positional(p: Optional[Poly]) -> bool:
    return p is not None and any(POS in a for a in p.atoms())


def is_undecidable(p: Poly) -> bool:
    return any(OPAQUE in a for a in p.atoms())


class PosEval:
    """Expression at a CFG node -> polynomial in pass numbers, chunk offsets and ordinary names."""

    def __init__(self, f: FuncInfo, df: Optional[DataFlow] = None):
        self.f = f
        self.df = df or DataFlow(f.node)
        self.cfg = self.df.cfg
        self.loop_no: dict[int, int] = {}
        for n in self.cfg.nodes:
            if n.kind == "loop":
                self.loop_no[n.idx] = len(self.loop_no) + 1
        self._bindings: dict[int, dict[str, Poly]] = {}
        self._counter_cache: dict[str, Optional[tuple]] = {}

    def K(self, header: int) -> Poly:
        return Poly.atom(f"{POS}k{self.loop_no[header]}")

    # ------------------------------------------------------------------ loop targets
    def _iter_value(self, it: ast.AST, header: int, index: Poly) -> Optional[Poly]:
        """Value of element number `index` of the iterable `it` (evaluated before the loop), None when unknown."""
        if isinstance(it, ast.Call):
            cn = call_name(it)
            if cn == "range" and not it.keywords and 1 <= len(it.args) <= 3:
                if len(it.args) == 3 and self.eval(it.args[2], header, before=header) != Poly.const(1):
                    return None
                lo = self.eval(it.args[0], header, before=header) if len(it.args) >= 2 else Poly.const(0)
                return lo + index
            if last_attr(it) == "islice" and not it.keywords and 2 <= len(it.args) <= 4:
                if len(it.args) == 4 and self.eval(it.args[3], header, before=header) != Poly.const(1):
                    return None
                lo = self.eval(it.args[1], header, before=header) if len(it.args) >= 3 else Poly.const(0)
                return self._iter_value(it.args[0], header, lo + index)
        if isinstance(it, ast.Name):
            d = self.df.single_def(header, it.id)
            if d is not None and d.kind == "assign" and d.value is not None and d.node not in self.cfg.loop_body_nodes(header):
                st = self.cfg.nodes[d.node].ast
                if isinstance(st, ast.Assign) and any(isinstance(t, ast.Name) and t.id == it.id for t in st.targets):
                    return self._iter_value(d.value, header, index)
        return None

    def _bind(self, header: int) -> dict[str, Poly]:
        if header in self._bindings:
            return self._bindings[header]
        out: dict[str, Poly] = {}
        self._bindings[header] = out
        loop = self.cfg.nodes[header].ast
        if not isinstance(loop, ast.For):
            return out
        no = self.loop_no[header]
        k = self.K(header)

        def unbound(t: ast.AST) -> None:
            for nm in ast.walk(t):
                if isinstance(nm, ast.Name):
                    out[nm.id] = Poly.atom(f"{OPAQUE}target{no}:{nm.id}")

        def bind(tgt: ast.AST, it: ast.AST) -> None:
            if isinstance(it, ast.Call) and call_name(it) == "enumerate" and it.args and \
                    isinstance(tgt, (ast.Tuple, ast.List)) and len(tgt.elts) == 2:
                s = kw(it, "start") if kw(it, "start") is not None else (it.args[1] if len(it.args) > 1 else None)
                s0 = self.eval(s, header, before=header) if s is not None else Poly.const(0)
                if isinstance(tgt.elts[0], ast.Name):
                    out[tgt.elts[0].id] = s0 + k
                else:
                    unbound(tgt.elts[0])
                bind(tgt.elts[1], it.args[0])
                return
            if isinstance(it, ast.Call) and last_attr(it) in CHUNKERS and isinstance(tgt, (ast.Tuple, ast.List)) and \
                    len(tgt.elts) == 2 and all(isinstance(e, ast.Name) for e in tgt.elts):
                s = kw(it, "start") if kw(it, "start") is not None else (it.args[3] if len(it.args) > 3 else None)
                s0 = self.eval(s, header, before=header) if s is not None else Poly.const(0)
                lo = s0 + Poly.atom(f"{POS}S{no}")
                out[tgt.elts[0].id] = lo
                out[tgt.elts[1].id] = lo + Poly.atom(f"{POS}N{no}")
                return
            if isinstance(tgt, ast.Name):
                v = self._iter_value(it, header, k)
                if v is not None:
                    out[tgt.id] = v
                    return
            unbound(tgt)

        bind(loop.target, loop.iter)
        return out

    # ------------------------------------------------------------------ running counters
    def _every_pass(self, header: int, node: int) -> bool:
        """No path from the loop header through the body back to the header avoids `node`."""
        body = self.cfg.loop_body_nodes(header)
        seen, stack = set(), [s for s in self.cfg.nodes[header].succ if s in body]
        while stack:
            x = stack.pop()
            if x == node or x in seen:
                continue
            seen.add(x)
            for s2 in self.cfg.nodes[x].succ:
                if s2 == header:
                    return False
                if s2 in body:
                    stack.append(s2)
        return True

    def _region(self, header: int, starts: list[int], stop: Optional[int]) -> set[int]:
        body = self.cfg.loop_body_nodes(header)
        seen, stack = set(), [s for s in starts if s in body]
        while stack:
            x = stack.pop()
            if x in seen or x == stop:
                continue
            seen.add(x)
            stack.extend(s for s in self.cfg.nodes[x].succ if s in body and s != header)
        return seen

    def _counter(self, name: str) -> Optional[tuple]:
        """(loop header, update node, step) for `name` = initialised outside a for loop, advanced by a constant in
        exactly one place, once in every pass of that loop."""
        if name in self._counter_cache:
            return self._counter_cache[name]
        self._counter_cache[name] = None
        defs = [d for d in self.df.defs if d.var == name]
        upd = []
        for d in defs:
            st = self.cfg.nodes[d.node].ast
            if d.kind == "aug" and isinstance(st, ast.AugAssign) and isinstance(st.op, (ast.Add, ast.Sub)) and \
                    isinstance(st.target, ast.Name):
                upd.append((d, st.value, -1 if isinstance(st.op, ast.Sub) else 1))
            elif d.kind == "assign" and isinstance(d.value, ast.BinOp) and isinstance(d.value.op, ast.Add) and \
                    isinstance(st, ast.Assign) and len(st.targets) == 1 and isinstance(st.targets[0], ast.Name):
                l, r = d.value.left, d.value.right
                if isinstance(l, ast.Name) and l.id == name:
                    upd.append((d, r, 1))
                elif isinstance(r, ast.Name) and r.id == name:
                    upd.append((d, l, 1))
        if len(upd) != 1:
            return None
        d, step_e, sign = upd[0]
        if not self.cfg.nodes[d.node].loops:
            return None
        header = self.cfg.nodes[d.node].loops[-1]
        if not isinstance(self.cfg.nodes[header].ast, ast.For):
            return None
        body = self.cfg.loop_body_nodes(header)
        others = [o for o in defs if o is not d]
        if not others or any(o.node in body or o.node == header or o.kind != "assign" or not o.strong for o in others):
            return None
        step = self.eval(step_e, d.node, before=header)
        if is_positional(step) or name in step.atoms():
            return None
        if sign < 0:
            step = -step
        if not self._every_pass(header, d.node):
            return None
        self._counter_cache[name] = (header, d.node, step)
        return self._counter_cache[name]

    def _carried_around(self, name: str, header: int) -> bool:
        """Can the value `name` has when the loop is left come back to the loop header (through an enclosing loop)
        without being re-initialised?"""
        body = self.cfg.loop_body_nodes(header)
        starts = [s for x in (body | {header}) for s in self.cfg.nodes[x].succ if s not in body and s != header]
        seen, stack = set(), list(starts)
        while stack:
            x = stack.pop()
            if x in seen:
                continue
            seen.add(x)
            if x == header:
                return True
            if any(self.df.defs[i].var == name and self.df.defs[i].strong for i in self.df.node_defs.get(x, [])):
                continue
            stack.extend(self.cfg.nodes[x].succ)
        return False

    def _trip_count(self, header: int) -> Optional[Poly]:
        loop = self.cfg.nodes[header].ast
        if not isinstance(loop, ast.For) or loop.orelse:
            return None
        for b in ast.walk(loop):
            if isinstance(b, ast.Break):
                return None
        it = loop.iter
        if isinstance(it, ast.Call) and call_name(it) == "enumerate" and it.args:
            it = it.args[0]
        if isinstance(it, ast.Call) and call_name(it) == "range" and not it.keywords and len(it.args) in (1, 2):
            hi = self.eval(it.args[-1], header, before=header)
            lo = self.eval(it.args[0], header, before=header) if len(it.args) == 2 else Poly.const(0)
            return hi - lo
        return None

    def _entry_value(self, name: str, header: int, step: Poly) -> Poly:
        """Value of the counter when pass 0 of (this run of) the loop begins."""
        body = self.cfg.loop_body_nodes(header)
        outs = [d for d in self.df.reaching(header, name) if d.node not in body and d.node != header]
        no = self.loop_no[header]
        opaque = Poly.atom(f"{OPAQUE}entry{no}:{name}")
        if len(outs) != 1 or outs[0].kind != "assign" or outs[0].value is None:
            return opaque
        init = outs[0]
        if not self._carried_around(name, header):
            return self.eval(init.value, init.node)
        parents = self.cfg.nodes[header].loops
        if not parents:
            return opaque
        outer = parents[-1]
        # the inner loop runs once in every pass of the enclosing loop, always to the end, N passes each time
        n = self._trip_count(header)
        if n is None or is_positional(n) or not isinstance(self.cfg.nodes[outer].ast, ast.For) or \
                not self._every_pass(outer, header) or init.node in self.cfg.loop_body_nodes(outer):
            return opaque
        if self._carried_around(name, outer):
            return opaque
        return self.eval(init.value, init.node) + step * n * self.K(outer)

    # ------------------------------------------------------------------ evaluation
    def eval(self, e: ast.AST, at: int, before: Optional[int] = None) -> Poly:
        """`before=header`: the expression is evaluated before that loop starts (its own targets are not bound)."""
        ev = self

        class NZ(FlowNormalizer):
            def _name(self, name: str) -> Poly:
                here = self._at[-1]
                rd = ev.df.reaching(here, name)
                fors = [d for d in rd if d.kind == "for"]
                if fors and len(rd) == 1 and not (before is not None and fors[0].node == before and here == before):
                    b = ev._bind(fors[0].node)
                    if name in b:
                        return b[name]
                    return Poly.atom(f"{OPAQUE}target{ev.loop_no[fors[0].node]}:{name}")
                if len(rd) > 1:
                    c = ev._counter(name)
                    if c is not None:
                        header, upd, step = c
                        body = ev.cfg.loop_body_nodes(header)
                        if here == header and before == header:
                            return ev._entry_value(name, header, step)
                        if here in body:
                            v0 = ev._entry_value(name, header, step) + step * ev.K(header)
                            pre = ev._region(header, list(ev.cfg.nodes[header].succ), upd) | {upd}
                            post = ev._region(header, list(ev.cfg.nodes[upd].succ), None)
                            if here in pre and here not in post:
                                return v0
                            if here in post and here not in pre:
                                return v0 + step
                        return Poly.atom(f"{OPAQUE}counter:{name}")
                    if any(d.node in ev.cfg.loop_body_nodes(h) for d in rd for h in ev.cfg.nodes[here].loops):
                        return Poly.atom(f"{OPAQUE}carried:{name}")
                return super()._name(name)

        return NZ(self.df, at, identity_calls={"int"}).norm(e)


# ---------------------------------------------------------------------------------------------- tables and reads
@dataclass
class Read:
    role: str  # stable description of the quantity (API names only)
    table: str  # text of the table the read ends in (diagnosis only)
    lo: Optional[Poly]  # absolute position of the first slice read; None for a cumulated table (runs from slice 0)
    hi: Optional[Poly]  # absolute position one past the last slice read
    site: ast.AST
    note: str = ""


class Reader:
    def __init__(self, ev: PosEval):
        self.ev = ev
        self.df = ev.df
        self.notes: list[tuple[str, ast.AST, str]] = []  # (role, site, text) — quantities that are not direct reads
        self.fills: list[tuple[str, ast.AST, bool, str, str]] = []  # buffer fill verdicts

    # -------------------------------------------------------------- tables
    def _plain_def(self, name: str, at: int):
        d = self.df.single_def(at, name)
        if d is None or d.kind != "assign" or d.value is None:
            return None
        st = self.df.cfg.nodes[d.node].ast
        if isinstance(st, (ast.Assign, ast.AnnAssign)):
            tg = st.targets if isinstance(st, ast.Assign) else [st.target]
            if any(isinstance(t, ast.Name) and t.id == name for t in tg):
                return d
            if len(tg) == 1 and isinstance(tg[0], (ast.Tuple, ast.List)) and isinstance(st.value, (ast.Tuple, ast.List)):
                return d
        return None

    def table(self, e: ast.AST, at: int, depth: int = 0) -> tuple[str, Poly, bool]:
        """(text of the root table, offset of element 0 in the root, cumulated?)"""
        if depth > 12:
            raise AnalysisError(f"{self.ev.f.qualname}: chain of table definitions too deep")
        if isinstance(e, ast.Name):
            d = self._plain_def(e.id, at)
            if d is not None:
                return self.table(d.value, d.node, depth + 1)
            return norm_text(e), Poly.const(0), False
        if isinstance(e, ast.Call) and len(e.args) >= 1:
            la = last_attr(e)
            recv_mod = isinstance(e.func, ast.Attribute) and isinstance(e.func.value, ast.Name) and \
                is_array_module(e.func.value.id)
            if (la in CASTS and (recv_mod or isinstance(e.func, ast.Name))) and len(e.args) == 1:
                return self.table(e.args[0], at, depth + 1)
            if la in CUMULATIVE and recv_mod and kw(e, "axis") is None and len(e.args) == 1:
                root, off, _ = self.table(e.args[0], at, depth + 1)
                return f"cumsum({root})", off, True
        if isinstance(e, ast.Call) and isinstance(e.func, ast.Attribute) and e.func.attr in ("copy", "astype"):
            return self.table(e.func.value, at, depth + 1)
        if isinstance(e, ast.Subscript) and isinstance(e.slice, ast.Slice) and (
                e.slice.step is None or (isinstance(e.slice.step, ast.Constant) and e.slice.step.value == 1)):
            root, off, cum = self.table(e.value, at, depth + 1)
            lo = self.ev.eval(e.slice.lower, at) if e.slice.lower is not None else Poly.const(0)
            if cum and not (lo == Poly.const(0)):
                return f"({root})[{lo.key()}:]", Poly.const(0) + off + lo, True
            return root, off + lo, cum
        return norm_text(e), Poly.const(0), False

    # -------------------------------------------------------------- index expressions
    def components(self, idx: ast.AST, at: int, depth: int = 0) -> list[tuple[ast.AST, int]]:
        """The per-axis components of an index expression (tuple literals, concatenations, repeated tuples, locals)."""
        if depth > 8:
            raise AnalysisError(f"{self.ev.f.qualname}: index expression too deep")
        if isinstance(idx, ast.Tuple):
            out = []
            for el in idx.elts:
                if isinstance(el, ast.Starred):
                    out += self.components(el.value, at, depth + 1)
                else:
                    out.append((el, at))
            return out
        if isinstance(idx, ast.BinOp) and isinstance(idx.op, ast.Add):
            return self.components(idx.left, at, depth + 1) + self.components(idx.right, at, depth + 1)
        if isinstance(idx, ast.BinOp) and isinstance(idx.op, ast.Mult):
            for a in (idx.left, idx.right):
                if isinstance(a, ast.Tuple):
                    return self.components(a, at, depth + 1)
        if isinstance(idx, ast.Call) and call_name(idx) == "tuple" and len(idx.args) == 1:
            return self.components(idx.args[0], at, depth + 1)
        if isinstance(idx, ast.Name):
            d = self._plain_def(idx.id, at)
            if d is not None and isinstance(d.value, (ast.Tuple, ast.BinOp, ast.Call)) and self._tuple_valued(d.value, d.node):
                return self.components(d.value, d.node, depth + 1)
        return [(idx, at)]

    def _tuple_valued(self, e: ast.AST, at: int, depth: int = 0) -> bool:
        if depth > 6:
            return False
        if isinstance(e, ast.Tuple):
            return True
        if isinstance(e, ast.BinOp) and isinstance(e.op, (ast.Add, ast.Mult)):
            return self._tuple_valued(e.left, at, depth + 1) or self._tuple_valued(e.right, at, depth + 1)
        if isinstance(e, ast.Call) and call_name(e) == "tuple":
            return True
        if isinstance(e, ast.Name):
            d = self._plain_def(e.id, at)
            return d is not None and self._tuple_valued(d.value, d.node, depth + 1)
        return False

    def positional_component(self, idx: ast.AST, at: int):
        """None when the index does not depend on the position; else ('scalar', p) / ('slice', lo, hi)."""
        found = []
        for c, c_at in self.components(idx, at):
            if isinstance(c, ast.Slice):
                lo = self.ev.eval(c.lower, c_at) if c.lower is not None else None
                hi = self.ev.eval(c.upper, c_at) if c.upper is not None else None
                if is_positional(lo) or is_positional(hi):
                    if c.step is not None and not (isinstance(c.step, ast.Constant) and c.step.value == 1):
                        raise AnalysisError(f"{self.ev.f.qualname}: strided per-slice read `{norm_text(idx)[:50]}`")
                    found.append(("slice", lo if lo is not None else Poly.const(0), hi))
            else:
                if isinstance(c, ast.Constant):
                    continue
                p = self.ev.eval(c, c_at)
                if is_positional(p):
                    found.append(("scalar", p))
        if not found:
            return None
        if len(found) > 1:
            raise AnalysisError(f"{self.ev.f.qualname}: `{norm_text(idx)[:50]}` depends on the slice position in more "
                                "than one axis")
        return found[0]

    def _read_at(self, e: ast.Subscript, at: int, comp, role: str) -> Read:
        root, off, cum = self.table(e.value, at)
        if comp[0] == "scalar":
            lo, hi = off + comp[1], off + comp[1] + Poly.const(1)
        else:
            lo = off + comp[1]
            hi = off + comp[2] if comp[2] is not None else None
        if cum:
            note = "" if off == Poly.const(0) else f"cumulated from slice {off.key()} on, not from slice 0"
            return Read(role, root, None, hi, e, note)
        return Read(role, root, lo, hi, e)

    # -------------------------------------------------------------- direct reads of one quantity
    def direct(self, e: ast.AST, at: int, role: str, depth: int = 0) -> Optional[Read]:
        if depth > 14:
            raise AnalysisError(f"{self.ev.f.qualname}: definition chain of {role} too deep")
        if isinstance(e, ast.Name):
            rd = self.df.reaching(at, e.id)
            d = self._plain_def(e.id, at)
            if d is not None:
                return self.direct(d.value, d.node, role, depth + 1)
            if len(rd) > 1 and all(x.kind in ("assign", "aug", "store") for x in rd):
                return self.buffer(e.id, at, rd, role, e)
            return None
        if isinstance(e, ast.Call):
            la = last_attr(e)
            recv_mod = isinstance(e.func, ast.Attribute) and isinstance(e.func.value, ast.Name) and \
                is_array_module(e.func.value.id)
            if len(e.args) == 1 and la in (CASTS | SELECTORS) and (recv_mod or isinstance(e.func, ast.Name)):
                return self.direct(e.args[0], at, role, depth + 1)
            if isinstance(e.func, ast.Attribute) and la in ("copy", "astype") and not recv_mod:
                return self.direct(e.func.value, at, role, depth + 1)
            return None
        if isinstance(e, ast.Subscript):
            comp = self.positional_component(e.slice, at)
            if comp is None:
                return self.direct(e.value, at, role, depth + 1)
            return self._read_at(e, at, comp, role)
        return None

    # -------------------------------------------------------------- every positional read inside a computed value
    def all_reads(self, e: ast.AST, at: int, role: str, depth: int = 0, seen: Optional[set] = None) -> list[Read]:
        seen = seen if seen is not None else set()
        if depth > 14:
            raise AnalysisError(f"{self.ev.f.qualname}: computed value of {role} too deep")
        out: list[Read] = []
        if isinstance(e, ast.Name):
            d = self._plain_def(e.id, at)
            if d is not None and (d.node, e.id) not in seen:
                seen.add((d.node, e.id))
                out += self.all_reads(d.value, d.node, role, depth + 1, seen)
            return out
        if isinstance(e, ast.Subscript):
            comp = self.positional_component(e.slice, at)
            if comp is not None:
                return [self._read_at(e, at, comp, role)]
            return self.all_reads(e.value, at, role, depth + 1, seen)
        if isinstance(e, ast.Call):
            args = [a for a in e.args if not isinstance(a, ast.Starred)] + [k.value for k in e.keywords]
            recv = e.func.value if isinstance(e.func, ast.Attribute) else None
            recv_mod = isinstance(recv, ast.Name) and is_array_module(recv.id)
            if recv is not None and not recv_mod and len(args) == 1 and len(e.args) == 1:
                p = self.ev.eval(args[0], at)
                if is_positional(p) and not self.all_reads(args[0], at, role, depth + 1, set(seen)) and \
                        not is_positional(self.ev.eval(recv, at)):
                    # a lookup keyed by the slice position: recv.method(position)
                    root = self.table(recv, at)[0]
                    return [Read(role, f"{root}.{e.func.attr}(·)", p, p + Poly.const(1), e)]
            for a in args:
                out += self.all_reads(a, at, role, depth + 1, seen)
            if recv is not None and not recv_mod:
                out += self.all_reads(recv, at, role, depth + 1, seen)
            return out
        for ch in ast.iter_child_nodes(e):
            if isinstance(ch, (ast.expr, ast.Slice)) and not isinstance(ch, (ast.Lambda,)):
                out += self.all_reads(ch, at, role, depth + 1, seen)
        return out

    # -------------------------------------------------------------- buffers filled slot by slot
    def buffer(self, name: str, at: int, rd, role: str, site: ast.AST) -> Optional[Read]:
        cfg = self.df.cfg
        allocs, stores, other = [], [], []
        for d in rd:
            st = cfg.nodes[d.node].ast
            if d.kind == "assign":
                v = d.value
                if isinstance(v, ast.Constant) and v.value is None:
                    continue
                if isinstance(v, ast.Call) and last_attr(v) in ALLOCATORS and isinstance(v.func, ast.Attribute):
                    allocs.append(d)
                else:
                    other.append(d)
            elif d.kind == "aug" and isinstance(st, ast.AugAssign) and isinstance(st.target, ast.Subscript):
                stores.append((d, st.target, st.value))
            elif d.kind == "store" and isinstance(d.value, ast.Tuple) and isinstance(d.value.elts[1], ast.Subscript):
                stores.append((d, d.value.elts[1], d.value.elts[0]))
            else:
                other.append(d)
        if not allocs or not stores:
            return None
        lengths = set()
        for d in allocs:
            shape = kw(d.value, "shape") if kw(d.value, "shape") is not None else (d.value.args[0] if d.value.args else None)
            if shape is None:
                raise AnalysisError(f"{self.ev.f.qualname}: allocation of the buffer of {role} without a shape")
            comps = self.components(shape, d.node)
            lengths.add(self.ev.eval(comps[0][0], comps[0][1]))
        if len(lengths) != 1:
            raise AnalysisError(f"{self.ev.f.qualname}: the buffer of {role} is allocated with different lengths")
        length = next(iter(lengths))
        offsets: list[Poly] = []
        for d, tgt, val in stores:
            root = tgt
            while isinstance(root, ast.Subscript) and not (isinstance(root.value, ast.Name) and root.value.id == name):
                root = root.value
            if not isinstance(root, ast.Subscript):
                raise AnalysisError(f"{self.ev.f.qualname}: cannot read the store into the buffer of {role}")
            comp = self.positional_component(root.slice, d.node)
            if comp is None or comp[0] != "scalar":
                self.notes.append((role, tgt, "store into the buffer that is not a single positional slot"))
                continue
            slot = comp[1]
            reads = self.all_reads(val, d.node, role)
            if not reads:
                self.notes.append((role, tgt, "the value stored into the buffer reads no per-slice table"))
                continue
            inner = {h for h in cfg.nodes[d.node].loops if all(h not in cfg.nodes[a.node].loops for a in allocs)}
            inner_atoms = {f"{POS}k{self.ev.loop_no[h]}" for h in inner}
            offs = {}
            for r in reads:
                o = r.lo - slot
                offs.setdefault(o.key(), (o, r))
            fill_role = f"fill of the {role} buffer"
            if len(offs) > 1:
                polys = [o for o, _ in offs.values()]
                diffs = [(p - polys[0]) for p in polys[1:]]
                if any(is_undecidable(x) for x in diffs):
                    raise AnalysisError(f"{self.ev.f.qualname}: the positions read for one slot of the buffer of {role} "
                                        "cannot be compared")
                if all(x.const_value() is not None for x in diffs):
                    self.notes.append((role, tgt, "the slot is computed from neighbouring slices (stencil): not decided"))
                    continue
                txt = "; ".join(f"`{norm_text(r.site)[:40]}` reads slice {r.lo.key()}" for _, r in offs.values())
                self.fills.append((fill_role, tgt, False, "", f"slot {slot.key()} of the buffer is computed from different "
                                   f"slices: {txt}"))
                continue
            o, r = next(iter(offs.values()))
            if is_undecidable(o):
                raise AnalysisError(f"{self.ev.f.qualname}: the slot filled in the buffer of {role} cannot be related to "
                                    "the slice that is read")
            moving = sorted(a for a in o.atoms() if any(ia == a or ia in a for ia in inner_atoms))
            if moving:
                self.fills.append((fill_role, tgt, False, "", f"slot {slot.key()} is filled from slice {r.lo.key()} "
                                   f"(`{norm_text(r.site)[:50]}`): the distance {o.key()} between the slice read and the "
                                   "slot changes from pass to pass of the filling loop, so the slots do not hold "
                                   "consecutive slices"))
                continue
            self.fills.append((fill_role, tgt, True, f"slot {slot.key()} holds slice {r.lo.key()}", ""))
            offsets.append(o)
        for d in other:
            self.notes.append((role, cfg.nodes[d.node].ast, "alternative definition of the buffer under a guard the "
                               "analysis does not evaluate"))
        keys = {o.key() for o in offsets}
        if len(keys) != 1:
            return None
        lo = offsets[0]
        return Read(role, f"buffer of {role}", lo, lo + length, site)


# ---------------------------------------------------------------------------------------------- yields
def _yield_stmt(func: ast.AST, y: ast.AST) -> ast.stmt:
    best = None
    for st in ast.walk(func):
        if isinstance(st, ast.stmt) and not isinstance(st, (ast.FunctionDef, ast.ClassDef, ast.If, ast.For, ast.While,
                                                            ast.With, ast.Try)):
            if any(n is y for n in ast.walk(st)):
                best = st
    if best is None:
        raise AnalysisError("yield is not inside a simple statement")
    return best


def quantities_of(reader: Reader, el: ast.AST, at: int, pos: int, n_elts: int) -> list[tuple[str, ast.AST, int]]:
    """(role, expression, node) of everything per-slice that is handed to the yielded element `el`."""
    df = reader.df
    out: list[tuple[str, ast.AST, int]] = []
    seen: set[int] = set()

    def maker(call: ast.Call, c_at: int, depth: int) -> None:
        fn = last_attr(call) or "call"
        for i, a in enumerate(call.args):
            if not isinstance(a, ast.Starred):
                out.append((f"argument #{i + 1} of {fn}(...)", a, c_at))
        for k in call.keywords:
            if k.arg:
                out.append((f"keyword {k.arg} of {fn}(...)", k.value, c_at))
        if isinstance(call.func, ast.Attribute) and isinstance(call.func.value, ast.Name) and \
                call.func.value.id != df.selfname and not is_array_module(call.func.value.id):
            obj(call.func.value, c_at, depth + 1)  # obj = obj.method(...): still the same slice

    def obj(e: ast.AST, e_at: int, depth: int) -> None:
        if depth > 8:
            return
        if isinstance(e, ast.Call):
            maker(e, e_at, depth)
            return
        if not isinstance(e, ast.Name):
            return
        for d in df.reaching(e_at, e.id):
            if id(d) in seen:
                continue
            seen.add(id(d))
            if d.kind == "store" and isinstance(d.value, ast.Tuple) and isinstance(d.value.elts[1], ast.Attribute):
                out.append((f"attribute {d.value.elts[1].attr} of the yielded object", d.value.elts[0], d.node))
            elif d.kind == "assign" and d.value is not None:
                if isinstance(d.value, ast.Call):
                    maker(d.value, d.node, depth + 1)
                elif isinstance(d.value, ast.Name):
                    obj(d.value, d.node, depth + 1)

    if isinstance(el, ast.Call):
        maker(el, at, 0)
    elif isinstance(el, ast.Name) and any(d.kind == "store" or (d.kind == "assign" and isinstance(d.value, ast.Call)
                                                                 and last_attr(d.value) not in (CASTS | SELECTORS))
                                          for d in df.reaching(at, el.id)):
        obj(el, at, 0)
    else:
        out.append((f"yielded element #{pos + 1} of {n_elts}" if n_elts > 1 else "yielded value", el, at))
    return out


def reads_of_yields(f: FuncInfo, df: Optional[DataFlow] = None):
    """[(loop statement, [Read, ...], Reader)] — one group for the yields of each innermost loop."""
    ev = PosEval(f, df)
    df = ev.df
    groups: dict[int, tuple] = {}
    for y in walk_no_nested(f.node):
        if not isinstance(y, ast.Yield) or y.value is None:
            continue
        st = _yield_stmt(f.node, y)
        node = df.cfg.node_of(st)
        if not node.loops:
            continue
        header = node.loops[-1]
        if header not in groups:
            groups[header] = (df.cfg.nodes[header].ast, [], Reader(ev), set())
        _, reads, reader, done = groups[header]
        elems = y.value.elts if isinstance(y.value, ast.Tuple) else [y.value]
        for pos, el in enumerate(elems):
            for role, q, q_at in quantities_of(reader, el, node.idx, pos, len(elems)):
                if id(q) in done:
                    continue
                done.add(id(q))
                r = reader.direct(q, q_at, role)
                if r is not None:
                    reads.append(r)
    return [(loop, reads, reader) for loop, reads, reader, _ in groups.values()]


def check(ctx, rule: str, f: FuncInfo, df: Optional[DataFlow] = None) -> int:
    """One instance per per-slice quantity of every yielding loop of `f`; returns the number of quantities compared."""
    n = 0
    for loop, reads, reader in reads_of_yields(f, df):
        used: dict[str, int] = {}

        def construct(role: str) -> str:
            used[role] = used.get(role, 0) + 1
            return f"{f.qualname}:{role}" + ("" if used[role] == 1 else f"#{used[role]}")

        for role, site, ok, good, bad in reader.fills:
            n += 1
            ctx.check(ok, rule, construct(role), f.loc(site), good, bad, key_detail="slot-position")
        for role, site, text in reader.notes:
            ctx.info(rule, construct(role + " (not decided)"), f.loc(site), text)
        for r in reads:
            if r.note:
                n += 1
                ctx.violation(rule, construct(r.role + ", cumulated table"), f.loc(r.site),
                              f"`{norm_text(r.site)[:60]}` reads a table that is {r.note}: the value for a slice then depends "
                              "on where the window starts, the full sequence gives another value for the same slice",
                              key_detail="cumulated-from-window")
        if len(reads) < 2:
            for r in reads:
                ctx.info(rule, construct(r.role), f.loc(r.site), "the only per-slice table read of this loop: nothing to "
                         "compare it with")
            continue
        # the reference position: the one most quantities agree on (the first quantity on a tie)
        def agree(a: Read, b: Read) -> Optional[Poly]:
            """None when a and b denote the same run of slices (a cumulated table has no lower end), else the first
            non-zero difference."""
            if a.lo is not None and b.lo is not None and not (a.lo - b.lo).is_zero():
                return a.lo - b.lo
            if (a.hi is None) != (b.hi is None):
                return Poly.atom("open-ended")
            if a.hi is not None and not (a.hi - b.hi).is_zero():
                return a.hi - b.hi
            return None

        score = [sum(1 for o in reads if agree(r, o) is None) for r in reads]
        ref = reads[score.index(max(score))]
        for r in reads:
            n += 1
            diff = agree(r, ref)
            if diff is not None and is_undecidable(diff):
                raise AnalysisError(f"{f.qualname}: the position of {r.role} (`{norm_text(r.site)[:50]}`) cannot be "
                                    f"compared with that of {ref.role}: the loop does not number its passes in a form "
                                    "the analysis binds")
            rng = lambda q: f"[{q.lo.key() if q.lo is not None else '0 (cumulated)'}, {q.hi.key() if q.hi is not None else 'end'})"
            ctx.check(diff is None, rule, construct(r.role), f.loc(r.site),
                      f"`{norm_text(r.site)[:50]}` reads slices {rng(r)} of {r.table}",
                      f"`{norm_text(r.site)[:60]}` reads slices {rng(r)} of {r.table}, but {ref.role} "
                      f"(`{norm_text(ref.site)[:50]}`) of the same yielded object belongs to slices {rng(ref)}; the "
                      f"positions differ by {diff.key() if diff is not None else 0}: the object yielded for one slice "
                      "carries a per-slice quantity of another slice, so a window is not the corresponding part of the "
                      "full sequence", key_detail="abs-index")
    return n
