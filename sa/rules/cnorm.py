"""R-CNORM — a norm used to normalise a complex-valued array must be taken of |x|^2, not of x^2.

Pattern: sqrt( sum(S) ) / sqrt( S.sum(...) ) where S squares an array X (`X**2`, `X*X`, `square(X)`).
If X is complex-tainted the square is a complex square and the "norm" is wrong as soon as X has a
non-trivial phase (aberrations) — invisible with real-valued test inputs.  Safe summands: abs2(X),
abs(X)**2, X*conj(X), X.real**2 + X.imag**2.

Complex taint (per function, over reaching definitions): sources are complex_exponential, fft2/ifft2/
fftn/ifftn, *_evaluate_from_angular_grid / _evaluate_kernel (transfer functions), literals with `j`,
dtype=complex / get_dtype(complex=True); arithmetic and indexing preserve the taint; abs/abs2/real/imag/
angle remove it; exp of a real term, linspace, ones, arange etc. are real.
"""
from __future__ import annotations

import ast
from typing import Optional

from ..cfg import DataFlow
from ..model import FuncInfo, call_name, norm_text, walk_no_nested

COMPLEX_SOURCES = {"complex_exponential", "fft2", "ifft2", "fftn", "ifftn", "fft", "ifft", "_evaluate_from_angular_grid",
                   "_evaluate_kernel", "_evaluate_with_alpha_and_phi", "fft2_convolve", "fft_shift_kernel", "fft_shift",
                   "fft_interpolate", "_fresnel_propagator_array"}
REAL_MAKERS = {"abs", "abs2", "absolute", "real", "imag", "angle", "linspace", "arange", "ones", "zeros", "exp", "cos",
               "sin", "sqrt", "hypot", "arctan2", "fftfreq", "spatial_frequencies", "len", "sum", "norm", "maximum",
               "minimum", "clip", "floor", "ceil"}


def taint(df: DataFlow, at: int, e: ast.AST, depth: int = 0, seen: Optional[set] = None) -> str:
    """'complex' | 'real' | 'unknown'"""
    seen = seen or set()
    if depth > 10:
        return "unknown"
    if isinstance(e, ast.Constant):
        return "complex" if isinstance(e.value, complex) else "real"
    if isinstance(e, ast.Name):
        if (at, e.id) in seen:
            return "unknown"
        seen = seen | {(at, e.id)}
        res = set()
        for d in df.reaching(at, e.id):
            if d.kind == "param":
                res.add("unknown")
            elif d.kind in ("assign", "walrus") and d.value is not None:
                res.add(taint(df, d.node, d.value, depth + 1, seen))
            elif d.kind == "aug":
                st = df.cfg.nodes[d.node].ast
                if isinstance(st, ast.AugAssign):
                    res.add(taint(df, d.node, st.value, depth + 1, seen))
            elif d.kind in ("store", "call"):
                continue
            else:
                res.add("unknown")
        if "complex" in res:
            return "complex"
        if res == {"real"}:
            return "real"
        return "unknown"
    if isinstance(e, ast.Attribute):
        if e.attr in ("real", "imag"):
            return "real"
        return "unknown"
    if isinstance(e, ast.Subscript):
        return taint(df, at, e.value, depth + 1, seen)
    if isinstance(e, ast.UnaryOp):
        return taint(df, at, e.operand, depth + 1, seen)
    if isinstance(e, ast.BinOp):
        a, b = taint(df, at, e.left, depth + 1, seen), taint(df, at, e.right, depth + 1, seen)
        if "complex" in (a, b):
            return "complex"
        if a == b == "real":
            return "real"
        return "unknown"
    if isinstance(e, ast.Call):
        cn = call_name(e) or ""
        short = cn.split(".")[-1]
        if isinstance(e.func, ast.Attribute) and e.func.attr in ("conj", "conjugate", "copy", "astype", "reshape",
                                                                   "sum", "mean", "squeeze", "ravel"):
            if e.func.attr == "astype" and e.args and "complex" in norm_text(e.args[0]):
                return "complex"
            return taint(df, at, e.func.value, depth + 1, seen)
        if short in COMPLEX_SOURCES:
            return "complex"
        for k in e.keywords:
            if k.arg == "dtype" and "complex" in norm_text(k.value) and "complex=False" not in norm_text(k.value):
                return "complex"
        if short in ("exp",) and e.args:
            return taint(df, at, e.args[0], depth + 1, seen)
        if short in REAL_MAKERS:
            return "real"
        if short in ("asarray", "array", "ascontiguousarray", "expand_dims", "tile", "conj", "conjugate",
                     "moveaxis", "squeeze") and e.args:
            return taint(df, at, e.args[0], depth + 1, seen)
        return "unknown"
    return "unknown"


def _squares(e: ast.AST):
    """Yield (square node, squared operand) inside e."""
    for n in ast.walk(e):
        if isinstance(n, ast.BinOp) and isinstance(n.op, ast.Pow) and isinstance(n.right, ast.Constant) and \
                n.right.value == 2:
            yield n, n.left
        elif isinstance(n, ast.BinOp) and isinstance(n.op, ast.Mult) and ast.dump(n.left) == ast.dump(n.right):
            yield n, n.left
        elif isinstance(n, ast.Call) and (call_name(n) or "").split(".")[-1] == "square" and n.args:
            yield n, n.args[0]


def _is_safe_operand(x: ast.AST) -> bool:
    """abs(X), X.real, X.imag squared are fine."""
    if isinstance(x, ast.Call) and (call_name(x) or "").split(".")[-1] in ("abs", "absolute"):
        return True
    if isinstance(x, ast.Attribute) and x.attr in ("real", "imag"):
        return True
    return False


def norm_sites(f: FuncInfo):
    """(sqrt call, summand expr) for every sqrt(sum(...)) in f."""
    for c in walk_no_nested(f.node):
        if not (isinstance(c, ast.Call) and (call_name(c) or "").split(".")[-1] == "sqrt" and c.args):
            continue
        arg = c.args[0]
        for s in ast.walk(arg):
            if isinstance(s, ast.Call):
                if isinstance(s.func, ast.Attribute) and s.func.attr == "sum" and not (
                        call_name(s) or "").startswith(("xp.", "np.", "cp.", "da.")):
                    yield c, s.func.value
                elif (call_name(s) or "").split(".")[-1] == "sum" and s.args:
                    yield c, s.args[0]


def check_package(ctx, rule: str = "R-CNORM") -> int:
    n = 0
    for f in ctx.repo.all_functions():
        if f.module.name.startswith("abtem.visualize"):
            continue
        sites = list(norm_sites(f))
        if not sites:
            continue
        df = DataFlow(f.node)
        for sq, summand in sites:
            st = None
            for s in ast.walk(f.node):
                if isinstance(s, ast.stmt) and not isinstance(s, (ast.FunctionDef, ast.If, ast.For, ast.While, ast.With,
                                                                ast.Try)) and any(x is sq for x in ast.walk(s)):
                    st = s
            if st is None:
                continue
            at = df.cfg.node_of(st).idx
            squares = list(_squares(summand))
            if not squares:
                # abs2(X).sum() and friends
                n += 1
                ctx.ok(rule, f"{f.qualname}:{norm_text(sq)[:60]}", f.loc(sq), "norm of a modulus-squared summand")
                continue
            for node, operand in squares:
                n += 1
                if _is_safe_operand(operand):
                    ctx.ok(rule, f"{f.qualname}:{norm_text(sq)[:60]}", f.loc(sq), "square of |x| / real part")
                    continue
                t = taint(df, at, operand)
                if t == "complex":
                    ctx.violation(rule, f"{f.qualname}:{norm_text(operand)}", f.loc(sq),
                                  f"`{norm_text(sq)[:80]}` normalises with the sum of complex squares of "
                                  f"`{norm_text(operand)}` (complex-valued here) instead of |.|^2: wrong as soon as the "
                                  "values carry a phase (e.g. aberrations)", key_detail="complex-square")
                elif t == "real":
                    ctx.ok(rule, f"{f.qualname}:{norm_text(sq)[:60]}", f.loc(sq),
                           f"`{norm_text(operand)}` is real-valued")
                else:
                    ctx.info(rule, f"{f.qualname}:{norm_text(sq)[:60]}", f.loc(sq),
                             f"taint of `{norm_text(operand)}` unknown — not decided")
    return n
