"""E4 — ownership / effect analysis for ASE Atoms objects (R-OWN).

Every expression is either FRESH (the function owns it: a copy, a constructor result, arithmetic)
or BORROWED from a set of roots:
    ("param", f, name)    an argument of the function being analysed
    ("attr", C, name)     `self.<name>` of class C
    ("stored", name)      `<obj>.<name>` where some class exposes stored Atoms under that name
Ownership flows through assignments (reaching definitions), view attributes (`atoms.positions`,
`atoms.cell`, `atoms.numbers`), elements of borrowed containers, and calls, using per-function
summaries computed to a fixed point over the whole package:
    returns(g)  ⊆ {fresh} ∪ roots of g      what the result may alias
    mutates(g)  ⊆ roots of g                what g may modify in place
Calls through unknown receivers (`x.randomize(a)`) are resolved by method name over all classes of the
package (class-hierarchy analysis): if *any* implementation returns its argument unchanged, the
result may alias the argument.

Mutators are table-driven: in-place methods of ase.Atoms, stores into `positions/cell/numbers`
(including through aliases such as `cell = atoms.cell; cell[...] = 0`), attribute stores
(`atoms.cell = ...`, `pbc`, `calc`, `constraints`) and calls to functions whose summary mutates the
corresponding parameter.
"""
from __future__ import annotations

import ast
from typing import Optional

from ..cfg import DataFlow
from ..model import ClassInfo, FuncInfo, Repo, call_name, dotted, norm_text, walk_no_nested

ATOMS_MUTATORS = {"set_cell", "wrap", "translate", "rotate", "center", "set_positions", "set_scaled_positions", "rattle",
                  "euler_rotate", "extend", "append", "set_pbc", "set_atomic_numbers", "set_chemical_symbols",
                  "set_masses", "set_initial_charges", "set_tags", "set_array", "new_array", "set_constraint",
                  "set_calculator", "pop", "__delitem__", "__imul__", "set_celldisp", "set_momenta", "set_velocities"}
VIEW_ATTRS = {"positions", "cell", "numbers", "arrays", "pbc", "array"}
STORE_ATTRS = {"positions", "cell", "numbers", "pbc", "calc", "constraints", "arrays", "info"}
FRESH_CALLS = {"copy", "deepcopy", "copy.copy", "copy.deepcopy", "Atoms", "ase.Atoms", "np.array", "np.asarray",
               "np.zeros", "np.ones", "read", "bulk"}
FRESH_METHODS = {"copy", "repeat", "get_positions", "get_scaled_positions", "get_cell", "get_atomic_numbers",
                 "get_chemical_symbols", "complete", "lengths", "cellpar", "angles", "reciprocal", "todict", "item_copy"}
ATOMS_NAMES = {"atoms", "trajectory", "sites", "atoms_list"}
FRESH = frozenset()


def is_atoms_param(f: FuncInfo, name: str) -> bool:
    if name in ATOMS_NAMES or name.endswith("_atoms"):
        return True
    a = f.node.args
    for x in a.posonlyargs + a.args + a.kwonlyargs:
        if x.arg == name and x.annotation is not None:
            t = ast.unparse(x.annotation)
            return "Atoms" in t and "SlicedAtoms" not in t and "SliceIndexedAtoms" not in t
    return False


class Summary:
    __slots__ = ("returns", "mutates", "sites")

    def __init__(self):
        self.returns: set = set()  # roots or "fresh"
        self.mutates: set = set()
        self.sites: list = []  # (node, text, roots)


class Ownership:
    def __init__(self, repo: Repo):
        self.repo = repo
        self.funcs: list[FuncInfo] = [f for f in repo.all_functions() if not f.module.name.startswith(
            ("abtem.visualize", "abtem.core.colors"))]
        self.by_name: dict[str, list[FuncInfo]] = {}
        for f in self.funcs:
            self.by_name.setdefault(f.name, []).append(f)
        self.summ: dict[int, Summary] = {id(f): Summary() for f in self.funcs}
        self.df: dict[int, DataFlow] = {}
        self._cur: Optional[FuncInfo] = None
        self.stored_names = self._stored_getters()

    # ------------------------------------------------------------------ class level
    def _stored_getters(self) -> dict[str, list[tuple[ClassInfo, str]]]:
        """attribute/property names that expose Atoms held by an object: name -> [(class, backing attr)]"""
        out: dict[str, list[tuple[ClassInfo, str]]] = {}
        for c in self.repo.all_classes():
            for name, defs in c.methods.items():
                if name not in ("atoms", "trajectory") or not any(d.is_property for d in defs):
                    continue
                f = [d for d in defs if d.is_property and not d.is_setter][0]
                for r in walk_no_nested(f.node):
                    if isinstance(r, ast.Return) and r.value is not None:
                        for a in ast.walk(r.value):
                            pass
                backing = {n.attr for n in walk_no_nested(f.node) if isinstance(n, ast.Attribute)
                           and isinstance(n.value, ast.Name) and n.value.id == "self" and n.attr.startswith("_")}
                for b in backing:
                    out.setdefault(name, []).append((c, b))
        return out

    def caller_owned_attrs(self, c: ClassInfo) -> dict[str, str]:
        """attr -> constructor parameter it may alias (stored without copy)."""
        out: dict[str, str] = {}
        for f in self.repo.init_chain(c):
            if f.cls is None:
                continue
            self._ensure_df(f)
            for st in walk_no_nested(f.node):
                if isinstance(st, ast.Assign):
                    for t in st.targets:
                        d = dotted(t)
                        if d and d.startswith("self.") and d.count(".") == 1:
                            roots = self.own(f, st.value, self.df[id(f)].cfg.node_of(st).idx)
                            for r in roots:
                                if r[0] == "param" and is_atoms_param(f, r[2]):
                                    out[d.split(".")[1]] = r[2]
        return out

    # ------------------------------------------------------------------ expression ownership
    def _ensure_df(self, f: FuncInfo) -> DataFlow:
        if id(f) not in self.df:
            self.df[id(f)] = DataFlow(f.node)
        return self.df[id(f)]

    def own(self, f: FuncInfo, e: ast.AST, at: int, depth: int = 0, seen: Optional[set] = None) -> frozenset:
        if depth > 12:
            return FRESH
        seen = seen if seen is not None else set()
        df = self._ensure_df(f)
        if isinstance(e, ast.Name):
            key = (at, e.id)
            if key in seen:
                return FRESH
            seen = seen | {key}
            out: set = set()
            for d in df.reaching(at, e.id):
                if d.kind == "param":
                    out.add(("param", f.qualname, e.id))
                elif d.kind in ("assign", "walrus") and d.value is not None:
                    st = df.cfg.nodes[d.node].ast
                    val = d.value
                    # tuple unpacking `a, b = g(x)`: every target may alias what g returns
                    out |= self.own(f, val, d.node, depth + 1, seen)
                elif d.kind == "for" and d.value is not None:
                    out |= self.own(f, d.value, d.node, depth + 1, seen)
            return frozenset(out)
        if isinstance(e, ast.Attribute):
            if isinstance(e.value, ast.Name) and e.value.id == "self" and f.cls is not None:
                g = f.cls.find_method(e.attr)
                if g is not None and g.is_property and g is not f:
                    rs = self.summ.get(id(g))
                    out = set()
                    if rs is not None:
                        for r in rs.returns:
                            if r != "fresh":
                                out.add(r if r[0] != "param" else None)
                    out.discard(None)
                    return frozenset(out)
                return frozenset({("attr", f.cls.name, e.attr)})
            base = self.own(f, e.value, at, depth + 1, seen)
            if e.attr in self.stored_names and not (isinstance(e.value, ast.Name) and e.value.id == "self"):
                return frozenset({("stored", e.attr)})
            if e.attr in VIEW_ATTRS:
                return base
            return FRESH
        if isinstance(e, ast.Subscript):
            base = self.own(f, e.value, at, depth + 1, seen)
            last = e.value.id if isinstance(e.value, ast.Name) else (
                e.value.attr if isinstance(e.value, ast.Attribute) else "")
            if last in ("atoms", "_atoms") or last.endswith("_atoms"):
                return FRESH  # ase.Atoms.__getitem__ returns a new Atoms object
            return base
        if isinstance(e, ast.IfExp):
            return self.own(f, e.body, at, depth + 1, seen) | self.own(f, e.orelse, at, depth + 1, seen)
        if isinstance(e, (ast.Tuple, ast.List)):
            out = set()
            for x in e.elts:
                out |= self.own(f, x, at, depth + 1, seen)
            return frozenset(out)
        if isinstance(e, ast.Starred):
            return self.own(f, e.value, at, depth + 1, seen)
        if isinstance(e, ast.NamedExpr):
            return self.own(f, e.value, at, depth + 1, seen)
        if isinstance(e, ast.Call):
            return self._own_call(f, e, at, depth, seen)
        return FRESH

    def _callees(self, f: FuncInfo, c: ast.Call) -> tuple[list[FuncInfo], bool, Optional[ast.expr]]:
        """-> (candidate callees, bound? (skip self), receiver expr)"""
        fn = c.func
        d = dotted(fn)
        if isinstance(fn, ast.Name):
            t = self.repo.resolve_name(f.module, fn.id)
            if isinstance(t, FuncInfo):
                return [t], False, None
            if isinstance(t, ClassInfo):
                g = t.find_method("__init__")
                return ([g] if g else []), True, None
            return [], False, None
        if isinstance(fn, ast.Attribute):
            if d and d.startswith(("self.", "cls.")) and d.count(".") == 1 and f.cls is not None:
                g = f.cls.find_method(fn.attr)
                if g is not None:
                    static = "staticmethod" in g.decorators
                    return [g], not static, fn.value
            if d:
                t = self.repo.resolve_name(f.module, d)
                if isinstance(t, FuncInfo):
                    return [t], t.cls is not None and "staticmethod" not in t.decorators, None
            # class-hierarchy analysis by method name (package methods only)
            cands = [g for g in self.by_name.get(fn.attr, []) if g.cls is not None and not g.is_abstract]
            if cands and fn.attr not in FRESH_METHODS and fn.attr not in ATOMS_MUTATORS and not fn.attr.startswith("__"):
                return cands, True, fn.value
        return [], False, None

    def _own_call(self, f: FuncInfo, c: ast.Call, at: int, depth: int, seen: set) -> frozenset:
        cn = call_name(c)
        if cn in FRESH_CALLS or (cn or "").split(".")[-1] in ("copy", "deepcopy"):
            return FRESH
        if isinstance(c.func, ast.Attribute) and c.func.attr in FRESH_METHODS:
            return FRESH
        if cn in ("list", "tuple", "sorted", "reversed", "iter", "enumerate", "zip") and c.args:
            out = set()
            for a in c.args:
                out |= self.own(f, a, at, depth + 1, seen)
            return frozenset(out)
        cands, bound, recv = self._callees(f, c)
        out: set = set()
        for g in cands:
            s = self.summ.get(id(g))
            if s is None:
                continue
            params = g.positional_params[1:] if bound and g.positional_params else g.positional_params
            argmap: dict[str, ast.expr] = {}
            for p, a in zip(params, c.args):
                if not isinstance(a, ast.Starred):
                    argmap[p] = a
            for k in c.keywords:
                if k.arg:
                    argmap[k.arg] = k.value
            for r in s.returns:
                if r == "fresh":
                    continue
                if r[0] == "param":
                    a = argmap.get(r[2])
                    if a is not None:
                        out |= self.own(f, a, at, depth + 1, seen)
                elif r[0] == "attr":
                    if recv is not None and isinstance(recv, ast.Name) and recv.id == "self":
                        out.add(r)
                    elif r[2] in {b for v in self.stored_names.values() for _, b in v}:
                        for nm, v in self.stored_names.items():
                            if any(b == r[2] for _, b in v):
                                out.add(("stored", nm))
                else:
                    out.add(r)
        return frozenset(out)

    # ------------------------------------------------------------------ per-function transfer
    def analyse(self, f: FuncInfo) -> bool:
        """Recompute the summary of f; return True if it changed."""
        df = self._ensure_df(f)
        s = self.summ[id(f)]
        new_ret: set = set()
        new_mut: set = set()
        sites: list = []
        for n in df.cfg.nodes:
            st = n.ast
            if st is None or n.kind not in ("stmt", "test", "loop", "with"):
                continue
            if isinstance(st, ast.Return) and st.value is not None:
                o = self.own(f, st.value, n.idx)
                new_ret |= set(o) if o else {"fresh"}
            # yield values count as returns
            for y in (walk_no_nested(st) if not isinstance(st, (ast.If, ast.For, ast.While, ast.With)) else []):
                if isinstance(y, (ast.Yield, ast.YieldFrom)) and y.value is not None:
                    o = self.own(f, y.value, n.idx)
                    new_ret |= set(o) if o else {"fresh"}
            scan: list[ast.AST] = []
            if isinstance(st, ast.If):
                scan = [st.test]
            elif isinstance(st, ast.For):
                scan = [st.iter]
            elif isinstance(st, ast.While):
                scan = [st.test]
            elif isinstance(st, ast.With):
                scan = [i.context_expr for i in st.items]
            else:
                scan = [st]
            for root in scan:
                for m in walk_no_nested(root):
                    roots = None
                    what = None
                    if isinstance(m, ast.Call) and isinstance(m.func, ast.Attribute) and m.func.attr in ATOMS_MUTATORS:
                        roots = self.own(f, m.func.value, n.idx)
                        what = f"{norm_text(m.func.value)}.{m.func.attr}(...)"
                    elif isinstance(m, ast.Call):
                        cands, bound, recv = self._callees(f, m)
                        if len(cands) > 1:
                            cands = []  # class-hierarchy candidates propagate aliasing only, not effects
                        for g in cands:
                            gs = self.summ.get(id(g))
                            if gs is None or not gs.mutates:
                                continue
                            params = g.positional_params[1:] if bound and g.positional_params else g.positional_params
                            argmap = {p: a for p, a in zip(params, m.args) if not isinstance(a, ast.Starred)}
                            argmap.update({k.arg: k.value for k in m.keywords if k.arg})
                            for r in gs.mutates:
                                if r[0] == "param" and r[2] in argmap:
                                    o = self.own(f, argmap[r[2]], n.idx)
                                    if o:
                                        new_mut |= set(o)
                                        sites.append((m, f"{norm_text(m)[:70]} (callee {g.short} modifies `{r[2]}`)", o))
                                elif r[0] in ("stored",):
                                    new_mut.add(r)
                                    sites.append((m, f"{norm_text(m)[:70]} (callee {g.short} modifies stored atoms)",
                                                  frozenset({r})))
                                elif r[0] == "attr" and recv is not None and isinstance(recv, ast.Name) and recv.id == "self":
                                    new_mut.add(r)
                                    sites.append((m, f"{norm_text(m)[:70]} (callee {g.short} modifies self.{r[2]})",
                                                  frozenset({r})))
                    if roots:
                        new_mut |= set(roots)
                        sites.append((m, what, roots))
            tgts = []
            if isinstance(st, ast.Assign):
                tgts = list(st.targets)
            elif isinstance(st, ast.AugAssign):
                tgts = [st.target]
            elif isinstance(st, ast.Delete):
                tgts = list(st.targets)
            for t in tgts:
                for tt in (t.elts if isinstance(t, (ast.Tuple, ast.List)) else [t]):
                    if isinstance(tt, ast.Subscript):
                        chain_attrs = {x.attr for x in ast.walk(tt.value) if isinstance(x, ast.Attribute)}
                        o = self.own(f, tt.value, n.idx)
                        if o and (chain_attrs & VIEW_ATTRS or self._is_view_alias(f, tt.value, n.idx)):
                            new_mut |= set(o)
                            sites.append((st, norm_text(st)[:70], o))
                    elif isinstance(tt, ast.Attribute) and tt.attr in STORE_ATTRS and not (
                            isinstance(tt.value, ast.Name) and tt.value.id == "self"):
                        o = self.own(f, tt.value, n.idx)
                        if o:
                            new_mut |= set(o)
                            sites.append((st, norm_text(st)[:70], o))
        changed = new_ret != s.returns or new_mut != s.mutates
        s.returns, s.mutates, s.sites = new_ret, new_mut, sites
        return changed

    def _is_view_alias(self, f: FuncInfo, e: ast.AST, at: int) -> bool:
        """`cell = atoms.cell` style alias: the name's definition reads a view attribute."""
        if not isinstance(e, ast.Name):
            return False
        for d in self._ensure_df(f).reaching(at, e.id):
            if d.value is not None and any(isinstance(x, ast.Attribute) and x.attr in VIEW_ATTRS
                                           for x in ast.walk(d.value)):
                return True
        return False

    def solve(self, max_rounds: int = 8) -> int:
        rounds = 0
        for rounds in range(1, max_rounds + 1):
            changed = False
            for f in self.funcs:
                try:
                    if self.analyse(f):
                        changed = True
                except RecursionError:
                    continue
            if not changed:
                break
        return rounds
