"""Normal form for products of matrices with transposes and inverses (non-commutative terms).

An expression built from names, `@` / dot / matmul, `.T` / transpose, inv / pinv, solve and value-preserving
wrappers is rewritten into a list of factors (atom, inverted, transposed) with

    (A B)^T = B^T A^T        (A B)^-1 = B^-1 A^-1        (A^T)^-1 = (A^-1)^T
    solve(A, B) = A^-1 B     X X^-1 = 1 (adjacent, same transposition)

Locals are inlined through single reaching definitions; calls of package functions that consist of a single
`return <expr>` are inlined with their arguments (reciprocal_cell(c) = pinv(c).T).  Anything else is an opaque
atom.  Two expressions denote the same matrix for all invertible inputs iff their normal forms agree (up to the
axioms above) — `positions @ pinv(cell).T` and `solve(cell.T, positions.T).T` differ, the latter is
`positions @ cell^-1`.
"""
from __future__ import annotations

import ast
from typing import Optional

from ..model import FuncInfo, call_name, dotted, last_attr, norm_text

IDENTITY_CALLS = {"asarray", "array", "copy", "complete", "ascontiguousarray", "astype", "asnumpy", "float64"}
Factor = tuple[str, bool, bool]  # atom, inverted, transposed


def _t(fs: list[Factor]) -> list[Factor]:
    return [(a, i, not t) for a, i, t in reversed(fs)]


def _inv(fs: list[Factor]) -> list[Factor]:
    return [(a, not i, t) for a, i, t in reversed(fs)]


def _simplify(fs: list[Factor]) -> list[Factor]:
    out: list[Factor] = []
    for f in fs:
        if out and out[-1][0] == f[0] and out[-1][2] == f[2] and out[-1][1] != f[1]:
            out.pop()
        else:
            out.append(f)
    return out


def _is_scalar(e: ast.AST) -> bool:
    if isinstance(e, ast.Constant) and isinstance(e.value, (int, float, complex)):
        return True
    if isinstance(e, ast.Attribute) and e.attr in ("pi", "e") and isinstance(e.value, ast.Name):
        return True
    if isinstance(e, ast.UnaryOp):
        return _is_scalar(e.operand)
    if isinstance(e, ast.BinOp) and isinstance(e.op, (ast.Mult, ast.Div, ast.Add, ast.Sub, ast.Pow)):
        return _is_scalar(e.left) and _is_scalar(e.right)
    return False


class MatNorm:
    def __init__(self, repo, f: FuncInfo, df, depth: int = 4):
        self.repo, self.f, self.df, self.depth = repo, f, df, depth

    def _module_like(self, recv: ast.AST, at: int) -> bool:
        """np / xp / cp / a local bound to get_array_module(...) under any name"""
        from ..terms import is_array_module

        d = dotted(recv)
        if d is None:
            return False
        if is_array_module(d.split(".")[0]):
            return True
        if isinstance(recv, ast.Name) and self.df is not None:
            dd = self.df.single_def(at, recv.id)
            return dd is not None and isinstance(dd.value, ast.Call) and (call_name(dd.value) or "").endswith(
                "get_array_module")
        return False

    def norm(self, e: ast.AST, at: int, env: Optional[dict] = None, depth: int = 0) -> list[Factor]:
        env = env or {}
        if depth > 24:
            return [(norm_text(e), False, False)]
        rec = lambda x: self.norm(x, at, env, depth + 1)
        if isinstance(e, ast.Name):
            if e.id in env:
                return list(env[e.id])
            if self.df is not None:
                d = self.df.single_def(at, e.id)
                if d is not None and d.kind == "assign" and d.value is not None:
                    st = self.df.cfg.nodes[d.node].ast
                    if isinstance(st, ast.Assign) and any(isinstance(t, ast.Name) and t.id == e.id for t in st.targets):
                        return self.norm(d.value, d.node, env, depth + 1)
            return [(e.id, False, False)]
        if isinstance(e, ast.Attribute):
            if e.attr == "T":
                return _simplify(_t(rec(e.value)))
            d = dotted(e)
            return [(d or norm_text(e), False, False)]
        if isinstance(e, ast.BinOp) and isinstance(e.op, ast.MatMult):
            return _simplify(rec(e.left) + rec(e.right))
        if isinstance(e, ast.BinOp) and isinstance(e.op, (ast.Mult, ast.Div)):
            # scalar factors do not take part in the matrix structure
            if _is_scalar(e.left):
                return rec(e.right) if isinstance(e.op, ast.Mult) else [(norm_text(e), False, False)]
            if _is_scalar(e.right):
                return rec(e.left)
        if isinstance(e, ast.UnaryOp) and isinstance(e.op, (ast.USub, ast.UAdd)):
            return rec(e.operand)
        if isinstance(e, ast.Call):
            name = last_attr(e) or (call_name(e) or "")
            if name in ("dot", "matmul") and len(e.args) == 2:
                return _simplify(rec(e.args[0]) + rec(e.args[1]))
            if name in ("transpose",):
                src = e.args[0] if e.args and isinstance(e.func, ast.Attribute) and self._module_like(e.func.value, at) \
                    else (e.func.value if isinstance(e.func, ast.Attribute) else None)
                if src is not None:
                    return _simplify(_t(rec(src)))
            if name in ("inv", "pinv") and e.args:
                return _simplify(_inv(rec(e.args[0])))
            if name == "solve" and len(e.args) == 2:
                return _simplify(_inv(rec(e.args[0])) + rec(e.args[1]))
            if name in IDENTITY_CALLS:
                if isinstance(e.func, ast.Attribute) and not self._module_like(e.func.value, at):
                    return rec(e.func.value)
                if e.args:
                    return rec(e.args[0])
            # package function consisting of a single return: inline
            fn = dotted(e.func)
            tgt = self.repo.resolve_name(self.f.module, fn) if fn else None
            if isinstance(tgt, FuncInfo) and depth < self.depth * 4:
                body = [s for s in tgt.node.body if not (isinstance(s, ast.Expr) and isinstance(s.value, ast.Constant))]
                ret = None
                if len(body) == 1 and isinstance(body[0], ast.Return):
                    ret = body[0].value
                elif len(body) == 2 and isinstance(body[0], (ast.Assign, ast.AnnAssign)) and isinstance(body[1], ast.Return) \
                        and isinstance(body[1].value, ast.Name):
                    tg = body[0].targets[0] if isinstance(body[0], ast.Assign) else body[0].target
                    if isinstance(tg, ast.Name) and tg.id == body[1].value.id:
                        ret = body[0].value
                if ret is not None:
                    new_env = {}
                    for p, a in zip(tgt.positional_params, e.args):
                        new_env[p] = rec(a)
                    for k in e.keywords:
                        if k.arg:
                            new_env[k.arg] = rec(k.value)
                    sub = MatNorm(self.repo, tgt, None, self.depth)
                    return _simplify(sub.norm(ret, 0, new_env, depth + 1))
            return [(norm_text(e), False, False)]
        return [(norm_text(e), False, False)]


def show(fs: list[Factor]) -> str:
    return " · ".join(a + ("⁻¹" if i else "") + ("ᵀ" if t else "") for a, i, t in fs) or "1"
