"""R-LOOPSTATE — no wave state is carried from one potential configuration to the next.

In a function that loops over `_generate_potential_configurations(potential)` the wave-state
variable (the function's first parameter) is advanced in place by the slice loop.  Each
configuration must start from the same incident wave, so
  (a) no definition of the state variable made inside the configuration loop may reach a use in
      the next iteration through the back edge (loop-carried flow dependence), and
  (b) the definition that kills it at the top of the body must be a *fresh copy* of a variable
      that is not redefined inside the loop (an alias would be corrupted by the in-place steps).
"""
from __future__ import annotations

import ast

from ..cfg import DataFlow
from ..model import AnalysisError, FuncInfo, call_name, norm_text, walk_no_nested

GENERATOR = "_generate_potential_configurations"


def _is_fresh_copy(expr: ast.expr):
    """`X.copy()` / `copy(X)` / `deepcopy(X)` -> X name, else None."""
    if isinstance(expr, ast.Call):
        if isinstance(expr.func, ast.Attribute) and expr.func.attr == "copy" and isinstance(expr.func.value, ast.Name) \
                and not expr.args:
            return expr.func.value.id
        if call_name(expr) in ("copy", "deepcopy", "copy.copy", "copy.deepcopy") and len(expr.args) == 1 and \
                isinstance(expr.args[0], ast.Name):
            return expr.args[0].id
    return None


def check(ctx, f: FuncInfo, rule: str = "R-LOOPSTATE") -> int:
    loops = [n for n in walk_no_nested(f.node) if isinstance(n, ast.For) and isinstance(n.iter, ast.Call)
             and call_name(n.iter) == GENERATOR]
    if not loops:
        raise AnalysisError(f"{f.qualname}: no loop over {GENERATOR}(...) found")
    var = f.positional_params[0]
    df = DataFlow(f.node)
    count = 0
    for loop in loops:
        header = df.cfg.node_of(loop).idx
        body = df.cfg.loop_body_nodes(header)
        defs_in_body = [d for d in df.defs if d.node in body and d.var == var]
        if not defs_in_body:
            ctx.ok(rule, f"{f.qualname}:configuration-loop", f.loc(loop),
                   f"`{var}` is never redefined inside the configuration loop", nontrivial=False)
            count += 1
            continue
        carried = df.loop_carried(header, var)
        count += 1
        if carried:
            d, use = carried[0]
            dst = df.cfg.nodes[d.node].ast
            ust = df.cfg.nodes[use].ast
            ctx.violation(rule, f"{f.qualname}:configuration-loop", f.loc(loop),
                          f"`{var}` assigned at line {getattr(dst, 'lineno', '?')} "
                          f"({norm_text(dst)[:70] if not isinstance(dst, (ast.For, ast.If)) else 'loop'}) is still "
                          f"live at the start of the next configuration and is read at line "
                          f"{getattr(ust, 'lineno', '?')}: configuration k starts from the exit wave of "
                          f"configuration k-1 instead of the incident wave", key_detail="carried")
            continue
        # (b) the killing definitions must be fresh copies of loop-invariant variables
        resets = []
        for d in defs_in_body:
            if d.kind == "assign" and d.strong and d.value is not None and var not in {
                    n.id for n in ast.walk(d.value) if isinstance(n, ast.Name)}:
                resets.append(d)
        bad = []
        for d in resets:
            src = _is_fresh_copy(d.value)
            if src is None:
                bad.append((d, "is not a fresh copy"))
            elif any(dd.node in body and dd.var == src for dd in df.defs):
                bad.append((d, f"copies `{src}`, which is itself redefined inside the loop"))
        if bad:
            d, why = bad[0]
            st = df.cfg.nodes[d.node].ast
            ctx.violation(rule, f"{f.qualname}:configuration-loop", f.loc(st),
                          f"per-configuration reset `{norm_text(st)}` {why}: the in-place slice steps would modify "
                          "the shared incident wave", key_detail="alias")
        else:
            ctx.ok(rule, f"{f.qualname}:configuration-loop", f.loc(loop),
                   f"`{var}` is re-initialised from a fresh copy at the start of every configuration "
                   f"({'; '.join(norm_text(df.cfg.nodes[d.node].ast) for d in resets)})")
    return count
