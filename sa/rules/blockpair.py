"""R-BLOCKPAIR — the lazy and the eager arm of ArrayObject._partition_args build the same (array block, metadata) pair.

Eager arm:  blocks[I] = (array[ranges_I], metadata_blocks[I])  with metadata_blocks partitioned with lazy=False.
Lazy arm:   da.blockwise(combine, ..., array, ..., metadata_blocks, ...) with metadata_blocks partitioned lazily and
            combine(*args) returning (args[a], args[m].item()), a / m being the operand positions of the array and of the
            metadata blocks in that very blockwise call (the metadata travels in a one-element object array, hence
            `.item()`).
Both arms must produce the pair in the same order (array block first or second, but the same), the element unwrapped
with `.item()` must be the metadata operand, and every call of `_partition_ensemble_axes_metadata` passes the lazy flag
of the arm it stands in (the default counts as lazy=True).
"""
from __future__ import annotations

import ast
from typing import Optional

from ..cfg import DataFlow
from ..model import AnalysisError, FuncInfo, bind_args, call_name, norm_text, walk_no_nested
from .twins import lazy_polarity

META = "self._partition_ensemble_axes_metadata"


def _arm(func: ast.FunctionDef, target: ast.AST) -> Optional[bool]:
    """True: `target` stands in a lazy arm, False: in an eager arm, None: outside the switch."""
    out: list = []

    def walk(body, state):
        for st in body:
            if any(x is target for x in ast.walk(st)):
                if isinstance(st, ast.If) and not any(x is target for x in ast.walk(st.test)):
                    p = lazy_polarity(st.test)
                    in_body = any(x is target for b in st.body for x in ast.walk(b))
                    walk(st.body if in_body else st.orelse, state if p is None else (p if in_body else not p))
                elif isinstance(st, (ast.For, ast.While, ast.With, ast.Try)):
                    for fld in ("body", "orelse", "finalbody"):
                        walk(getattr(st, fld, []) or [], state)
                    for h in getattr(st, "handlers", []):
                        walk(h.body, state)
                    if not out:
                        out.append(state)
                else:
                    out.append(state)
                return

    walk(func.body, None)
    return out[0] if out else None


def check(ctx, f: FuncInfo, meta_fn: FuncInfo, rule: str = "R-BLOCKPAIR") -> int:
    df = DataFlow(f.node)
    n = 0
    # ---- lazy flag of the metadata partition, per arm
    calls = [c for c in walk_no_nested(f.node) if isinstance(c, ast.Call) and call_name(c) == META]
    if len(calls) < 2:
        raise AnalysisError(f"{f.qualname}: expected the metadata to be partitioned in both arms")
    for k, c in enumerate(calls, 1):
        arm = _arm(f.node, c)
        if arm is None:
            raise AnalysisError(f"{f.qualname}: `{norm_text(c)[:50]}` is outside the lazy/eager switch")
        b = bind_args(c, meta_fn, skip_self=True)
        v = b.get("lazy")
        if v is None:
            flag: Optional[bool] = True
            d = meta_fn.defaults().get("lazy")
            if not (isinstance(d, ast.Constant) and d.value is True):
                raise AnalysisError(f"{meta_fn.qualname}: default of `lazy` is not True")
        elif isinstance(v, ast.Constant) and isinstance(v.value, bool):
            flag = v.value
        elif isinstance(v, ast.Name) and v.id == "lazy":
            flag = arm
        else:
            raise AnalysisError(f"{f.qualname}: lazy flag `{norm_text(v)[:30]}` is not a literal")
        n += 1
        ctx.check(flag == arm, rule, f"{f.qualname}:metadata partition:{'lazy' if arm else 'eager'} arm", f.loc(c),
                  f"metadata partitioned with lazy={flag} in the {'lazy' if arm else 'eager'} arm",
                  f"the {'lazy' if arm else 'eager'} arm partitions the axes metadata with lazy={flag}: the blocks of "
                  f"that arm hold {'numpy' if not flag else 'dask'} metadata arrays where the other mode holds the "
                  "metadata lists", key_detail="flag")

    def is_meta(name_node: ast.AST, at_stmt: ast.stmt) -> bool:
        base = name_node
        while isinstance(base, (ast.Subscript, ast.Attribute, ast.Call)):
            base = base.value if not isinstance(base, ast.Call) else base.func
        if not isinstance(base, ast.Name):
            return False
        rd = df.reaching(df.cfg.node_of(at_stmt).idx, base.id)
        return bool(rd) and all(d.value is not None and isinstance(d.value, ast.Call) and call_name(d.value) == META
                                for d in rd)

    # ---- lazy pair
    bw = [c for c in walk_no_nested(f.node) if isinstance(c, ast.Call) and (call_name(c) or "").endswith("blockwise")]
    if len(bw) != 1 or len(bw[0].args) < 6 or any(isinstance(a, ast.Starred) for a in bw[0].args):
        raise AnalysisError(f"{f.qualname}: the lazy arm's blockwise call was not recognised")
    c = bw[0]
    st = next(s for s in walk_no_nested(f.node) if isinstance(s, ast.stmt) and not isinstance(
        s, (ast.If, ast.For, ast.With, ast.Try, ast.FunctionDef)) and any(x is c for x in ast.walk(s)))
    operands = c.args[2::2]
    kinds = ["meta" if is_meta(o, st) else "array" for o in operands]
    if sorted(kinds) != ["array", "meta"]:
        raise AnalysisError(f"{f.qualname}: blockwise operands are not (array, metadata blocks): {kinds}")
    fn = c.args[0]
    nested = [d for d in ast.walk(f.node) if isinstance(d, ast.FunctionDef) and d is not f.node and
              isinstance(fn, ast.Name) and d.name == fn.id]
    if len(nested) != 1 or nested[0].args.vararg is None:
        raise AnalysisError(f"{f.qualname}: the combine function of the lazy arm is not a local `def g(*args)`")
    g = nested[0]
    va = g.args.vararg.arg
    gdf = DataFlow(g)
    rets = [r for r in walk_no_nested(g) if isinstance(r, ast.Return) and r.value is not None]
    if len(rets) != 1:
        raise AnalysisError(f"{f.qualname}: combine function has no single return")
    tuples = [t for t in ast.walk(rets[0].value) if isinstance(t, ast.Tuple)]
    val = rets[0].value
    if not tuples:
        for nm in [x for x in ast.walk(val) if isinstance(x, ast.Name)]:
            d = gdf.single_def(gdf.cfg.node_of(rets[0]).idx, nm.id)
            if d is not None and isinstance(d.value, ast.Tuple):
                tuples.append(d.value)
    if len(tuples) != 1 or len(tuples[0].elts) != 2:
        raise AnalysisError(f"{f.qualname}: combine function does not build one pair")
    lazy_pair = []
    for e in tuples[0].elts:
        item = isinstance(e, ast.Call) and isinstance(e.func, ast.Attribute) and e.func.attr == "item" and not e.args
        base = e.func.value if item else e
        k = None
        if isinstance(base, ast.Subscript) and isinstance(base.value, ast.Name) and base.value.id == va:
            sl = base.slice
            if isinstance(sl, ast.Constant) and isinstance(sl.value, int) and not isinstance(sl.value, bool):
                k = sl.value
            elif isinstance(sl, ast.UnaryOp) and isinstance(sl.op, ast.USub) and isinstance(sl.operand, ast.Constant) \
                    and isinstance(sl.operand.value, int):
                k = -sl.operand.value
        if k is None:
            raise AnalysisError(f"{f.qualname}: combine element `{norm_text(e)[:30]}` is not {va}[k] / {va}[k].item()")
        if not -len(kinds) <= k < len(kinds):
            lazy_pair.append(("out-of-range", item))
        else:
            lazy_pair.append((kinds[k], item))
    # ---- eager pair: the tuple stored in the block loop
    eager_pairs = []
    for s in walk_no_nested(f.node):
        if isinstance(s, ast.stmt) and _arm(f.node, s) is False:
            for t in ast.walk(s):
                if isinstance(t, ast.Tuple) and len(t.elts) == 2 and all(isinstance(e, ast.Subscript) for e in t.elts) \
                        and not isinstance(s, (ast.If, ast.For, ast.With, ast.Try)):
                    eager_pairs.append((s, ["meta" if is_meta(e, s) else "array" for e in t.elts]))
    if len(eager_pairs) != 1 or sorted(eager_pairs[0][1]) != ["array", "meta"]:
        raise AnalysisError(f"{f.qualname}: the eager arm's (array block, metadata) pair was not recognised")
    eager = eager_pairs[0][1]
    n += 1
    want = [(k, k == "meta") for k in eager]
    ctx.check(lazy_pair == want, rule, f"{f.qualname}:pair", f.loc(g),
              f"both arms build ({', '.join(eager)}); the lazy arm unwraps the metadata operand with .item()",
              f"the eager arm stores ({', '.join(eager)}) but the lazy combine function returns ("
              + ", ".join(f"{k}{'.item()' if it else ''}" for k, it in lazy_pair)
              + f") of the blockwise operands ({', '.join(kinds)}): lazily partitioned array objects are rebuilt from "
              "the wrong operands", key_detail="pair")
    return n
