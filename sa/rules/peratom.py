"""R-PERATOM — the contribution of one atom does not depend on the atoms before it.

A sum over atoms (or over species) is independent of the order of the atoms only when every quantity that enters
the contribution of atom k is a function of atom k and of loop-invariant values.  In a `for` loop over the atoms
whose body updates an accumulator (an array / list / number that is initialised before the loop and reaches the
function's result) this is a dataflow fact:

  no definition made by a *previous* iteration may reach a read in the loop body through the back edge
  (`DataFlow.loop_carried`), except for
    * the accumulator itself: every carried definition reaches only statements that update the same variable from
      its own previous value (`acc[i] = ...`, `acc += ...`, `acc.append(...)`, `acc = acc + ...`), and
    * loop-invariant values: variables that are never assigned inside the loop have no definition in the body.

A name that is rebound inside the loop on some paths only and read on a path where it was not rebound in the same
iteration keeps the value of an earlier atom (or, in the first iteration, the value from before the loop): VIOLATION.

Not decided (AnalysisError, fail closed):
  * last-key memoisation (`if key != previous_key: value = f(key); previous_key = key`): the guard of the carried
    definition reads another carried variable — whether the carried value is still valid is a semantic question;
  * state written in place inside the loop (`buf[:] = ...`) and read for something other than its own update.  One
    shape is decided: a memo table `table[key] = value` whose value is a function of the key and of loop-invariant
    values only, read as `table[key']` or tested with `if key not in table:` in front of nothing but such stores —
    what is read under a key does not depend on the iteration that stored it.
"""
from __future__ import annotations

import ast
from dataclasses import dataclass, field

from ..cfg import DataFlow
from ..model import AnalysisError, FuncInfo, norm_text, walk_no_nested


@dataclass
class AtomLoop:
    loop: ast.For
    header: int
    body: set
    accumulators: list  # names updated in the body, initialised before the loop, reaching the result
    derived: bool  # the iterable is derived from the atoms parameter


@dataclass
class LoopVerdict:
    loop: AtomLoop
    per_iteration: list = field(default_factory=list)  # rebound in every iteration before every read
    accumulators: list = field(default_factory=list)  # carried, but only into their own update
    tables: list = field(default_factory=list)  # memo tables keyed by a per-iteration key (value = function of the key)
    stale: dict = field(default_factory=dict)  # var -> (def stmt, reading stmt, guards of the in-loop defs)
    undecided: list = field(default_factory=list)  # texts


def _is_update(df: DataFlow, d) -> bool:
    """The definition builds the new value of the variable from its old one."""
    return (not d.strong) or d.var in df.def_value_uses(d)


def _result_vars(df: DataFlow) -> set:
    out: set = set()
    for n in df.cfg.nodes:
        st = n.ast
        if n.kind == "stmt" and isinstance(st, ast.Return) and st.value is not None:
            sl = df.backward_slice(n.idx, st.value)
            out |= sl.visited
        elif n.kind == "stmt" and isinstance(st, ast.Expr) and isinstance(st.value, (ast.Yield, ast.YieldFrom)) \
                and st.value.value is not None:
            out |= df.backward_slice(n.idx, st.value.value).visited
    return out


def atom_loops(f: FuncInfo, df: DataFlow, source: str) -> list:
    """`for` loops of `f` (nested functions excluded) whose body updates a variable that is initialised before the loop
    and flows into the result of `f`."""
    res = _result_vars(df)
    out = []
    for loop in [n for n in walk_no_nested(f.node) if isinstance(n, (ast.For, ast.While))]:
        header = df.cfg.node_of(loop).idx
        body = df.cfg.loop_body_nodes(header)
        accs = []
        for d in df.defs:
            if d.node not in body or not _is_update(df, d) or d.var in accs or d.var not in res:
                continue
            if any(df.defs[i].var == d.var and df.defs[i].node not in body for i in df.IN[header]):
                accs.append(d.var)
        if not accs:
            continue
        it = loop.iter if isinstance(loop, ast.For) else loop.test
        sl = df.backward_slice(header, it)
        out.append(AtomLoop(loop, header, body, accs, source in sl.params or source in sl.visited))
    return out


def _guard_map(loop) -> dict:
    """id(statement inside the loop) -> [(If node, arm taken)] of the enclosing conditionals inside the loop"""
    out: dict = {}

    def visit(body, guards):
        for st in body:
            out[id(st)] = list(guards)
            if isinstance(st, ast.If):
                visit(st.body, guards + [(st, True)])
                visit(st.orelse, guards + [(st, False)])
            elif isinstance(st, (ast.For, ast.While)):
                visit(st.body, guards)
                visit(st.orelse, guards)
            elif isinstance(st, ast.With):
                visit(st.body, guards)
            elif isinstance(st, ast.Try):
                visit(st.body, guards)
                for h in st.handlers:
                    out[id(h)] = list(guards)
                    visit(h.body, guards)
                visit(st.orelse, guards)
                visit(st.finalbody, guards)

    visit(loop.body, [])
    return out


def _text(st) -> str:
    if isinstance(st, ast.If):
        return "if " + norm_text(st.test)
    if isinstance(st, ast.For):
        return "for ... in " + norm_text(st.iter)
    if isinstance(st, ast.While):
        return "while " + norm_text(st.test)
    return norm_text(st)


def guard_text(guards) -> str:
    return " and ".join(("" if arm else "not ") + "(" + norm_text(g.test) + ")" for g, arm in guards) or "unconditionally"


def _loop_names(df: DataFlow, al: "AtomLoop", node: int, expr) -> set:
    """variables assigned by the loop (targets of the header included) on which `expr` (evaluated at `node`) depends"""
    inside = {d.var for d in df.defs if d.node in al.body or d.node == al.header}
    return {w for w in df.backward_slice(node, expr).visited if w in inside}


def _keyed_table(df: DataFlow, al: AtomLoop, var: str, foreign, settled: set) -> bool:
    """`var` is a memo table: every store in the loop is `var[K] = E` with E a function of K and loop invariants, and
    every other read is `var[K']` or the test `K' not in var` guarding nothing but such stores."""
    body = al.body
    stores = []
    for d in df.defs:
        if d.var != var or d.node not in body:
            continue
        st = df.cfg.nodes[d.node].ast
        if d.kind != "store" or not isinstance(st, ast.Assign) or len(st.targets) != 1:
            return False
        t = st.targets[0]
        if not (isinstance(t, ast.Subscript) and isinstance(t.value, ast.Name) and t.value.id == var
                and not isinstance(t.slice, ast.Slice)):
            return False
        kn = _loop_names(df, al, d.node, t.slice)
        en = _loop_names(df, al, d.node, st.value)
        if var in kn or var in en or not en <= kn or not kn <= settled:
            return False
        stores.append(st)
    if not stores:
        return False

    def only_subscript_loads(root) -> bool:
        sub = {id(n.value) for n in ast.walk(root) if isinstance(n, ast.Subscript) and isinstance(n.ctx, ast.Load)
               and not isinstance(n.slice, ast.Slice)}
        return all(id(n) in sub for n in ast.walk(root) if isinstance(n, ast.Name) and n.id == var)

    for _d, use in foreign:
        n = df.cfg.nodes[use]
        st = n.ast
        if n.kind == "test":
            t = st.test
            absent = isinstance(t, ast.Compare) and len(t.ops) == 1 and isinstance(t.ops[0], ast.NotIn) \
                and isinstance(t.comparators[0], ast.Name) and t.comparators[0].id == var \
                and not any(isinstance(m, ast.Name) and m.id == var for m in ast.walk(t.left))
            if absent and not st.orelse and all(any(b is s_ for s_ in stores) for b in st.body):
                continue
            if only_subscript_loads(t):
                continue
            return False
        root = st.iter if n.kind == "loop" and isinstance(st, ast.For) else st
        if n.kind in ("with", "handler") or not only_subscript_loads(root):
            return False
    return True


def examine(f: FuncInfo, df: DataFlow, al: AtomLoop) -> LoopVerdict:
    v = LoopVerdict(al)
    h, body = al.header, al.body
    gm = _guard_map(al.loop)
    names = []
    for d in df.defs:
        if d.node in body and d.var not in names:
            names.append(d.var)
    carried_reads: dict = {}
    for var in names:
        pairs = df.loop_carried(h, var)
        if not pairs:
            v.per_iteration.append(var)
            continue
        foreign = []
        for d, use in pairs:
            own = any(df.defs[j].var == var and _is_update(df, df.defs[j]) for j in df.node_defs.get(use, []))
            if not own:
                foreign.append((d, use))
        if not foreign:
            v.accumulators.append(var)
            continue
        carried_reads[var] = foreign
    # guards of the in-loop definitions of every carried variable, and the carried variables those guards read
    guard_reads: dict = {}
    guards_of: dict = {}
    for var, foreign in carried_reads.items():
        reads: set = set()
        texts = []
        for d in df.defs:
            if d.var != var or d.node not in body or not d.strong:
                continue
            st = df.cfg.nodes[d.node].ast
            gs = gm.get(id(st))
            if gs is None:
                raise AnalysisError(f"{f.qualname}: cannot locate the definition `{_text(st)[:60]}` inside the loop")
            t = guard_text(gs)
            if t not in texts:
                texts.append(t)
            for g, _arm in gs:
                sl = df.backward_slice(df.cfg.node_of(g).idx, g.test)
                reads |= {w for w in sl.visited if w in carried_reads}
        guard_reads[var] = reads
        guards_of[var] = texts
    keys = set()
    for var, reads in guard_reads.items():
        keys |= reads - {var}
    for var, foreign in carried_reads.items():
        d, use = foreign[0]
        dst, ust = df.cfg.nodes[d.node].ast, df.cfg.nodes[use].ast
        if all(not dd.strong for dd, _ in foreign) and _keyed_table(df, al, var, foreign, set(v.per_iteration) | {x.var for x in df.defs if x.node == h}):
            v.tables.append(var)
        elif any(not dd.strong for dd, _ in foreign):
            v.undecided.append(f"`{var}` is written in place inside the loop (`{_text(dst)[:60]}`) and read by "
                               f"`{_text(ust)[:60]}` in a later iteration")
        elif guard_reads[var] - {var} or var in keys:
            v.undecided.append(f"`{var}` is carried from one iteration to the next under a guard that reads other "
                               f"carried state ({', '.join(sorted((guard_reads[var] - {var}) or keys))}): a "
                               "memoisation of the last key is not decided")
        else:
            v.stale[var] = (dst, ust, guards_of[var])
    return v
