"""Symbolic reading of an atomic-potential parametrization: scaled parameter rows and kernel components.

A parametrization offers several *forms* of the same atom (`_functions`: potential, scattering_factor, projected_*),
each a kernel function `kernel(x, p)` applied to the rows returned by `scaled_parameters(symbol, name)`.  The rows
are closed-form expressions in the rows T0, T1, ... of the stored coefficient table, in pi and in kappa.

  scaled_rows(cls)       evaluates the straight-line body of `scaled_parameters` symbolically:
                         name of a form -> [row polynomial, ...] over the atoms T0, T1, ..., π, kappa
                         (np.vstack / np.array / np.concatenate of rows, `rows[i] op= c`, temporaries, the final
                         dict literal indexed by `name`)
  kernel_components(..)  evaluates the return value of a kernel as a sum of addends, groups the addends by the
                         component index j of the `p[i, j]` they read, substitutes the scaled rows for p and returns
                         per component a rational function of the kernel argument and T0_j, T1_j, ...; exp(...)
                         factors are kept as atoms named by the normal form of their (substituted) argument.

Two forms agree when the resulting terms are equal — `np.pi * a / k`, `a * np.pi / k`, a temporary, `np.sqrt(x)` vs
`x ** 0.5` are the same term; a wrong power, a swapped row or a misplaced kappa is a different one.
"""
from __future__ import annotations

import ast
import re
from fractions import Fraction
from typing import Optional

from ..cfg import DataFlow
from ..model import AnalysisError, ClassInfo, FuncInfo, call_name, dotted, norm_text
from ..terms import Normalizer, Poly
from .ratfun import Rat, RatFlow

KAPPA = "kappa"


class Table:
    """The stored coefficient table: row i is the atom T<i> unless it was rescaled in place."""

    def __init__(self, over: Optional[dict[int, Poly]] = None):
        self.over = dict(over or {})

    def row(self, i: int) -> Poly:
        return self.over.get(i, Poly.atom(f"T{i}"))


class _RowNorm(Normalizer):
    def __init__(self, env: dict):
        super().__init__()
        self.env = env

    def norm(self, n: ast.AST) -> Poly:
        if isinstance(n, ast.Subscript) and isinstance(n.value, ast.Name) and n.value.id in self.env:
            rows = self.env[n.value.id]
            i = Normalizer().norm(n.slice).const_value()
            if i is not None and i.denominator == 1 and isinstance(rows, (Table, list)):
                i = int(i)
                if isinstance(rows, Table):
                    if i < 0:
                        raise AnalysisError("negative row index into the coefficient table")
                    return rows.row(i)
                if -len(rows) <= i < len(rows):
                    return rows[i]
                raise AnalysisError(f"row {i} of `{n.value.id}` does not exist")
            raise AnalysisError(f"cannot read `{norm_text(n)}` as a row")
        return super().norm(n)

    def _name(self, name: str) -> Poly:
        v = self.env.get(name)
        if isinstance(v, Poly):
            return v
        if v is not None:
            raise AnalysisError(f"`{name}` (a stack of rows) used as a scalar")
        return super()._name(name)


def _is_table_read(e: ast.AST) -> bool:
    if isinstance(e, ast.Call) and (call_name(e) or "").split(".")[-1] in ("array", "asarray", "copy", "deepcopy") \
            and e.args:
        e = e.args[0]
    if isinstance(e, ast.Call) and isinstance(e.func, ast.Attribute) and e.func.attr == "copy" and not e.args:
        e = e.func.value
    return isinstance(e, ast.Subscript) and dotted(e.value) in ("self.parameters", "self._parameters")


def scaled_rows(cls: ClassInfo) -> dict[str, list]:
    f = cls.own_method("scaled_parameters")
    if f is None:
        raise AnalysisError(f"{cls.qualname}: no scaled_parameters")
    params = f.positional_params
    if len(params) < 3:
        raise AnalysisError(f"{f.qualname}: signature")
    name_param = params[2]
    env: dict = {}

    def rows_of(e: ast.AST):
        nz = _RowNorm(env)
        if _is_table_read(e):
            return Table()
        if isinstance(e, ast.Name) and isinstance(env.get(e.id), (Table, list, dict)):
            return env[e.id]
        if isinstance(e, ast.Call):
            short = (call_name(e) or "").split(".")[-1]
            if short in ("vstack", "array", "stack", "asarray") and e.args and isinstance(e.args[0], (ast.Tuple, ast.List)):
                return [nz.norm(x) for x in e.args[0].elts]
            if short == "concatenate" and e.args and isinstance(e.args[0], (ast.Tuple, ast.List)):
                out: list = []
                for part in e.args[0].elts:
                    if isinstance(part, ast.Name) and isinstance(env.get(part.id), list):
                        out += env[part.id]
                    elif isinstance(part, (ast.Tuple, ast.List)):
                        out += [nz.norm(x) for x in part.elts]
                    else:
                        raise AnalysisError(f"{f.qualname}: cannot read `{norm_text(part)[:50]}` as rows")
                return out
        return None

    for st in f.body:
        if isinstance(st, ast.Expr) and isinstance(st.value, ast.Constant):
            continue
        if isinstance(st, ast.Assign) and len(st.targets) == 1 and isinstance(st.targets[0], ast.Name):
            tgt = st.targets[0].id
            if isinstance(st.value, ast.Dict):
                d = {}
                for k, v in zip(st.value.keys, st.value.values):
                    if not (isinstance(k, ast.Constant) and isinstance(k.value, str)):
                        raise AnalysisError(f"{f.qualname}: non-literal key in the table of forms")
                    r = rows_of(v)
                    if not isinstance(r, (Table, list)):
                        raise AnalysisError(f"{f.qualname}: cannot read the rows of form '{k.value}'")
                    d[k.value] = r
                env[tgt] = d
                continue
            r = rows_of(st.value)
            env[tgt] = r if r is not None else _RowNorm(env).norm(st.value)
            continue
        if isinstance(st, ast.AugAssign) and isinstance(st.target, ast.Subscript) and isinstance(st.target.value, ast.Name) \
                and isinstance(env.get(st.target.value.id), (Table, list)):
            rows = env[st.target.value.id]
            i = Normalizer().norm(st.target.slice).const_value()
            if i is None or i.denominator != 1 or i < 0:
                raise AnalysisError(f"{f.qualname}: cannot read `{norm_text(st)[:60]}`")
            i = int(i)
            c = _RowNorm(env).norm(st.value)
            old = rows.row(i) if isinstance(rows, Table) else rows[i]
            new = {ast.Mult: lambda: old * c, ast.Div: lambda: old * c.inverse(), ast.Add: lambda: old + c,
                   ast.Sub: lambda: old - c}.get(type(st.op))
            if new is None:
                raise AnalysisError(f"{f.qualname}: cannot read `{norm_text(st)[:60]}`")
            if sum(1 for v in env.values() if v is rows) > 1:
                raise AnalysisError(f"{f.qualname}: in-place update of rows that have a second name")
            if isinstance(rows, Table):
                # every alias of the table sees the update (that is R-TABLEOWN's business); rows read later do too
                env[st.target.value.id] = Table({**rows.over, i: new()})
            else:
                rows = list(rows)
                rows[i] = new()
                env[st.target.value.id] = rows
            continue
        if isinstance(st, ast.Return) and isinstance(st.value, ast.Subscript) and isinstance(st.value.value, ast.Name) \
                and isinstance(env.get(st.value.value.id), dict) and isinstance(st.value.slice, ast.Name) \
                and st.value.slice.id == name_param:
            return env[st.value.value.id]
        raise AnalysisError(f"{f.qualname}: cannot read `{norm_text(st)[:70]}` (scaled_parameters is expected to be "
                            "straight-line code ending in `return <table of forms>[name]`)")
    raise AnalysisError(f"{f.qualname}: no `return <table of forms>[name]`")


# ---------------------------------------------------------------------------------------------------------- kernels
def _addends(e: ast.AST, sign: int = 1) -> list[tuple[int, ast.AST]]:
    """Flatten +, - and distribute a product over a parenthesised sum: 8*pi*(A + B) -> 8*pi*A, 8*pi*B."""
    if isinstance(e, ast.BinOp) and isinstance(e.op, (ast.Add, ast.Sub)):
        return _addends(e.left, sign) + _addends(e.right, sign if isinstance(e.op, ast.Add) else -sign)
    if isinstance(e, ast.UnaryOp) and isinstance(e.op, ast.USub):
        return _addends(e.operand, -sign)
    if isinstance(e, ast.BinOp) and isinstance(e.op, ast.Mult):
        for a, b, left in ((e.left, e.right, True), (e.right, e.left, False)):
            if isinstance(b, ast.BinOp) and isinstance(b.op, (ast.Add, ast.Sub)):
                return [(s, ast.BinOp(left=a, op=ast.Mult(), right=x) if left else ast.BinOp(left=x, op=ast.Mult(), right=a))
                        for s, x in _addends(b, sign)]
    if isinstance(e, ast.BinOp) and isinstance(e.op, ast.Div) and isinstance(e.left, ast.BinOp) and \
            isinstance(e.left.op, (ast.Add, ast.Sub)):
        return [(s, ast.BinOp(left=x, op=ast.Div(), right=e.right)) for s, x in _addends(e.left, sign)]
    return [(sign, e)]


class Component:
    """One addend group of a kernel: `rat` over the atoms x (kernel argument), T<i>_<j>, π, kappa, exp<k> and the
    normal forms of the exp arguments."""

    def __init__(self, rat: Rat, exps: dict[str, Poly], opaque: bool = False):
        self.rat, self.exps, self.opaque = rat, exps, opaque


def kernel_components(kernel: FuncInfo, rows) -> dict[int, list[Component]]:
    """component index j -> addends (each a Component) of kernel(x, p) with p := rows."""
    if len(kernel.positional_params) < 2:
        raise AnalysisError(f"{kernel.qualname}: kernel signature")
    xname, pname = kernel.positional_params[:2]
    rets = [r for r in ast.walk(kernel.node) if isinstance(r, ast.Return) and r.value is not None]
    if len(rets) != 1:
        raise AnalysisError(f"{kernel.qualname}: expected one return")
    df = DataFlow(kernel.node)
    node = df.cfg.node_of(rets[0]).idx
    val = rets[0].value
    hops = 0
    while isinstance(val, ast.Name) and hops < 4:
        d = df.single_def(node, val.id)
        if d is None or d.kind != "assign" or d.value is None:
            raise AnalysisError(f"{kernel.qualname}: cannot follow the returned value")
        val, node, hops = d.value, d.node, hops + 1
    out: dict[int, list[Component]] = {}
    for sign, add in _addends(val):
        exps_raw: list[Rat] = []

        def hook(nz, c: ast.Call):
            if (call_name(c) or "").split(".")[-1] == "exp" and len(c.args) == 1:
                exps_raw.append(nz.rat(c.args[0]))
                return Poly.atom(f"exp#{len(exps_raw) - 1}")
            return None
        rf = RatFlow(df, node, call_hook=hook)
        rf.no_inline.add(pname)
        rat = rf.rat(add)
        if sign < 0:
            rat = -rat
        atoms = set(rat.atoms())
        for r in exps_raw:
            atoms |= r.atoms()
        # p[i,j] atoms -> rows
        mapping: dict[str, Poly] = {}
        js = set()
        opaque = False
        pat = re.compile(r"^(?:1\*)?" + re.escape(pname) + r"\[(-?\d+),(-?\d+)\]$")
        for a in atoms:
            m = pat.match(a)
            if m:
                i, j = int(m.group(1)), int(m.group(2))
                js.add(j)
                row = rows.row(i) if isinstance(rows, Table) else (rows[i] if 0 <= i < len(rows) else None)
                if row is None:
                    raise AnalysisError(f"{kernel.qualname}: reads row {i}, the scaled parameters have {len(rows)}")
                mapping[a] = row.subst({t: Poly.atom(f"{t}_{j}") for t in row.atoms() if t.startswith("T")
                                        and t[1:].isdigit()})
            elif re.search(r"(?<![A-Za-z0-9_])" + re.escape(pname) + r"(?![A-Za-z0-9_])", a):
                inner = re.findall(re.escape(pname) + r"\[(-?\d+),(-?\d+)\]", a)
                rest = re.sub(re.escape(pname) + r"\[(-?\d+),(-?\d+)\]", "", a)
                if not inner or re.search(r"(?<![A-Za-z0-9_])" + re.escape(pname) + r"(?![A-Za-z0-9_])", rest):
                    raise AnalysisError(f"{kernel.qualname}: the parameter access `{a}` is not read")
                js |= {int(j) for _, j in inner}
                opaque = True  # a special function of the parameters (Bessel ...): kept as it is, never compared
        if len(js) != 1:
            raise AnalysisError(f"{kernel.qualname}: an addend mixes components {sorted(js)}")
        mapping[xname] = Poly.atom("x")
        # fractional powers of substituted atoms need monomial rows
        rat = Rat(_subst(rat.num, mapping), _subst(rat.den, mapping))
        exps: dict[str, Poly] = {}
        ren: dict[str, Poly] = {}
        for k, r in enumerate(exps_raw):
            num, den = _subst(r.num, mapping), _subst(r.den, mapping)
            if not den.is_monomial():
                raise AnalysisError(f"{kernel.qualname}: exponent with a non-monomial denominator")
            arg = num * den.inverse()
            name = f"exp({arg.key()})"
            exps[name] = arg
            ren[f"exp#{k}"] = Poly.atom(name)
        rat = Rat(rat.num.subst(ren), rat.den.subst(ren))
        out.setdefault(js.pop(), []).append(Component(rat, exps, opaque))
    return out


def _subst(p: Poly, mapping: dict[str, Poly]) -> Poly:
    for m in p.terms:
        for a, e in m:
            if a in mapping and e.denominator != 1 and not mapping[a].is_monomial():
                raise AnalysisError("fractional power of a non-monomial scaled parameter")
    return p.subst(mapping)


def total(comps: list[Component]) -> Rat:
    r = Rat(Poly.const(0))
    for c in comps:
        if c.opaque:
            raise AnalysisError("a kernel addend with a special function of the parameters cannot be compared")
        r = r + c.rat
    return r


def gaussian(c: Component) -> Optional[tuple[Poly, Poly, int]]:
    """(A, B, n) when the addend is A * exp(-B * x**n) with A, B free of x (n = 1 or 2), else None."""
    if len(c.exps) != 1 or c.opaque:
        return None
    (name, arg), = c.exps.items()
    if not c.rat.den.is_monomial():
        return None
    p = c.rat.num * c.rat.den.inverse()
    amp = p * Poly.atom(name).inverse()
    if name in amp.atoms() or "x" in amp.atoms():
        return None
    for n in (2, 1):
        b = -(arg * Poly.atom("x").power(Fraction(-n)))
        if "x" not in b.atoms():
            return amp, b, n
    return None


def resolve_kernel(repo, cls: ClassInfo, form: str) -> Optional[FuncInfo]:
    fa = cls.find_class_attr("_functions")
    if fa is None or not isinstance(fa[1], ast.Dict):
        return None
    for k, v in zip(fa[1].keys, fa[1].values):
        if isinstance(k, ast.Constant) and k.value == form:
            d = dotted(v)
            if d is None or "." not in d:
                raise AnalysisError(f"{cls.qualname}: cannot resolve the kernel of '{form}'")
            modalias, fname = d.rsplit(".", 1)
            for cand in (f"abtem.parametrizations.functions.{modalias.split('.')[-1]}",):
                if cand in repo.modules:
                    return repo.function(cand, fname)
            raise AnalysisError(f"{cls.qualname}: kernel module of '{form}' ({d}) not found")
    return None
