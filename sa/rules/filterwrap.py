"""Neighbourhood filters on periodic grids use the periodic boundary.

scipy.ndimage / cupyx.scipy.ndimage filters (gaussian_filter, gaussian_filter1d, convolve, correlate, uniform_filter,
map_coordinates, shift ...) extend the array beyond its edges according to `mode`, whose default is "reflect" (or
"constant" for the interpolating functions).  A potential slice is one period of a periodic function: smearing or
convolving it is translation-equivariant under periodic rolls, and the repeated cell equals the tiled unit cell, only
if the filter wraps.  For every call of such a filter in the given modules — the callee is recognised through the
object it is taken from (get_ndimage_module(...), scipy.ndimage, an import from scipy.ndimage, or a local bound to
one of these), not through the name of a variable — the `mode` argument must be the constant "wrap" on every
reaching definition.  A filter of an ndimage module that is not in the table of known functions is an analysis error.
"""
from __future__ import annotations

import ast

from ..cfg import DataFlow
from ..model import AnalysisError, FuncInfo, call_name, dotted, norm_text, walk_no_nested

# filter -> 0-based position of `mode` among the positional parameters (scipy signatures)
FILTERS = {
    "gaussian_filter": 4, "gaussian_filter1d": 5, "convolve": 3, "convolve1d": 4, "correlate": 3, "correlate1d": 4,
    "uniform_filter": 3, "uniform_filter1d": 4, "map_coordinates": 4, "shift": 4, "zoom": 4, "rotate": 6,
    "affine_transform": 6, "sobel": 3, "prewitt": 3, "laplace": 2, "gaussian_laplace": 3,
    "gaussian_gradient_magnitude": 3, "median_filter": 5, "maximum_filter": 5, "minimum_filter": 5,
    "generic_filter": 5, "spline_filter": None, "spline_filter1d": None, "fourier_gaussian": None,
    "fourier_shift": None,
}
BOUNDARY_FREE = {"center_of_mass", "label", "sum", "mean", "find_objects", "binary_dilation", "binary_erosion",
                 "distance_transform_edt", "fourier_gaussian", "fourier_shift", "spline_filter", "spline_filter1d"}
MODULE_MAKERS = {"get_ndimage_module"}


def _is_ndimage_expr(f: FuncInfo, df: DataFlow, e: ast.AST, at: int, imports: dict, depth: int = 0) -> bool:
    if depth > 6:
        return False
    if isinstance(e, ast.Call):
        return (call_name(e) or "").split(".")[-1] in MODULE_MAKERS
    d = dotted(e)
    if d is not None:
        head = d.split(".")[0]
        full = imports.get(head, head) + d[len(head):]
        if full.endswith("ndimage") and ("scipy" in full or "cupyx" in full):
            return True
        if isinstance(e, ast.Attribute) and e.attr == "ndimage":
            return True
    if isinstance(e, ast.Name):
        rd = df.reaching(at, e.id)
        vals = [x for x in rd if x.kind == "assign" and x.value is not None]
        return bool(vals) and len(vals) == len(rd) and all(
            _is_ndimage_expr(f, df, x.value, x.node, imports, depth + 1) for x in vals)
    return False


def _callee_filter(f: FuncInfo, df: DataFlow, c: ast.Call, at: int, imports: dict):
    """name of the ndimage function a call invokes, or None"""
    fn = c.func
    if isinstance(fn, ast.Attribute) and _is_ndimage_expr(f, df, fn.value, at, imports):
        return fn.attr
    if isinstance(fn, ast.Name):
        full = imports.get(fn.id)
        if full and ".ndimage" in full:
            return full.split(".")[-1]
        rd = df.reaching(at, fn.id)
        if rd and all(x.kind == "import" for x in rd):
            for x in rd:
                st = df.cfg.nodes[x.node].ast
                if isinstance(st, ast.ImportFrom) and st.module and "ndimage" in st.module:
                    for al in st.names:
                        if (al.asname or al.name) == fn.id:
                            return al.name
            return None
        vals = [x for x in rd if x.kind == "assign" and x.value is not None]
        if vals and len(vals) == len(rd):
            names = set()
            for x in vals:
                v = x.value
                if isinstance(v, ast.Attribute) and _is_ndimage_expr(f, df, v.value, x.node, imports):
                    names.add(v.attr)
                else:
                    return None
            if len(names) == 1:
                return names.pop()
            if names:
                raise AnalysisError(f"{f.qualname}: `{fn.id}` can be several ndimage functions")
    return None


def _mode_values(f: FuncInfo, df: DataFlow, e: ast.AST, at: int, depth: int = 0) -> set:
    if depth > 8:
        return {"?"}
    if isinstance(e, ast.Constant):
        return {repr(e.value)}
    if isinstance(e, ast.Name):
        out = set()
        rd = df.reaching(at, e.id)
        if not rd:
            return {"?" + e.id}
        for d in rd:
            if d.kind == "assign" and d.value is not None:
                out |= _mode_values(f, df, d.value, d.node, depth + 1)
            elif d.kind == "param":
                out.add(f"parameter {e.id}")
            else:
                out.add("?" + e.id)
        return out
    if isinstance(e, ast.IfExp):
        return _mode_values(f, df, e.body, at, depth + 1) | _mode_values(f, df, e.orelse, at, depth + 1)
    return {"`" + norm_text(e)[:40] + "`"}


def check(ctx, rule: str, funcs: list, imports_of) -> int:
    n = 0
    for f in funcs:
        df = None
        for st in ast.walk(f.node):
            if not isinstance(st, ast.stmt) or isinstance(st, (ast.FunctionDef, ast.If, ast.For, ast.While, ast.With, ast.Try)):
                continue
            for c in walk_no_nested(st):
                if not isinstance(c, ast.Call):
                    continue
                txt = norm_text(c.func)
                if "ndimage" not in txt and not isinstance(c.func, (ast.Name, ast.Attribute)):
                    continue
                if df is None:
                    df = DataFlow(f.node)
                try:
                    at = df.cfg.node_of(st).idx
                except AnalysisError:
                    continue
                name = _callee_filter(f, df, c, at, imports_of(f))
                if name is None or name in BOUNDARY_FREE:
                    continue
                if name not in FILTERS:
                    raise AnalysisError(f"{f.qualname}: ndimage function `{name}` is not in the table of filters")
                pos = FILTERS[name]
                mode = next((k.value for k in c.keywords if k.arg == "mode"), None)
                if mode is None and pos is not None and len(c.args) > pos:
                    mode = c.args[pos]
                if any(k.arg is None for k in c.keywords):
                    raise AnalysisError(f"{f.qualname}: `{norm_text(c)[:50]}` passes **kwargs to an ndimage filter")
                vals = {"(default: not periodic)"} if mode is None else _mode_values(f, df, mode, at)
                n += 1
                ctx.check(vals == {"'wrap'"}, rule, f"{f.qualname}:{name}", f.loc(c),
                          f"{name}(..., mode='wrap')",
                          f"`{norm_text(c)[:70]}` extends the periodic grid with mode {', '.join(sorted(vals))} instead of "
                          "'wrap': what is smeared across the cell edge is mirrored back (or lost) instead of entering from "
                          "the opposite side, so a whole-pixel translation is no longer a periodic roll and the repeated "
                          "cell differs from the tiled unit cell", key_detail="mode")
    return n
