"""Path facts — which atomic tests are decided on EVERY path that reaches a CFG node.

`necessary_facts(cfg, idx)` returns the list of (atomic test expression, truth value) such that every
path from the function entry to node `idx` leaves the `if` that evaluates the test through the edge on
which the atom has that truth value.  A test is decomposed structurally: `not A` flips, the true edge
of `A and B` establishes A and B, the false edge of `A or B` refutes A and B; the false edge of a
conjunction (true edge of a disjunction) establishes nothing about its members.

`none_polarity(atom, truth, name)` reads one fact as a statement about `name is None`.

Nothing here looks at names or texts of the analysed program: callers say which variable or which
kind of term they are interested in.
"""
from __future__ import annotations

import ast
from typing import Optional

from ..cfg import CFG


def atoms_of(test: ast.expr, truth: bool) -> list[tuple[ast.expr, bool]]:
    """Atomic facts implied by `test` evaluating to `truth`."""
    if isinstance(test, ast.UnaryOp) and isinstance(test.op, ast.Not):
        return atoms_of(test.operand, not truth)
    if isinstance(test, ast.BoolOp):
        if isinstance(test.op, ast.And) and truth:
            return [a for v in test.values for a in atoms_of(v, True)]
        if isinstance(test.op, ast.Or) and not truth:
            return [a for v in test.values for a in atoms_of(v, False)]
        return []
    return [(test, truth)]


def _reachable_without(cfg: CFG, dst: int, cut: set[tuple[int, int]]) -> bool:
    seen = {cfg.entry}
    stack = [cfg.entry]
    while stack:
        n = stack.pop()
        if n == dst:
            return True
        for s in cfg.nodes[n].succ:
            if (n, s) in cut or s in seen:
                continue
            seen.add(s)
            stack.append(s)
    return dst in seen


def _expand(df, at: int, facts, depth: int = 0):
    """A test held in a local (`single = count == 1; if single: ...`) is read through its single definition."""
    if df is None:
        return facts
    out = []
    for a, t in facts:
        if isinstance(a, ast.Name) and depth < 4:
            d = df.single_def(at, a.id)
            if d is not None and d.kind == "assign" and d.value is not None and isinstance(
                    d.value, (ast.Compare, ast.BoolOp, ast.UnaryOp, ast.Name)):
                out += _expand(df, d.node, atoms_of(d.value, t), depth + 1)
                continue
        out.append((a, t))
    return out


def edge_facts(cfg: CFG, test_idx: int, label: str, df=None) -> list[tuple[ast.expr, bool]]:
    """Facts established by leaving the `if` node `test_idx` through its `label` ('T'/'F') edge."""
    t = cfg.nodes[test_idx]
    if t.kind != "test" or not isinstance(t.ast, ast.If):
        return []
    return _expand(df, test_idx, atoms_of(t.ast.test, label == "T"))


def necessary_facts(cfg: CFG, idx: int, df=None) -> list[tuple[ast.expr, bool]]:
    """Atomic facts that hold on every path from the entry to node `idx` (with `df`, tests held in locals are read
    through their single definition)."""
    out: list[tuple[ast.expr, bool]] = []
    for t in cfg.nodes:
        if t.kind != "test" or not isinstance(t.ast, ast.If) or t.idx == idx:
            continue
        for label, other in (("T", "F"), ("F", "T")):
            # every path to idx takes the `label` edge  <=>  idx is unreachable once the `label` edges are cut,
            # and it is reachable at all through them
            mine = {(t.idx, s) for s in t.succ if cfg.elabel.get((t.idx, s)) == label}
            if not mine:
                continue
            if not _reachable_without(cfg, idx, mine) and _reachable_without(cfg, idx, set()):
                out += _expand(df, t.idx, atoms_of(t.ast.test, label == "T"))
    return out


def none_polarity(atom: ast.expr, truth: bool, name: str) -> Optional[bool]:
    """True when the fact says `name is None`, False when it says `name is not None`, None when it says neither."""
    if isinstance(atom, ast.Compare) and len(atom.ops) == 1 and isinstance(atom.left, ast.Name) and \
            atom.left.id == name and isinstance(atom.comparators[0], ast.Constant) and atom.comparators[0].value is None:
        if isinstance(atom.ops[0], (ast.Is, ast.Eq)):
            return truth
        if isinstance(atom.ops[0], (ast.IsNot, ast.NotEq)):
            return not truth
    return None
