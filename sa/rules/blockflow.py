"""R-BLOCKFLOW — every block a partition loop builds is stored at the loop's own position and reaches the result.

A partitioning function walks over the chunk sizes (a `for` loop whose iterable depends on the `chunks` argument),
builds the description of block k from the loop's range variables and puts it into the container it returns.
Reassembling the blocks gives back the original members only if

  * every pass of such a loop *stores* a value that depends on the pass's own range variables
        itemset(C, idx, value)   |   C[idx] = value   |   C.append(value)   |   C += (value,) / C = C + (value,)
    — a loop that stores nothing leaves the pre-allocated container (np.empty / np.zeros of objects) unfilled;
  * an indexed store uses the loop's own counter as the index (the first target of `enumerate(...)`, the block index
    of `iterate_chunk_ranges(...)` / `np.ndindex(...)`): any other index overwrites one slot and leaves the rest empty;
  * on every path from a store to a `return`, the returned value is computed from the container (directly or through
    locals that were computed from it: `blocks += (da.from_array(block, chunks=1),)`, `array = da.concatenate(arrays)`).
    The last clause is a forward must-analysis over the CFG (per-path sets of "carrier" variables), so a container
    that is forwarded in the eager arm but not in the lazy arm is seen.
"""
from __future__ import annotations

import ast
from typing import Optional

from ..cfg import DataFlow, forward_states, uses_of
from ..model import AnalysisError, FuncInfo, call_name, dotted, last_attr, norm_text, walk_no_nested

INDEX_GENERATORS = {"iterate_chunk_ranges", "ndindex"}


def _names(t: ast.AST) -> list[str]:
    return [n.id for n in ast.walk(t) if isinstance(n, ast.Name)]


def _counter(loop: ast.For) -> Optional[str]:
    it, tgt = loop.iter, loop.target
    if isinstance(it, ast.Call) and isinstance(tgt, ast.Tuple) and tgt.elts and isinstance(tgt.elts[0], ast.Name):
        if call_name(it) == "enumerate" or last_attr(it) in INDEX_GENERATORS:
            return tgt.elts[0].id
    if isinstance(it, ast.Call) and last_attr(it) in INDEX_GENERATORS and isinstance(tgt, ast.Name):
        return tgt.id
    return None


def _store(st: ast.stmt):
    """-> (container name | None, index expr | None, value expr, form) for a store statement, else None."""
    if isinstance(st, ast.Expr) and isinstance(st.value, ast.Call):
        c = st.value
        if call_name(c) == "itemset":
            b = dict(zip(("arr", "args", "item"), c.args))
            b.update({k.arg: k.value for k in c.keywords if k.arg})
            if {"arr", "args", "item"} <= set(b):
                return dotted(b["arr"]), b["args"], b["item"], "itemset"
            raise AnalysisError(f"`{norm_text(c)[:60]}`: itemset call without (array, index, item)")
        if isinstance(c.func, ast.Attribute) and c.func.attr == "append" and len(c.args) == 1 and not c.keywords:
            return dotted(c.func.value), None, c.args[0], "append"
    if isinstance(st, ast.Assign) and len(st.targets) == 1 and isinstance(st.targets[0], ast.Subscript):
        t = st.targets[0]
        return dotted(t.value), t.slice, st.value, "subscript"
    if isinstance(st, ast.AugAssign) and isinstance(st.op, ast.Add) and isinstance(st.target, ast.Name) and \
            isinstance(st.value, (ast.Tuple, ast.List)) and len(st.value.elts) == 1:
        return st.target.id, None, st.value.elts[0], "extend"
    if isinstance(st, ast.Assign) and len(st.targets) == 1 and isinstance(st.targets[0], ast.Name) and \
            isinstance(st.value, ast.BinOp) and isinstance(st.value.op, ast.Add) and \
            isinstance(st.value.left, ast.Name) and st.value.left.id == st.targets[0].id and \
            isinstance(st.value.right, (ast.Tuple, ast.List)) and len(st.value.right.elts) == 1:
        return st.targets[0].id, None, st.value.right.elts[0], "extend"
    return None


def check(ctx, f: FuncInfo, rule: str = "R-BLOCKFLOW", chunks_param: str = "chunks") -> int:
    if chunks_param not in f.params:
        raise AnalysisError(f"{f.qualname}: no `{chunks_param}` parameter")
    df = DataFlow(f.node)
    cfg = df.cfg
    loops = []
    for l in walk_no_nested(f.node):
        if isinstance(l, ast.For):
            hdr = cfg.node_of(l).idx
            if chunks_param in df.backward_slice(hdr, l.iter).params:
                loops.append((l, hdr))
    if not loops:
        raise AnalysisError(f"{f.qualname}: no loop over the chunks found")
    n = 0
    store_nodes: dict[int, str] = {}
    used: dict[str, int] = {}
    for loop, hdr in loops:
        body = cfg.loop_body_nodes(hdr)
        targets = set(_names(loop.target))
        counter = _counter(loop)
        position_vars = targets - ({counter} if counter else set())
        found = []
        for idx in sorted(body):
            node = cfg.nodes[idx]
            if node.kind != "stmt" or node.ast is None or hdr != (node.loops[-1] if node.loops else None):
                continue
            s = _store(node.ast)
            if s is None:
                continue
            cont, index, value, form = s
            sl = df.backward_slice(idx, value)
            dep = {v for v in sl.visited if v in targets} | {v for v in _names(value) if v in targets}
            if not dep and index is None:
                continue  # appends something that has nothing to do with this pass
            found.append((idx, node.ast, cont, index, value, form, dep))
        base = f"{f.qualname}:block loop"
        used[base] = used.get(base, 0) + 1
        cname = base if used[base] == 1 else f"{base}#{used[base]}"
        n += 1
        if not found:
            ctx.violation(rule, cname, f.loc(loop),
                          f"the loop `for {norm_text(loop.target)} in {norm_text(loop.iter)[:50]}` builds one block per "
                          "pass but stores none of them (no itemset / indexed assignment / append of a value that depends "
                          "on the loop variables): the container handed to the block function keeps its initial content",
                          key_detail="no-store")
            continue
        ctx.ok(rule, cname, f.loc(loop), f"`for ... in {norm_text(loop.iter)[:50]}`: {len(found)} store(s) per pass")
        for idx, st, cont, index, value, form, dep in found:
            sname = f"{cname}:store"
            if cont is None or cont in targets:
                ctx.violation(rule, sname, f.loc(st),
                              f"`{norm_text(st)[:70]}` stores into `{cont or norm_text(st)[:20]}`, which is a loop variable, "
                              "not the container of the blocks", key_detail="container")
                continue
            if index is not None:
                n += 1
                if counter is None:
                    raise AnalysisError(f"{f.qualname}: indexed store `{norm_text(st)[:50]}` in a loop without a "
                                        "recognisable block counter")
                ok = isinstance(index, ast.Name) and index.id == counter
                if not ok and isinstance(index, ast.Name):
                    d = df.single_def(idx, index.id)
                    ok = d is not None and d.node in body and isinstance(d.value, ast.Name) and d.value.id == counter
                ctx.check(ok, rule, sname + ":index", f.loc(st), f"block k is stored at index k (`{counter}`)",
                          f"`{norm_text(st)[:70]}` stores the block at `{norm_text(index)[:30]}`, not at the loop's own "
                          f"counter `{counter}`: blocks overwrite each other or land in the wrong slot",
                          key_detail="index")
            n += 1
            uses_position = bool(dep & position_vars) or (not position_vars and bool(dep))
            ctx.check(uses_position, rule, sname + ":value", f.loc(st),
                      f"the stored value depends on the pass's range variables {sorted(dep & position_vars) or sorted(dep)}",
                      f"`{norm_text(value)[:60]}` does not depend on the loop's range variables "
                      f"{sorted(position_vars)}: every block gets the same content", key_detail="value")
            store_nodes[idx] = cont

    # ---- must-flow of the containers into the returned value
    if store_nodes:
        def transfer(node, state, label, succ):
            carriers, stored = state
            st = node.ast
            if node.idx in store_nodes:
                return (carriers | {store_nodes[node.idx]}, True)
            if node.kind == "stmt" and isinstance(st, (ast.Assign, ast.AnnAssign, ast.AugAssign)):
                value = st.value
                if value is None:
                    return state
                tgts = st.targets if isinstance(st, ast.Assign) else [st.target]
                names = [t.id for t in tgts if isinstance(t, ast.Name)]
                names += [e.id for t in tgts if isinstance(t, (ast.Tuple, ast.List)) for e in t.elts
                          if isinstance(e, ast.Name)]
                carries = bool((uses_of(value) | set(_names(value))) & carriers)
                if carries:
                    return (carriers | frozenset(names), stored)
                if isinstance(st, ast.AugAssign):
                    return state
                return (carriers - frozenset(names), stored)
            return state

        states = forward_states(cfg, (frozenset(), False), transfer, max_states=256)
        rets = [nd for nd in cfg.nodes if nd.kind == "stmt" and isinstance(nd.ast, ast.Return)]
        seen_stored = False
        for nd in rets:
            after = [c for c, stored in states[nd.idx] if stored]
            if not after:
                continue
            seen_stored = True
            val = nd.ast.value
            reads = (uses_of(val) | set(_names(val))) if val is not None else set()
            lost = [c for c in after if not (reads & c)]
            n += 1
            ctx.check(not lost, rule, f"{f.qualname}:returned", f.loc(nd.ast),
                      f"the returned value is computed from the filled container(s) on all {len(after)} path state(s)",
                      f"on a path through the block loop `{norm_text(nd.ast)[:50]}` returns a value that is not "
                      f"computed from the container(s) the blocks were stored in ({sorted(lost[0]) if lost else ''}): "
                      "the blocks are built and dropped", key_detail="returned")
        if not seen_stored:
            raise AnalysisError(f"{f.qualname}: no return is reachable after the block loop")
    return n
