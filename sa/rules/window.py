"""Half-open index windows [lo, hi): order of the bounds, lengths derived from them, running slice counters.

A *pair* is two integer variables that delimit a half-open run of slice indices:

  * the parameters (first_slice, last_slice) of a function,
  * the two targets of `for lo, hi in generate_chunks(...)` (start and end of one chunk).

Three necessary conditions of "a window yields exactly the corresponding part of the full sequence" are decided on
the commutative-ring normal form of the expressions (sa/terms.py, temporaries inlined):

  order    `range(a, b)` / `x[a:b]` whose bounds are the two members of one pair (up to a constant) run from the lower
           to the upper member; `range(hi, lo)` and `x[hi:lo]` are empty for every window.  A slice `x[e : e + c]`
           with a constant c <= 0 selects nothing.
  length   a length derived from a pair — an element of an allocation shape / of the chunks of a lazy array, the
           number of items handed to generate_chunks — equals hi - lo (and the chunks start at lo).
  counter  a generator that numbers its slices with a running counter c (c = 0 before the loops, c += 1 once per
           pass) selects slice c iff first_slice <= c < last_slice:  the arm that reaches the yield holds under
           c - first_slice >= 0, the arm that ends the generator under c - last_slice >= 0 (shifted by one when the
           increment precedes the test), no pass skips the increment, and a test against a window bound compares it
           with something that changes from pass to pass.
"""
from __future__ import annotations

import ast
from fractions import Fraction
from typing import Optional

from ..cfg import DataFlow
from ..model import AnalysisError, FuncInfo, call_name, dotted, kw, last_attr, norm_text, walk_no_nested
from ..terms import FlowNormalizer, Poly
from .flowdeps import cfg_stmt_of

ALLOCATORS = {"zeros", "empty", "ones", "full"}
CHUNKERS = {"generate_chunks"}
WINDOW = ("first_slice", "last_slice")


def pairs_of(f: FuncInfo) -> list[tuple[str, str, str]]:
    """(lo, hi, description) — description never contains a local name."""
    out = []
    if all(p in f.params for p in WINDOW):
        out.append((WINDOW[0], WINDOW[1], "the window (first_slice, last_slice)"))
    k = 0
    for n in walk_no_nested(f.node):
        if isinstance(n, ast.For) and isinstance(n.iter, ast.Call):
            it, tgt = n.iter, n.target
            if call_name(it) == "enumerate" and it.args and isinstance(it.args[0], ast.Call) and \
                    isinstance(tgt, ast.Tuple) and len(tgt.elts) == 2:
                it, tgt = it.args[0], tgt.elts[1]
            if last_attr(it) in CHUNKERS and isinstance(tgt, ast.Tuple) and len(tgt.elts) == 2 and \
                    all(isinstance(e, ast.Name) for e in tgt.elts):
                k += 1
                out.append((tgt.elts[0].id, tgt.elts[1].id, f"the (start, end) of chunk loop #{k}"))
    return out


class _Owner:
    """expression node -> CFG node that evaluates it (same answer as flowdeps.cfg_stmt_of, computed once)."""

    def __init__(self, df: DataFlow, func: ast.AST):
        self.df = df
        self.map: dict[int, ast.AST] = {}
        self._fill(func)

    def _fill(self, func: ast.AST) -> None:
        stack = [func]
        while stack:
            st = stack.pop()
            for ch in ast.iter_child_nodes(st):
                if isinstance(ch, (ast.FunctionDef, ast.AsyncFunctionDef, ast.ClassDef, ast.Lambda)) and ch is not func:
                    if isinstance(ch, ast.stmt) and id(ch) in self.df.cfg.stmt_node:
                        self.map.setdefault(id(ch), ch)
                    continue
                stack.append(ch)
            if not isinstance(st, ast.stmt) or id(st) not in self.df.cfg.stmt_node:
                continue
            if isinstance(st, ast.If):
                heads = [st.test]
            elif isinstance(st, ast.For):
                heads = [st.iter, st.target]
            elif isinstance(st, ast.While):
                heads = [st.test]
            elif isinstance(st, ast.With):
                heads = [i.context_expr for i in st.items]
            elif isinstance(st, ast.Try):
                heads = []
            else:
                heads = [st]
            for h in heads:
                for n in ast.walk(h):
                    self.map[id(n)] = st

    def node_of(self, expr: ast.AST):
        st = self.map.get(id(expr))
        return self.df.cfg.node_of(st) if st is not None else None


_OWNERS: dict[int, _Owner] = {}


def _owner(df: DataFlow, func: ast.AST) -> _Owner:
    o = _OWNERS.get(id(df))
    if o is None or o.df is not df:
        o = _Owner(df, func)
        _OWNERS.clear()
        _OWNERS[id(df)] = o
    return o


def _norm(df: DataFlow, node_idx: int, e: ast.AST) -> Poly:
    return FlowNormalizer(df, node_idx, identity_calls={"int"}).norm(e)


def _const_diff(p: Poly, q: Poly) -> Optional[Fraction]:
    return (p - q).const_value()


# ------------------------------------------------------------------------------------------------ order
def check_order(ctx, rule: str, f: FuncInfo, df: Optional[DataFlow] = None) -> int:
    df = df or DataFlow(f.node)
    pairs = pairs_of(f)
    n = 0
    used: dict[str, int] = {}

    def construct(base: str) -> str:
        used[base] = used.get(base, 0) + 1
        return base if used[base] == 1 else f"{base}#{used[base]}"

    for node in walk_no_nested(f.node):
        a = b = None
        what = ""
        if isinstance(node, ast.Call) and call_name(node) == "range" and len(node.args) in (2, 3):
            if len(node.args) == 3 and not (isinstance(node.args[2], ast.Constant) and node.args[2].value == 1):
                continue
            a, b, what = node.args[0], node.args[1], "range"
        elif isinstance(node, ast.Subscript) and isinstance(node.slice, ast.Slice) and node.slice.step is None \
                and node.slice.lower is not None and node.slice.upper is not None:
            a, b, what = node.slice.lower, node.slice.upper, "slice"
        if a is None:
            continue
        st = _owner(df, f.node).node_of(node)
        if st is None:
            continue
        pa, pb = _norm(df, st.idx, a), _norm(df, st.idx, b)
        hit = False
        for lo, hi, desc in pairs:
            A, B = Poly.atom(lo), Poly.atom(hi)
            straight = _const_diff(pa, A) is not None and _const_diff(pb, B) is not None
            inverted = _const_diff(pa, B) is not None and _const_diff(pb, A) is not None
            if straight or inverted:
                hit = True
                n += 1
                ctx.check(straight, rule, construct(f"{f.qualname}:{what} over {desc}"), f.loc(node),
                          f"`{norm_text(node)[:60]}` runs from the lower to the upper bound",
                          f"`{norm_text(node)[:60]}` runs from the upper bound of {desc} to its lower bound: it is empty "
                          "for every window, so no slice of the window is produced", key_detail="order")
                break
        if hit or what != "slice":
            continue
        d = _const_diff(pb, pa)
        if d is not None and not pa.is_const():
            n += 1
            ctx.check(d > 0, rule, construct(f"{f.qualname}:slice of constant length"), f.loc(node),
                      f"`{norm_text(node)[:60]}` selects {d} element(s)",
                      f"`{norm_text(node)[:60]}` has the constant length {d}: it selects nothing, whatever the index",
                      key_detail="empty-slice")
    return n


# ------------------------------------------------------------------------------------------------ length
def _tuple_elements(df: DataFlow, node_idx: int, e: ast.AST, depth: int = 0):
    """Elements of the tuple literals a shape expression is concatenated from (temporaries followed)."""
    if depth > 6:
        return
    if isinstance(e, (ast.Tuple, ast.List)):
        for el in e.elts:
            if not isinstance(el, ast.Starred):
                yield el, node_idx
    elif isinstance(e, ast.BinOp) and isinstance(e.op, ast.Add):
        yield from _tuple_elements(df, node_idx, e.left, depth + 1)
        yield from _tuple_elements(df, node_idx, e.right, depth + 1)
    elif isinstance(e, ast.Call) and call_name(e) in ("tuple", "list") and len(e.args) == 1:
        yield from _tuple_elements(df, node_idx, e.args[0], depth + 1)
    elif isinstance(e, ast.Name):
        for d in df.reaching(node_idx, e.id):
            if d.kind == "assign" and d.value is not None:
                st = df.cfg.nodes[d.node].ast
                if isinstance(st, ast.Assign) and any(isinstance(t, ast.Name) and t.id == e.id for t in st.targets):
                    yield from _tuple_elements(df, d.node, d.value, depth + 1)


def check_length(ctx, rule: str, f: FuncInfo, df: Optional[DataFlow] = None) -> int:
    df = df or DataFlow(f.node)
    pairs = pairs_of(f)
    n = 0
    used: dict[str, int] = {}

    def construct(base: str) -> str:
        used[base] = used.get(base, 0) + 1
        return base if used[base] == 1 else f"{base}#{used[base]}"

    def judge(el: ast.AST, at: int, role: str, site: ast.AST) -> None:
        nonlocal n
        p = _norm(df, at, el)
        for lo, hi, desc in pairs:
            if not ({lo, hi} & p.atoms()):
                continue
            want = Poly.atom(hi) - Poly.atom(lo)
            n += 1
            ctx.check(p == want, rule, construct(f"{f.qualname}:{role} = length of {desc}"), f.loc(site),
                      f"`{norm_text(el)[:50]}` = upper - lower bound",
                      f"{role} `{norm_text(el)[:50]}` normalises to {p.key()}, not to the number of slices "
                      f"{want.key()} of {desc}: the declared number of slices differs from the number produced",
                      key_detail="length")
            return

    for c in walk_no_nested(f.node):
        if not isinstance(c, ast.Call):
            continue
        la = last_attr(c)
        root = (dotted(c.func) or "").split(".")[0]
        st = _owner(df, f.node).node_of(c)
        if st is None:
            continue
        if la in ALLOCATORS and isinstance(c.func, ast.Attribute) and (c.args or kw(c, "shape") is not None) and \
                root not in ("self",):
            shape = kw(c, "shape") if kw(c, "shape") is not None else c.args[0]
            for el, at in _tuple_elements(df, st.idx, shape):
                judge(el, at, "allocated extent", c)
        elif la in ("map_blocks", "blockwise") and kw(c, "chunks") is not None:
            for el, at in _tuple_elements(df, st.idx, kw(c, "chunks")):
                judge(el, at, "chunk extent", c)
        elif la in CHUNKERS:
            items = kw(c, "num_items") if kw(c, "num_items") is not None else (c.args[0] if c.args else None)
            start = kw(c, "start") if kw(c, "start") is not None else (c.args[3] if len(c.args) > 3 else None)
            if items is None:
                continue
            p = _norm(df, st.idx, items)
            for lo, hi, desc in pairs:
                if not ({lo, hi} & p.atoms()):
                    continue
                want = Poly.atom(hi) - Poly.atom(lo)
                n += 1
                ok_items = p == want
                ps = _norm(df, st.idx, start) if start is not None else Poly.const(0)
                ok_start = ps == Poly.atom(lo)
                ctx.check(ok_items and ok_start, rule, construct(f"{f.qualname}:chunks cover {desc}"), f.loc(c),
                          f"{want.key()} items starting at the lower bound",
                          f"`{norm_text(c)[:80]}` enumerates {p.key()} items starting at {ps.key()}; {desc} has "
                          f"{want.key()} slices starting at {lo}", key_detail="chunks")
                break
    return n


# ------------------------------------------------------------------------------------------------ counter
def _reach(df: DataFlow, src: int, dsts: set[int], barriers: set[int]) -> bool:
    seen, stack = set(), [src]
    while stack:
        x = stack.pop()
        if x in dsts:
            return True
        if x in seen or x in barriers:
            continue
        seen.add(x)
        stack.extend(df.cfg.nodes[x].succ)
    return False


def _counters(df: DataFlow) -> dict[str, int]:
    """name -> CFG node of the single `name += 1` for variables that are 0 before the loops and advanced by one
    in exactly one place inside a loop."""
    out = {}
    by_var: dict[str, list] = {}
    for d in df.defs:
        by_var.setdefault(d.var, []).append(d)
    for v, ds in by_var.items():
        inits = [d for d in ds if d.kind == "assign"]
        augs = [d for d in ds if d.kind == "aug"]
        if len(ds) != len(inits) + len(augs) or len(augs) != 1 or not inits:
            continue
        if not all(isinstance(d.value, ast.Constant) and d.value.value == 0 and not isinstance(d.value.value, bool)
                   and not df.cfg.nodes[d.node].loops for d in inits):
            continue
        st = df.cfg.nodes[augs[0].node].ast
        if isinstance(st, ast.AugAssign) and isinstance(st.op, ast.Add) and isinstance(st.value, ast.Constant) and \
                st.value.value == 1 and df.cfg.nodes[augs[0].node].loops:
            out[v] = augs[0].node
    return out


def _relation(test: ast.AST, df: DataFlow, at: int, counter: str, bound: str) -> Optional[tuple[str, int]]:
    """test  <=>  D >= m  or  D <= m  with D = counter - bound (integers); None when the test is not such a
    comparison."""
    neg = False
    while isinstance(test, ast.UnaryOp) and isinstance(test.op, ast.Not):
        test, neg = test.operand, not neg
    if not (isinstance(test, ast.Compare) and len(test.ops) == 1 and
            isinstance(test.ops[0], (ast.Lt, ast.LtE, ast.Gt, ast.GtE))):
        return None
    diff = _norm(df, at, test.left) - _norm(df, at, test.comparators[0])
    D = Poly.atom(counter) - Poly.atom(bound)
    sym = {ast.Lt: "<", ast.LtE: "<=", ast.Gt: ">", ast.GtE: ">="}[type(test.ops[0])]
    k = (diff - D).const_value()
    if k is None:
        k = (diff + D).const_value()
        if k is None:
            return None
        # -D + k OP 0  <=>  D OP' k
        sym = {"<": ">", "<=": ">=", ">": "<", ">=": "<="}[sym]
        rhs = k
    else:
        rhs = -k  # D + k OP 0  <=>  D OP -k
    if rhs.denominator != 1:
        return None
    m = int(rhs)
    rel = {">=": (">=", m), ">": (">=", m + 1), "<=": ("<=", m), "<": ("<=", m - 1)}[sym]
    if neg:
        rel = ("<=", rel[1] - 1) if rel[0] == ">=" else (">=", rel[1] + 1)
    return rel


def _negate(rel: tuple[str, int]) -> tuple[str, int]:
    return ("<=", rel[1] - 1) if rel[0] == ">=" else (">=", rel[1] + 1)


def check_counter(ctx, rule: str, f: FuncInfo, df: Optional[DataFlow] = None) -> int:
    """Returns the number of counter tests examined (0: the generator does not number its slices with a counter)."""
    df = df or DataFlow(f.node)
    cfg = df.cfg
    if not all(p in f.params for p in WINDOW):
        return 0
    ynodes = set()
    for y in walk_no_nested(f.node):
        if isinstance(y, (ast.Yield, ast.YieldFrom)):
            st = _owner(df, f.node).node_of(y)
            if st is not None:
                ynodes.add(st.idx)
    if not ynodes:
        return 0
    counters = _counters(df)
    loop_headers = {h for y in ynodes for h in cfg.nodes[y].loops}
    n = 0
    for node in cfg.nodes:
        if node.kind != "test" or not isinstance(node.ast, ast.If) or not (set(node.loops) & loop_headers):
            continue
        test = node.ast.test
        names = {x.id for x in ast.walk(test) if isinstance(x, ast.Name)}
        bounds = [b for b in WINDOW if b in names]
        if not bounds:
            continue
        arms = {cfg.elabel.get((node.idx, s)): s for s in node.succ}
        if set(arms) != {"T", "F"}:
            continue
        barriers = set(node.loops) | {cfg.exit, cfg.rexit}
        to_yield = {k: _reach(df, s, ynodes, barriers) for k, s in arms.items()}
        ever = {k: _reach(df, s, ynodes, {cfg.exit, cfg.rexit}) for k, s in arms.items()}
        selects = to_yield["T"] != to_yield["F"]
        ends = ever["T"] != ever["F"]
        if not (selects or ends):
            continue
        # what is the bound compared with?
        other = names - set(WINDOW)
        inner = cfg.loop_body_nodes(node.loops[0]) | {node.loops[0]}
        moving = [v for v in other if any(d.node in inner for d in df.reaching(node.idx, v))]
        bound = bounds[0]
        role = "ends the generator" if ends else "selects the yield"
        if len(bounds) == 1 and not moving:
            n += 1
            ctx.violation(rule, f"{f.qualname}:test on {bound} ({role})", f.loc(node.ast),
                          f"`if {norm_text(test)[:60]}` {role}, but what {bound} is compared with never changes inside "
                          "the loop (no running slice number is advanced): the test has the same outcome for every "
                          "slice, so the window bound is not honoured", key_detail="static-test")
            continue
        cs = [v for v in moving if v in counters]
        if len(bounds) != 1 or len(cs) != 1:
            raise AnalysisError(f"{f.qualname}: the test `{norm_text(test)[:60]}` on a window bound inside the slice "
                                "loop is not a comparison with a running slice counter the analyser models")
        c = cs[0]
        inc = counters[c]
        rel = _relation(test, df, node.idx, c, bound)
        if rel is None:
            raise AnalysisError(f"{f.qualname}: cannot read `{norm_text(test)[:60]}` as counter - {bound} >=/<= const")
        delta = 1 if cfg.dominates(inc, node.idx) else 0
        if ends:
            arm = "T" if not ever["T"] else "F"
        else:
            arm = "T" if to_yield["T"] else "F"
        got = rel if arm == "T" else _negate(rel)
        want = (">=", delta)
        n += 1
        if ends:
            bad = (f"the generator stops when counter - {bound} {got[0]} {got[1] - delta}: "
                   + ("one slice beyond the window is yielded" if got[0] == ">=" and got[1] > delta else
                      "the last slice of the window is missing" if got[0] == ">=" else
                      "it stops on the wrong side of the bound"))
        else:
            bad = (f"a slice is yielded when counter - {bound} {got[0]} {got[1] - delta}: "
                   + ("the first slice of the window is skipped" if got[0] == ">=" and got[1] > delta else
                      "a slice before the window is yielded" if got[0] == ">=" else
                      "slices before the window are yielded instead of those inside it"))
        ctx.check(got == want, rule, f"{f.qualname}:test on {bound} ({role})", f.loc(node.ast),
                  f"`if {norm_text(test)[:50]}`: slice number >= {bound} on the arm that {role}",
                  f"`if {norm_text(test)[:50]}`: {bad} (half-open window [first_slice, last_slice))",
                  key_detail="half-open")
        # the increment is executed on every pass of the loop that yields
        yl = {cfg.nodes[y].loops[-1] for y in ynodes if cfg.nodes[y].loops}
        il = cfg.nodes[inc].loops[-1]
        if il not in yl:
            raise AnalysisError(f"{f.qualname}: the slice counter is not advanced in the loop that yields the slices")
        body = cfg.loop_body_nodes(il)
        seen, stack, skipped = set(), [s for s in cfg.nodes[il].succ if s in body], False
        while stack:
            x = stack.pop()
            if x == inc or x in seen:
                continue
            seen.add(x)
            for s2 in cfg.nodes[x].succ:
                if s2 == il:
                    skipped = True
                elif s2 in body:
                    stack.append(s2)
        ctx.check(not skipped, rule, f"{f.qualname}:counter advanced on every pass ({bound})", f.loc(cfg.nodes[inc].ast),
                  "every pass through the slice loop advances the slice counter",
                  "a path through the slice loop reaches the next pass without advancing the slice counter: the "
                  "numbering falls behind the slices and the window is shifted", key_detail="skipped-increment")
    return n
