"""E5 — class contracts for objects rebuilt inside dask blocks.

`CopyMixin._copy_kwargs(exclude=E)` evaluates `getattr(self, p)` for every parameter `p` of the
class's constructor that is not excluded.  Ensembles are rebuilt per block from
`_from_partitioned_args()` — on the lazy path always, on the eager path only for ensembles that are
iterated — so an ungettable parameter or a skipped base initialiser is a *mode-dependent* failure.

R-RECON-GET   for every concrete class K whose `_from_partitioned_args` (resolved through the MRO)
              calls `self._copy_kwargs(exclude=E)`:
              params(K.__init__) - E - K._exclude_from_copy  ⊆  names resolvable by getattr on a K
              (methods/properties/class attributes in the MRO, or `self.X = ...` in an `__init__` that
              is actually executed when constructing K).
R-RECON-CTOR  every `self._x` read by the partition machinery of K (the methods reachable from
              `_from_partitioned_args`, `_partition_args`, `ensemble_shape`, `ensemble_axes_metadata`,
              `_default_ensemble_chunks` through self-references) that is created *only* in `__init__`
              bodies must be created by an `__init__` on K's executed constructor chain.
R-RECON-SUPPLY every constructor parameter of K reaches the rebuilt object: it is either copied
              (not excluded from `_copy_kwargs`) or supplied explicitly by the rebuild function, or it
              is listed in the reasoned ABSORBED table.  The keyword arguments of the rebuilding
              partial / constructor call are read however they are assembled (the `_copy_kwargs`
              result, a dict display or dict(...) call, keywords written at `partial(...)`, item
              stores, `{**a, **b}` / `a | b` merges, update / pop / del, along every path of both
              functions; rules/kwassembly.py); the set supplied by the block function itself plus
              the partial's keywords must cover every parameter of the constructor, and a value
              written where the keywords are assembled must be the receiver's own value of that
              parameter (self.<p> / self._<p> / an attribute the executed constructor chain computes
              from <p>), not a constant and not another parameter's value.  An assembly that is not
              readable is an analysis error as soon as a parameter is not among the readable keys.
"""
from __future__ import annotations

import ast
from typing import Optional

from ..model import AnalysisError, ClassInfo, FuncInfo, Repo, call_name, dotted, walk_no_nested

SEEDS = ("_from_partitioned_args", "_partition_args", "ensemble_shape", "ensemble_axes_metadata",
         "_default_ensemble_chunks")

# parameters that are legitimately not passed on to a rebuilt block, with the reason
ABSORBED = {
    ("GridScan", "sampling"): "derived: the block is given start/end/gpts with endpoint=False, which fixes sampling",
    ("GridScan", "fractional"): "consumed by the constructor: start/end are stored in absolute units",
    ("GridScan", "potential"): "consumed by the constructor: only used to resolve fractional/None limits",
    ("LineScan", "sampling"): "derived from start/end/gpts of the block",
    ("LineScan", "fractional"): "consumed by the constructor",
    ("LineScan", "potential"): "consumed by the constructor",
    ("_FieldBuilderFromAtoms", "sampling"): "derived: gpts is copied and, with the cell of the atoms, fixes the sampling",
    ("Potential", "parametrization"): "consumed by the constructor into `integrator`, which is copied",
    ("Potential", "projection"): "consumed by the constructor into `integrator`, which is copied",
    ("MagneticField", "parametrization"): "consumed by the constructor into `integrator`, which is copied",
    ("VectorPotential", "parametrization"): "consumed by the constructor into `integrator`, which is copied",
    ("Probe", "semiangle_cutoff"): "consumed by the constructor into `aperture`, which is copied (the rebuild function "
                                   "drops the number when both are present: the constructor accepts only one of them)",
    ("SMatrix", "sampling"): "derived: with a potential the constructor takes over the grid of the rebuilt potential "
                             "block; without a potential the parameter is copied",
    ("SMatrix", "extent"): "derived: with a potential the constructor takes over the grid of the rebuilt potential "
                           "block; without a potential the parameter is copied",
}


def is_dataclass(c: ClassInfo) -> bool:
    return any(d.split(".")[-1] == "dataclass" for d in c.decorators)


def ctor_params(repo: Repo, k: ClassInfo) -> Optional[list[str]]:
    """Parameter names `inspect.signature(K)` reports (without *args/**kwargs)."""
    for c in k.mro():
        f = c.own_method("__init__")
        if f is not None:
            a = f.node.args
            names = [x.arg for x in (a.posonlyargs + a.args)[1:]] + [x.arg for x in a.kwonlyargs]
            return names
        if is_dataclass(c):
            names: list[str] = []
            for b in reversed(c.mro()):
                for fld, ann in b.annotations.items():
                    if "ClassVar" in ast.unparse(ann):
                        continue
                    v = b.class_attrs.get(fld)
                    if isinstance(v, ast.Call) and call_name(v) in ("field", "dataclasses.field"):
                        init_kw = [kw for kw in v.keywords if kw.arg == "init"]
                        if init_kw and isinstance(init_kw[0].value, ast.Constant) and init_kw[0].value.value is False:
                            continue
                    if fld in names:
                        names.remove(fld)
                    names.append(fld)
            return names
    return None


def exclude_from_copy(k: ClassInfo) -> set[str]:
    r = k.find_class_attr("_exclude_from_copy")
    if r is None:
        return set()
    _, expr = r
    if isinstance(expr, (ast.Tuple, ast.List)) and all(isinstance(e, ast.Constant) for e in expr.elts):
        return {e.value for e in expr.elts}
    raise AnalysisError(f"{k.qualname}._exclude_from_copy is not a literal tuple")


def constructed_classes(repo: Repo) -> set[str]:
    """Names of classes that are instantiated (called) somewhere in the package."""
    out: set[str] = set()
    for m in repo.modules.values():
        for n in ast.walk(m.tree):
            if isinstance(n, ast.Call):
                d = dotted(n.func)
                if d:
                    out.add(d.split(".")[-1])
    return out


def concrete_classes(repo: Repo, base_name: str = "CopyMixin") -> list[ClassInfo]:
    constructed = constructed_classes(repo)
    out = []
    for c in repo.all_classes():
        if not c.is_subclass_of(base_name) or c.name == base_name:
            continue
        if c.is_abstract():
            continue
        has_sub = any(c in o.mro() and o is not c for o in repo.all_classes())
        if has_sub and c.name not in constructed:
            # only subclassed, never constructed in the package: not a concrete class
            continue
        out.append(c)
    return out


def _literal_exclude(call: ast.Call, k: ClassInfo, repo: Repo) -> Optional[set[str]]:
    """The `exclude` argument of a _copy_kwargs call as a set of names, None if not statically known."""
    ex = None
    for kw in call.keywords:
        if kw.arg == "exclude":
            ex = kw.value
    if ex is None and call.args:
        ex = call.args[0]
    if ex is None:
        return set()
    if isinstance(ex, (ast.Tuple, ast.List)) and all(isinstance(e, ast.Constant) for e in ex.elts):
        return {e.value for e in ex.elts}
    # tuple(self.X.keys()) with X assigned a dict display with constant keys in the executed init chain
    if isinstance(ex, ast.Call) and call_name(ex) == "tuple" and len(ex.args) == 1:
        inner = ex.args[0]
        if isinstance(inner, ast.Call) and isinstance(inner.func, ast.Attribute) and inner.func.attr == "keys":
            d = dotted(inner.func.value)
            if d and d.startswith("self."):
                attr = d.split(".", 1)[1]
                for f in repo.init_chain(k):
                    for n in ast.walk(f.node):
                        if isinstance(n, (ast.Assign, ast.AnnAssign)):
                            tgts = n.targets if isinstance(n, ast.Assign) else [n.target]
                            if any(dotted(t) == f"self.{attr}" for t in tgts) and isinstance(n.value, ast.Dict) \
                                    and all(isinstance(x, ast.Constant) for x in n.value.keys):
                                return {x.value for x in n.value.keys}
            # X is a property `{name: getattr(self, name) for name in self.Y}` with Y a literal tuple
            if d and d.startswith("self."):
                prop = k.find_method(d.split(".", 1)[1])
                if prop is not None and prop.is_property:
                    rets = [n for n in walk_no_nested(prop.node) if isinstance(n, ast.Return)]
                    if len(rets) == 1 and isinstance(rets[0].value, ast.DictComp):
                        dc = rets[0].value
                        src = dotted(dc.generators[0].iter)
                        if isinstance(dc.key, ast.Name) and isinstance(dc.generators[0].target, ast.Name) and \
                                dc.key.id == dc.generators[0].target.id and src and src.startswith("self."):
                            lit = resolve_literal_attr(repo, k, src.split(".", 1)[1])
                            if lit is not None:
                                return set(lit)
    return None


def resolve_literal_attr(repo: Repo, k: ClassInfo, attr: str):
    """Value of `self.<attr>` when it is a literal tuple/list of constants, following one hop through a
    base-constructor parameter supplied literally by the subclass's super().__init__ call."""
    chain = repo.init_chain(k)
    for i, f in enumerate(chain):
        for n in ast.walk(f.node):
            if isinstance(n, ast.Assign) and any(dotted(t) == f"self.{attr}" for t in n.targets):
                v = n.value
                if isinstance(v, (ast.Tuple, ast.List)) and all(isinstance(e, ast.Constant) for e in v.elts):
                    return [e.value for e in v.elts]
                if isinstance(v, ast.Name) and v.id in f.params and i > 0:
                    caller = chain[i - 1]
                    for c in ast.walk(caller.node):
                        if isinstance(c, ast.Call) and isinstance(c.func, ast.Attribute) and c.func.attr == "__init__":
                            args = dict(zip(f.positional_params[1:], c.args))
                            args.update({kw.arg: kw.value for kw in c.keywords if kw.arg})
                            a = args.get(v.id)
                            if isinstance(a, ast.Name):
                                defs = [x.value for x in ast.walk(caller.node) if isinstance(x, ast.Assign)
                                        and any(isinstance(t, ast.Name) and t.id == a.id for t in x.targets)]
                                a = defs[0] if len(defs) == 1 else None
                            if isinstance(a, (ast.Tuple, ast.List)) and all(isinstance(e, ast.Constant) for e in a.elts):
                                return [e.value for e in a.elts]
                return None
    return None


def copy_kwargs_calls(f: FuncInfo) -> list[ast.Call]:
    return [n for n in walk_no_nested(f.node) if isinstance(n, ast.Call) and call_name(n) == "self._copy_kwargs"]


def check_get(ctx, rule: str = "R-RECON-GET", only_seed: str = "_from_partitioned_args") -> int:
    repo: Repo = ctx.repo
    n = 0
    for k in concrete_classes(repo):
        f = k.find_method(only_seed)
        if f is None or f.is_abstract:
            continue
        calls = copy_kwargs_calls(f)
        if not calls:
            continue
        params = ctor_params(repo, k)
        if params is None:
            continue
        resolvable = repo.getattr_resolvable(k)
        dyn = repo.has_dynamic_getattr(k)
        base_ex = exclude_from_copy(k)
        for c in calls:
            ex = _literal_exclude(c, k, repo)
            if ex is None:
                ctx.info(rule, f"{k.qualname}:{f.short}", f.loc(c),
                         f"exclude={ast.unparse(c)} is not statically known; class skipped")
                continue
            needed = [p for p in params if p not in ex and p not in base_ex]
            missing = [p for p in needed if p not in resolvable]
            n += 1
            if not missing:
                ctx.ok(rule, f"{k.qualname}", f"{f.loc(c)}",
                       f"{len(needed)} copied parameters all gettable ({f.short})")
                continue
            for p in missing:
                if dyn is not None:
                    ctx.info(rule, f"{k.qualname}:{p}", k.where,
                             f"parameter {p!r} only resolvable through {dyn.short} (dynamic) — not decided")
                    continue
                ctx.violation(rule, f"{k.qualname}:{p}", k.where,
                              f"{k.name}.__init__ takes `{p}` but instances have no attribute `{p}`: "
                              f"{f.short} calls _copy_kwargs, which does getattr(self, {p!r}) -> AttributeError when "
                              "the object is rebuilt inside a dask block (lazy evaluation) while eager "
                              "evaluation never rebuilds it", key_detail="")
    return n


def _self_reads(f: FuncInfo) -> set[str]:
    sn = f.positional_params[0] if f.positional_params else "self"
    out = set()
    for n in walk_no_nested(f.node):
        if isinstance(n, ast.Attribute) and isinstance(n.value, ast.Name) and n.value.id == sn and isinstance(
                n.ctx, ast.Load):
            out.add(n.attr)
    return out


def _closure(k: ClassInfo, seeds) -> list[FuncInfo]:
    seen: dict[str, FuncInfo] = {}
    work = list(seeds)
    while work:
        name = work.pop()
        if name in seen:
            continue
        f = k.find_method(name)
        if f is None:
            continue
        seen[name] = f
        for a in _self_reads(f):
            if a not in seen:
                work.append(a)
    return list(seen.values())


def check_ctor(ctx, rule: str = "R-RECON-CTOR") -> int:
    repo: Repo = ctx.repo
    # where is each `self.X` created?
    n = 0
    for k in concrete_classes(repo):
        if k.find_method("_from_partitioned_args") is None:
            continue
        mro = k.mro()
        init_creators: dict[str, list[FuncInfo]] = {}
        other_creators: set[str] = set()
        for c in mro:
            other_creators.update(c.class_attrs)
            other_creators.update(c.annotations)
            for defs in c.methods.values():
                for f in defs:
                    sn = f.positional_params[0] if f.positional_params else "self"
                    for node in ast.walk(f.node):
                        tgts = []
                        if isinstance(node, ast.Assign):
                            tgts = node.targets
                        elif isinstance(node, (ast.AnnAssign, ast.AugAssign)):
                            tgts = [node.target]
                        elif isinstance(node, ast.Call) and call_name(node) == "setattr":
                            other_creators.add("*dynamic*")
                        for t in tgts:
                            for e in ast.walk(t):
                                if isinstance(e, ast.Attribute) and isinstance(e.value, ast.Name) and \
                                        e.value.id == sn and isinstance(e.ctx, ast.Store):
                                    if f.name == "__init__":
                                        init_creators.setdefault(e.attr, []).append(f)
                                    else:
                                        other_creators.add(e.attr)
        chain = repo.init_chain(k)
        chain_ids = {id(f) for f in chain}
        methods = _closure(k, SEEDS)
        reads: dict[str, FuncInfo] = {}
        for f in methods:
            for a in _self_reads(f):
                reads.setdefault(a, f)
        bad = []
        for a, reader in sorted(reads.items()):
            if a in other_creators or "*dynamic*" in other_creators:
                continue
            if any(c.own_method(a) for c in mro):
                continue
            creators = init_creators.get(a)
            if not creators:
                continue
            if not any(id(f) in chain_ids for f in creators):
                bad.append((a, reader, creators))
        n += 1
        if not bad:
            ctx.ok(rule, k.qualname, k.where,
                   f"constructor chain {' -> '.join(f.cls.name for f in chain if f.cls)} creates every attribute the "
                   f"partition machinery reads ({len(reads)} reads in {len(methods)} methods)")
        for a, reader, creators in bad:
            ctx.violation(rule, f"{k.qualname}:{a}", k.where,
                          f"`self.{a}` is read by {reader.short} (partition machinery) but is only created in "
                          f"{', '.join(sorted({c.short if c.cls is None else c.cls.name + '.__init__' for c in creators}))}"
                          f", which {k.name}'s constructor chain "
                          f"({' -> '.join(f.cls.name for f in chain if f.cls) or 'none'}) never runs", key_detail="")
    return n


# ---------------------------------------------------------------------------------------------
# R-RECON-SUPPLY
def _returned_callables(f: FuncInfo) -> list[ast.expr]:
    return [n.value for n in walk_no_nested(f.node) if isinstance(n, ast.Return) and n.value is not None]


def _resolve_self_func(k: ClassInfo, expr: ast.expr) -> Optional[FuncInfo]:
    d = dotted(expr)
    if d and d.startswith(("self.", "cls.")) and d.count(".") == 1:
        return k.find_method(d.split(".")[1])
    return None


def _ctor_calls(g: FuncInfo, k: ClassInfo) -> list[ast.Call]:
    names = {"cls", "self.__class__", k.name} | {c.name for c in k.mro()}
    return [n for n in walk_no_nested(g.node) if isinstance(n, ast.Call) and dotted(n.func) in names]


# values that are deliberately not the receiver's own value of the parameter, with the reason
REPLACED = {
    ("AtomsEnsemble", "ensemble_axes_metadata"):
        "blocks of an AtomsEnsemble carry anonymous axes (one UnknownAxis per ensemble dimension): the rebuild "
        "function cannot know which slice of a labelled axis the block holds; the assembled result takes its axes "
        "from the parent ensemble (ArrayObject / potential metadata are computed outside the blocks)",
}


def _ctor_positional(repo: Repo, k: ClassInfo, params: list[str]) -> list[str]:
    """Names a positional argument of `K(...)` binds to, in order."""
    for c in k.mro():
        f = c.own_method("__init__")
        if f is not None:
            a = f.node.args
            return [x.arg for x in (a.posonlyargs + a.args)[1:]]
        if is_dataclass(c):
            return list(params)
    return list(params)


def _table(table: dict, k: ClassInfo, p: str) -> Optional[str]:
    for c in k.mro():
        if (c.name, p) in table:
            return table[(c.name, p)]
    return None


def check_supply(ctx, rule: str = "R-RECON-SUPPLY") -> int:
    from . import kwassembly as ka

    repo: Repo = ctx.repo
    n = 0
    pending: list[AnalysisError] = []
    for k in concrete_classes(repo):
        f = k.find_method("_from_partitioned_args")
        if f is None or f.is_abstract:
            continue
        params = ctor_params(repo, k)
        if params is None:
            continue
        positional = _ctor_positional(repo, k, params)
        base_ex = exclude_from_copy(k)
        orig_cache: list = []

        def orig():
            if not orig_cache:
                orig_cache.append(ka.origins(repo, k, params))
            return orig_cache[0]

        def copy_reader(call: ast.Call, _k=k, _f=f, _params=params, _base_ex=base_ex):
            if call_name(call) != "self._copy_kwargs":
                return None
            m = ka.KwMap()
            cparams = _params
            ckw = next((kw.value for kw in call.keywords if kw.arg == "cls"), None)
            if ckw is not None:
                t = repo.resolve_name(_f.module, dotted(ckw) or "")
                cparams = ctor_params(repo, t) if isinstance(t, ClassInfo) else None
                if cparams is None:
                    m.mark_open(f"`{norm_call(call)}` copies the parameters of a class that is not resolved")
                    return m
            ex = _literal_exclude(call, _k, repo)
            if ex is None:
                m.mark_open(f"`{norm_call(call)}`: the excluded names are not statically known")
                return m
            m.excluded = set(ex)
            for p in cparams:
                if p not in ex and p not in _base_ex:
                    m.entries[p] = ka.Entry("copied")
            return m

        try:
            rd = ka.Reader(f, copy_reader)
            rd.run()
        except AnalysisError as e:
            pending.append(e)
            continue
        selfname = f.positional_params[0] if f.positional_params else "self"
        # (return statement, constructor call) -> findings over all paths
        results: dict[tuple[int, int], dict] = {}
        for ret, rexpr, st in rd.returns:
            r = ka.resolve(rexpr, st)
            if isinstance(r, ast.Lambda):
                continue  # degenerate empty-ensemble arm returning self
            g = None
            kwmap = ka.KwMap()
            if isinstance(r, ast.Call) and call_name(r) in ("partial", "functools.partial") and r.args:
                g = _resolve_self_func(k, r.args[0])
                kwmap = rd.call_keywords(r, st)
            elif dotted(r) is not None:
                if dotted(r) in ("self.__class__", "cls"):
                    continue
                g = _resolve_self_func(k, r)
            if g is None:
                pending.append(AnalysisError(
                    f"{rule}: {k.qualname}: the callable returned by {f.short} (`{norm_call(r)}`) is not resolved to a "
                    "method of the class; the keyword arguments it is given are not read"))
                continue
            f_side = {id(e) for e in kwmap.entries.values()}
            # keywords bound to the rebuild function's own parameters do not travel on in its **kwargs
            forwarded = kwmap.clone()
            for name in list(forwarded.entries):
                if name in g.params:
                    del forwarded.entries[name]
            init = ka.State()
            if g.node.args.kwarg is not None:
                init.maps[g.node.args.kwarg.arg] = forwarded
            names = {"cls", "self.__class__", k.name} | {c.name for c in k.mro()}
            found: list[tuple[ast.Call, ka.State]] = []

            def on_call(call: ast.Call, state, _names=names, _found=found):
                if dotted(call.func) in _names:
                    _found.append((call, state.clone()))

            try:
                rg = ka.Reader(g, lambda call: None, on_call)
                rg.run(init)
            except AnalysisError as e:
                pending.append(e)
                continue
            if not found:
                # the block already holds a finished object (e.g. LineScan blocks are built in _partition_args)
                ctx.info(rule, f"{k.qualname}", g.where, f"{g.short} does not construct {k.name}; blocks are prebuilt")
                continue
            for c, cst in found:
                res = results.setdefault((id(ret), id(c)), {"g": g, "c": c, "missing": {}, "value": {}, "info": {}})
                m = rg.call_keywords(c, cst)
                supplied = set(m.entries)
                for i, a in enumerate(c.args):
                    if isinstance(a, ast.Starred):
                        if i < len(positional):
                            m.mark_open(f"`*{ast.unparse(a.value)}` spread over the positional parameters")
                        break
                    if i < len(positional):
                        supplied.add(positional[i])
                for p in params:
                    if p in supplied:
                        continue
                    why = _table(ABSORBED, k, p)
                    if why is not None:
                        continue
                    if ka.COMPUTED in m.open and p in m.excluded:
                        continue  # supplied under a computed key from the partitioned arguments
                    if m.open:
                        pending.append(AnalysisError(
                            f"{rule}: {k.qualname}: cannot decide whether the constructor parameter `{p}` is supplied "
                            f"when {g.short} rebuilds a block: the keyword arguments are assembled in a way that is "
                            f"not read ({'; '.join(m.open)})"))
                        continue
                    res["missing"][p] = "removed from the keyword arguments again" if p in m.removed else ""
                # every value written where the keywords are assembled is the receiver's own value of that parameter
                for p in params:
                    e = m.entries.get(p)
                    if e is None or id(e) not in f_side or e.kind != "value":
                        continue
                    why = _table(REPLACED, k, p)
                    if why is not None:
                        res["info"][p] = why
                        continue
                    verdict, text = ka.classify_value(repo, k, orig(), p, e.expr, params, selfname)
                    if verdict == "own":
                        continue
                    if verdict == "unknown":
                        pending.append(AnalysisError(
                            f"{rule}: {k.qualname}: {f.short} supplies the constructor parameter `{p}` with {text}"))
                        continue
                    res["value"][p] = (verdict, text)
        for (_, _), res in results.items():
            g, c = res["g"], res["c"]
            n += 1
            for p, why in res["info"].items():
                ctx.info(rule, f"{k.qualname}:{p}", f.where, f"`{p}` is deliberately replaced: {why}")
            if not res["missing"] and not res["value"]:
                ctx.ok(rule, k.qualname, g.loc(c),
                       f"all {len(params)} constructor parameters reach the rebuilt {k.name} ({g.short})")
            for p, extra in res["missing"].items():
                ctx.violation(rule, f"{k.qualname}:{p}", g.loc(c),
                              f"constructor parameter `{p}` of {k.name} is not passed when {g.short} rebuilds a "
                              f"block ({norm_call(c)}){' — ' + extra if extra else ''}: blocks silently use the "
                              "default instead of the original object's value", key_detail="")
            for p, (verdict, text) in res["value"].items():
                if verdict == "constant":
                    msg = (f"constructor parameter `{p}` of {k.name} is supplied with a value that is the same for "
                           f"every receiver ({text}) where {f.short} assembles the keyword arguments of the rebuilt "
                           f"blocks: the blocks do not carry the original object's `{p}`")
                else:
                    msg = (f"constructor parameter `{p}` of {k.name} is supplied from another parameter's value "
                           f"({text}) where {f.short} assembles the keyword arguments of the rebuilt blocks: the blocks "
                           f"do not carry the original object's `{p}`")
                ctx.violation(rule, f"{k.qualname}:{p}", f.where, msg, key_detail="value")
    if pending:
        raise pending[0]
    return n


def norm_call(c: ast.Call) -> str:
    return " ".join(ast.unparse(c).split())[:80]


# ------------------------------------------------------------------------------------------ R-RECON-ROUNDTRIP
IDEMPOTENT_PREFIXES = ("validate_", "_validate_", "number_to_tuple", "ensure_")
IDEMPOTENT_CALLS = {"tuple", "list", "float", "int", "bool", "str", "asarray", "array", "copy", "deepcopy", "abs"}


def check_roundtrip(ctx, rule: str = "R-RECON-ROUNDTRIP", only_seed: str = "_from_partitioned_args") -> int:
    """`K(**{p: getattr(obj, p)})` rebuilds the same object only if reading p gives back what the constructor was
    given: for a copied parameter p whose constructor store is `self._x = f(p)` and whose getter returns `g(self._x)`,
    g(f(p)) must normalise to p.  Validators and casts (validate_*, tuple, float, asarray ...) are idempotent and
    count as the identity; if the composition is an *arithmetic* function of p other than p itself (p / 1000, -p,
    p + c) the object rebuilt in a dask block has f applied twice — the lazy result differs from the eager one."""
    from ..terms import Normalizer

    repo: Repo = ctx.repo
    n = 0

    def ident_hook(nz, call: ast.Call):
        fn = (call_name(call) or "").split(".")[-1]
        if call.args and (fn in IDEMPOTENT_CALLS or fn.startswith(IDEMPOTENT_PREFIXES)):
            return nz.norm(call.args[0])
        return None

    for k in concrete_classes(repo):
        f = k.find_method(only_seed)
        if f is None or f.is_abstract or not copy_kwargs_calls(f):
            continue
        params = ctor_params(repo, k) or []
        inits = repo.init_chain(k)
        for p in params:
            # the store of p in the executed constructor chain: self.<attr> = f(p) with p the init's own parameter
            store = None
            for g in inits:
                if p not in g.params:
                    continue
                for st in walk_no_nested(g.node):
                    if isinstance(st, ast.Assign) and len(st.targets) == 1 and (dotted(st.targets[0]) or "").startswith("self.") \
                            and any(isinstance(x, ast.Name) and x.id == p for x in ast.walk(st.value)):
                        names = {x.id for x in ast.walk(st.value) if isinstance(x, ast.Name)} - {"np", "xp"}
                        if names <= {p, "self"} | set(dir(__builtins__) if not isinstance(__builtins__, dict) else __builtins__):
                            store = (g, st)
                            break
                if store:
                    break
            getter = k.find_method(p, "getter")
            if store is None or getter is None or not getter.is_property:
                continue
            rets = [r for r in walk_no_nested(getter.node) if isinstance(r, ast.Return) and r.value is not None]
            if len(rets) != 1:
                continue
            attr = dotted(store[1].targets[0])
            if not any(dotted(x) == attr for x in ast.walk(rets[0].value)):
                continue
            nz_f = Normalizer(call_hook=ident_hook)
            fp = nz_f.norm(store[1].value)
            nz_g = Normalizer(call_hook=ident_hook, atom_alias={attr: "⟦stored⟧"})
            gp = nz_g.norm(rets[0].value)
            if "⟦stored⟧" not in gp.atoms() or not (fp.atoms() <= {p}):
                continue  # not a pure arithmetic function of the parameter: not decided here
            comp = gp.subst({"⟦stored⟧": fp}) if all(e.denominator == 1 for m in gp.terms for _, e in m) else None
            if comp is None:
                continue
            n += 1
            from ..terms import Poly

            ctx.check(comp == Poly.atom(p), rule, f"{k.qualname}:{p}", getter.where,
                      f"reading `{p}` returns what the constructor was given",
                      f"{k.name}.__init__ stores `{ast.unparse(store[1])[:60]}` and the property `{p}` returns "
                      f"`{ast.unparse(rets[0].value)[:40]}`: reading the parameter back gives {comp.key()}, not {p}; "
                      f"{f.short} rebuilds the object from _copy_kwargs inside dask blocks, so the conversion is "
                      "applied twice on the lazy path only", key_detail="roundtrip")
    return n
