"""exitpaths — on which paths does a function leave normally?  A path-sensitive walk over the CFG (sa/cfg.py) that
carries a small store of facts and prunes the edges the facts refute.

The store of one path holds

* truth values of plain names (`flag = False`, the edge of `if flag:`),
* equalities  name == <polynomial>  (plain assignments, the loop variable after `for v in range(a, b)` is exhausted:
  the loop ran at least once, so v == b - 1),
* linear inequalities  p <= 0 / p < 0  in term normal form (edges of comparisons, `a <= v <= b - 1` inside the range
  loop, `b - a <= 0` when the range loop ran zero times); strict inequalities between integer-valued terms are
  tightened (p < 0  <=>  p + 1 <= 0),
* the loop variables that are still unbound (a read of one ends the path in a NameError, i.e. in a raise),
* the loop headers that iterated at least once since they were entered,
* client marks, updated by a callback on every edge that leaves a test or a loop header; the callback sees the atomic
  tests the edge establishes (`A and B` true: both; `A and B` false: split into `A false` / `A true, B false`; a
  name holding a comparison is read through its single definition).

Facts about a variable die where the variable is (re)defined; nothing is carried through arithmetic on counters, so
the set of stores is finite and the walk terminates without widening.  A test is evaluated three-valued: only an edge
whose test is *decided* the other way is pruned, an undecided test keeps both edges.

Nothing here knows names or texts of the analysed program.
"""
from __future__ import annotations

import ast
import re
from collections import namedtuple
from fractions import Fraction
from typing import Callable, Optional

from ..cfg import DataFlow
from ..model import AnalysisError, call_name
from ..terms import Normalizer, Poly

State = namedtuple("State", "truth eqs ineqs unbound ran marks")

_ONE = Poly.const(1)
_IDENT = re.compile(r"[A-Za-z_]\w*\Z")


def _mentions(p: Poly, var: str) -> bool:
    pat = re.compile(r"(?<![\w.])%s(?!\w)" % re.escape(var))
    return any(pat.search(a) for a in p.atoms())


def _plain(p: Poly) -> bool:
    return all(_IDENT.match(a) for a in p.atoms())


def split_compare(c: ast.Compare) -> list:
    """a <= b < c  ->  [(a, <=, b), (b, <, c)]"""
    seq = [c.left] + list(c.comparators)
    return [(l, op, r) for l, op, r in zip(seq, c.ops, seq[1:])]


class Explorer:
    def __init__(self, func: ast.FunctionDef, df: Optional[DataFlow] = None,
                 on_edge: Optional[Callable] = None, max_states: int = 400):
        self.func = func
        self.df = df or DataFlow(func)
        self.cfg = self.df.cfg
        self.on_edge = on_edge or (lambda node, label, atoms, marks: marks)
        self.max_states = max_states
        self.int_vars = self._integer_vars()
        self.body_defs: dict[int, set[str]] = {}
        for n in self.cfg.nodes:
            if n.kind == "loop":
                body = self.cfg.loop_body_nodes(n.idx)
                self.body_defs[n.idx] = {self.df.defs[i].var for b in body for i in self.df.node_defs.get(b, [])}
        params = {d.var for d in self.df.defs if d.kind == "param"}
        self.loop_targets = {d.var for d in self.df.defs if d.kind == "for"} - params
        self.outcomes: list[tuple[int, State]] = []  # (node that reaches the normal exit, state)
        self.name_errors: list[tuple[int, str]] = []
        self.undecided: list[tuple[int, str]] = []
        self.pruned: list[tuple[int, str, str]] = []  # (test node, label of the infeasible edge, test text)

    # ------------------------------------------------------------------ integer-valued variables
    def _integer_vars(self) -> set[str]:
        ann = {}
        a = self.func.args
        for x in a.posonlyargs + a.args + a.kwonlyargs:
            ann[x.arg] = x.annotation
        by_var: dict[str, list] = {}
        for d in self.df.defs:
            by_var.setdefault(d.var, []).append(d)
        ints: set[str] = set()
        for _ in range(4):
            for var, ds in by_var.items():
                if var in ints:
                    continue
                ok = True
                for d in ds:
                    if d.kind == "param":
                        t = ann.get(var)
                        ok = ok and isinstance(t, ast.Name) and t.id == "int"
                    elif d.kind == "for":
                        st = self.cfg.nodes[d.node].ast
                        ok = ok and isinstance(st.target, ast.Name) and isinstance(st.iter, ast.Call) and \
                            call_name(st.iter) == "range"
                    elif d.kind == "assign" and isinstance(d.value, ast.expr):
                        st = self.cfg.nodes[d.node].ast
                        ok = ok and isinstance(st, ast.Assign) and len(st.targets) == 1 and \
                            isinstance(st.targets[0], ast.Name) and self._int_expr(d.value, ints)
                    elif d.kind == "aug":
                        st = d.value
                        ok = ok and isinstance(st, ast.AugAssign) and isinstance(st.op, (ast.Add, ast.Sub, ast.Mult)) and \
                            self._int_expr(st.value, ints)
                    else:
                        ok = False
                if ok:
                    ints.add(var)
        return ints

    @staticmethod
    def _int_poly(p: Poly, ints: set[str]) -> bool:
        for mono, c in p.terms.items():
            if c.denominator != 1:
                return False
            for a, e in mono:
                if a not in ints or e.denominator != 1 or e < 0:
                    return False
        return True

    def _int_expr(self, e: ast.expr, ints: set[str]) -> bool:
        if any(isinstance(n, ast.Constant) and (isinstance(n.value, bool) or not isinstance(n.value, int))
               for n in ast.walk(e)):
            return False
        if any(isinstance(n, (ast.Call, ast.Div, ast.Subscript, ast.Attribute)) for n in ast.walk(e)):
            return False
        return self._int_poly(Normalizer().norm(e), ints)

    # ------------------------------------------------------------------ store operations
    @staticmethod
    def _kill(st: State, var: str) -> State:
        return st._replace(
            truth=frozenset((n, v) for n, v in st.truth if n != var),
            eqs=frozenset((n, p) for n, p in st.eqs if n != var and not _mentions(p, var)),
            ineqs=frozenset((p, s) for p, s in st.ineqs if not _mentions(p, var)))

    def _poly(self, e: ast.expr, st: State) -> Poly:
        p = Normalizer().norm(e)
        for _ in range(6):  # equalities may chain (last = n + 1; k == last - 1)
            sub = {n: q for n, q in st.eqs if n in p.atoms()}
            if not sub:
                break
            p = p.subst(sub)
        return p

    def _tighten(self, d: Poly, strict: bool):
        if strict and self._int_poly(d, self.int_vars):
            return d + _ONE, False
        return d, strict

    def _add_ineq(self, st: State, d: Poly, strict: bool) -> State:
        d, strict = self._tighten(d, strict)
        if d.is_const():
            return st
        return st._replace(ineqs=st.ineqs | {(d, strict)})

    # ------------------------------------------------------------------ three-valued evaluation
    def _decide(self, d: Poly, op: str, st: State) -> Optional[bool]:
        """d < 0 (op 'lt'), d <= 0 ('le'), d == 0 ('eq')"""
        if op == "lt":
            d, strict = self._tighten(d, True)
            op = "lt" if strict else "le"
        c = d.const_value()
        if c is not None:
            return c < 0 if op == "lt" else (c <= 0 if op == "le" else c == 0)
        for p, strict in st.ineqs:
            c = (d - p).const_value()  # d = p + c, p <= 0
            if c is not None:
                below = c < 0 or (c == 0 and strict)  # d < 0 for sure
                if op == "le" and c <= 0:
                    return True
                if op == "lt" and below:
                    return True
                if op == "eq" and below:
                    return False
            c = (d + p).const_value()  # d = -p + c, -p >= 0
            if c is not None:
                above = c > 0 or (c == 0 and strict)  # d > 0 for sure
                if op == "le" and above:
                    return False
                if op == "lt" and c >= 0:
                    return False
                if op == "eq" and above:
                    return False
        return None

    def _cmp_form(self, l: ast.expr, op: ast.cmpop, r: ast.expr, st: State):
        """-> (d, kind, negate) such that the comparison is  kind(d)  (negated when `negate`)."""
        if not isinstance(op, (ast.Lt, ast.LtE, ast.Gt, ast.GtE, ast.Eq, ast.NotEq)):
            return None
        for side in (l, r):
            if isinstance(side, ast.Constant) and (side.value is None or isinstance(side.value, (str, bytes))):
                return None
        d = self._poly(l, st) - self._poly(r, st)
        if isinstance(op, ast.Lt):
            return d, "lt", False
        if isinstance(op, ast.LtE):
            return d, "le", False
        if isinstance(op, ast.Gt):
            return -d, "lt", False
        if isinstance(op, ast.GtE):
            return -d, "le", False
        return d, "eq", isinstance(op, ast.NotEq)

    def evaluate(self, e: ast.expr, st: State) -> Optional[bool]:
        if isinstance(e, ast.Constant):
            return bool(e.value)
        if isinstance(e, ast.Name):
            return dict(st.truth).get(e.id)
        if isinstance(e, ast.UnaryOp) and isinstance(e.op, ast.Not):
            v = self.evaluate(e.operand, st)
            return None if v is None else not v
        if isinstance(e, ast.BoolOp):
            vs = [self.evaluate(v, st) for v in e.values]
            if isinstance(e.op, ast.And):
                return False if any(v is False for v in vs) else (True if all(v is True for v in vs) else None)
            return True if any(v is True for v in vs) else (False if all(v is False for v in vs) else None)
        if isinstance(e, ast.Compare):
            vs = []
            for l, op, r in split_compare(e):
                f = self._cmp_form(l, op, r, st)
                v = None
                if f is not None:
                    v = self._decide(f[0], f[1], st)
                    if v is not None and f[2]:
                        v = not v
                vs.append(v)
            return False if any(v is False for v in vs) else (True if all(v is True for v in vs) else None)
        return None

    # ------------------------------------------------------------------ assuming the outcome of a test
    def assume(self, e: ast.expr, truth: bool, st: State, at: int) -> list:
        """-> [(state, [(atom, truth), ...])]: the ways in which `e` can evaluate to `truth` from `st`."""
        if isinstance(e, ast.UnaryOp) and isinstance(e.op, ast.Not):
            return self.assume(e.operand, not truth, st, at)
        if isinstance(e, ast.BoolOp):
            conj = isinstance(e.op, ast.And) == truth  # every member has the value `truth`
            if conj:
                outs = [(st, [])]
                for v in e.values:
                    outs = [(s2, atoms + a2) for s1, atoms in outs for s2, a2 in self.assume(v, truth, s1, at)]
                return outs
            outs = []
            prefix = [(st, [])]  # members so far had the value `not truth`
            for v in e.values:
                for s1, atoms in prefix:
                    outs += [(s2, atoms + a2) for s2, a2 in self.assume(v, truth, s1, at)]
                prefix = [(s2, atoms + a2) for s1, atoms in prefix for s2, a2 in self.assume(v, not truth, s1, at)]
            return outs
        if isinstance(e, ast.Compare) and len(e.ops) > 1:
            parts = [ast.copy_location(ast.Compare(left=l, ops=[op], comparators=[r]), e) for l, op, r in split_compare(e)]
            return self.assume(ast.copy_location(ast.BoolOp(op=ast.And(), values=parts), e), truth, st, at)
        v = self.evaluate(e, st)
        if v is not None and v != truth:
            return []
        atoms = [(e, truth)]
        if isinstance(e, ast.Name):
            st = st._replace(truth=frozenset(dict(st.truth, **{e.id: truth}).items()))
            d = self.df.single_def(at, e.id)
            if d is not None and d.kind == "assign" and isinstance(d.value, (ast.Compare, ast.BoolOp, ast.UnaryOp)):
                from .pathfacts import atoms_of

                atoms += atoms_of(d.value, truth)  # reported to the client, no linear facts (evaluated earlier)
        elif isinstance(e, ast.Compare):
            l, op, r = split_compare(e)[0]
            f = self._cmp_form(l, op, r, st)
            if f is not None:
                d, kind, neg = f
                holds = truth != neg
                if kind == "eq":
                    if holds:
                        st = self._add_ineq(self._add_ineq(st, d, False), -d, False)
                elif holds:
                    st = self._add_ineq(st, d, kind == "lt")
                else:  # not (d < 0) -> -d <= 0 ; not (d <= 0) -> -d < 0
                    st = self._add_ineq(st, -d, kind == "le")
        return [(st, atoms)]

    # ------------------------------------------------------------------ transfer
    def _range(self, loop: ast.For):
        if isinstance(loop.iter, ast.Call) and call_name(loop.iter) == "range" and not loop.iter.keywords and \
                isinstance(loop.target, ast.Name) and 1 <= len(loop.iter.args) <= 2:
            a = loop.iter.args
            lo = Poly.const(0) if len(a) == 1 else Normalizer().norm(a[0])
            hi = Normalizer().norm(a[-1])
            if _plain(lo) and _plain(hi):
                return loop.target.id, lo, hi
        return None

    def _defs_effect(self, idx: int, st: State) -> State:
        node = self.cfg.nodes[idx]
        for di in self.df.node_defs.get(idx, []):
            d = self.df.defs[di]
            if d.kind == "param":
                continue
            st = self._kill(st, d.var)
            if d.strong:
                st = st._replace(unbound=st.unbound - {d.var})
        a = node.ast
        if node.kind == "stmt" and isinstance(a, ast.Assign) and len(a.targets) == 1 and isinstance(a.targets[0], ast.Name):
            var = a.targets[0].id
            v = a.value
            if isinstance(v, ast.Constant) and (v.value is None or isinstance(v.value, (bool, int, float))):
                st = st._replace(truth=st.truth | {(var, bool(v.value))})
                if isinstance(v.value, (int, float)) and not isinstance(v.value, bool):
                    st = st._replace(eqs=st.eqs | {(var, Normalizer().norm(v))})
            elif not any(isinstance(n, (ast.Call, ast.Subscript, ast.Attribute, ast.Compare, ast.BoolOp, ast.IfExp))
                         for n in ast.walk(v)):
                p = self._poly(v, st)
                if _plain(p) and not _mentions(p, var):
                    st = st._replace(eqs=st.eqs | {(var, p)})
        return st

    def _step(self, idx: int, st: State):
        """-> [(succ, state)]"""
        node = self.cfg.nodes[idx]
        cfg = self.cfg
        hit = self.df.node_uses.get(idx, set()) & st.unbound
        if hit and node.kind in ("stmt", "test", "loop", "with"):
            self.name_errors.append((idx, sorted(hit)[0]))
            return []
        out = []
        if node.kind == "test" or (node.kind == "loop" and isinstance(node.ast, ast.While)):
            for s in node.succ:
                lab = cfg.elabel.get((idx, s))
                if lab not in ("T", "F"):
                    out.append((s, st))
                    continue
                ways = self.assume(node.ast.test, lab == "T", st, idx)
                if node.kind == "test" and self.evaluate(node.ast.test, st) is None:
                    self.undecided.append((idx, lab))
                if not ways and (idx, lab) not in {(a, b) for a, b, _ in self.pruned}:
                    self.pruned.append((idx, lab, " ".join(ast.unparse(node.ast.test).split())))
                for s2, atoms in ways:
                    if node.kind == "loop":
                        s2 = s2._replace(ran=(s2.ran | {idx}) if lab == "T" else (s2.ran - {idx}))
                    s2 = s2._replace(marks=frozenset(self.on_edge(node, lab, atoms, s2.marks)))
                    out.append((s, s2))
        elif node.kind == "loop":
            rng = self._range(node.ast)
            clean = rng is not None and not any(
                self.df.defs[i].var == rng[0] for b in cfg.loop_body_nodes(idx) for i in self.df.node_defs.get(b, []))
            for s in node.succ:
                lab = cfg.elabel.get((idx, s))
                s2 = st
                if lab == "T":
                    s2 = self._defs_effect(idx, s2)
                    if rng is not None:
                        v = Poly.atom(rng[0])
                        s2 = self._add_ineq(self._add_ineq(s2, rng[1] - v, False), v - rng[2] + _ONE, False)
                    s2 = s2._replace(ran=s2.ran | {idx})
                elif lab == "F":
                    if idx in st.ran:
                        for di in self.df.node_defs.get(idx, []):
                            s2 = self._kill(s2, self.df.defs[di].var)
                        if clean:
                            s2 = s2._replace(eqs=s2.eqs | {(rng[0], rng[2] - _ONE)})
                    elif rng is not None:
                        s2 = self._add_ineq(s2, rng[2] - rng[1], False)
                    s2 = s2._replace(ran=s2.ran - {idx})
                if lab in ("T", "F"):
                    s2 = s2._replace(marks=frozenset(self.on_edge(node, lab, [], s2.marks)))
                out.append((s, s2))
        else:
            s2 = self._defs_effect(idx, st) if node.kind in ("stmt", "with", "handler") else st
            out = [(s, s2) for s in node.succ]
        res = []
        for s, s2 in out:
            tgt = cfg.nodes[s]
            if tgt.kind == "loop" and s not in node.loops and idx != s:
                s2 = s2._replace(ran=s2.ran - {s})  # entered from outside
            res.append((s, s2))
        return res

    def run(self, marks=()) -> "Explorer":
        cfg = self.cfg
        init = State(frozenset(), frozenset(), frozenset(), frozenset(self.loop_targets), frozenset(), frozenset(marks))
        seen: dict[int, set] = {n.idx: set() for n in cfg.nodes}
        seen[cfg.entry].add(init)
        work = [(cfg.entry, init)]
        while work:
            idx, st = work.pop()
            for s, s2 in self._step(idx, st):
                if s == cfg.exit:
                    self.outcomes.append((idx, s2))
                    continue
                if s2 in seen[s]:
                    continue
                if len(seen[s]) >= self.max_states:
                    raise AnalysisError(f"{self.func.name}: too many path states at one statement")
                seen[s].add(s2)
                work.append((s, s2))
        return self
