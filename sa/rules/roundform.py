"""Componentwise normal form of pixel arithmetic on 2-vectors: linear forms over Q with ROUND and FLOORDIV atoms.

A function that turns a (real-valued) position and (integer) extents into integer pixel indices is evaluated
symbolically, component by component:

  leaves     component k of a parameter, tagged with the parameter's role; a role is integer-valued or real-valued
  ROUND(x)   numpy's round / around / rint / round_ and the builtin round with one argument: all round half to even.
             ROUND of an integer-valued form is the form itself.  Nothing else is moved out of a ROUND:
             round(x + m) == round(x) + m does NOT hold for odd m under round-half-to-even, and round(x - n/2) is
             not round(x) - n//2 for odd n.
  FLOORDIV(x, d)  x // d for an integer-valued form x and a positive integer literal d; summands whose coefficient is
             a multiple of d are moved out: (2*a + r) // 2 == a + r // 2.

Vector-valued expressions are read through: the parameters themselves, 2-tuples / 2-lists, `np.array((a, b))`,
value-preserving wrappers (asnumpy, asarray, copy, get), `.astype(int)` / `int()` of an integer-valued form (a cast of
a non-integer form truncates: outside the language), element-wise + - and * / // by a literal, constant subscripts,
tuple unpacking and temporaries (single reaching definitions, augmented assignments included).  Everything else is an
AnalysisError.

Two forms denote the same function iff their normal forms are equal (sound; complete only up to the identities
above).  `value()` evaluates a form exactly (Fractions) for concrete leaves, which gives concrete counterexamples.
"""
from __future__ import annotations

import ast
from fractions import Fraction
from typing import Union

from ..model import AnalysisError, call_name, norm_text

ROUNDERS = {"round", "around", "rint", "round_"}
VALUE_PRESERVING = {"asnumpy", "asarray", "array", "asanyarray", "ascontiguousarray", "copy_to_device", "copy",
                    "tuple", "list", "float", "float32", "float64"}
_INT_TYPES = {"int", "int8", "int16", "int32", "int64", "intp", "int_", "long", "longlong"}
_FLOAT_TYPES = {"float", "float32", "float64", "float_", "double"}

ONE = ()


class Lin:
    """Immutable linear form sum(coeff * atom) over Q; the atom `ONE` carries the constant."""
    __slots__ = ("terms", "_key")

    def __init__(self, terms=None):
        self.terms = {a: Fraction(c) for a, c in (terms or {}).items() if c != 0}
        self._key = tuple(sorted(((repr(a), a, c) for a, c in self.terms.items()), key=lambda t: t[0]))

    # -- construction
    @staticmethod
    def const(c) -> "Lin":
        return Lin({ONE: Fraction(c)})

    @staticmethod
    def leaf(role: str, k: int) -> "Lin":
        return Lin({("leaf", role, k): 1})

    # -- identity
    def __eq__(self, other):
        return isinstance(other, Lin) and self._key == other._key

    def __hash__(self):
        return hash(tuple((r, c) for r, _, c in self._key))

    def __repr__(self):
        return "Lin(" + ", ".join(f"{c}*{r}" for r, _, c in self._key) + ")"

    # -- arithmetic
    def __add__(self, o: "Lin") -> "Lin":
        t = dict(self.terms)
        for a, c in o.terms.items():
            t[a] = t.get(a, 0) + c
        return Lin(t)

    def __neg__(self) -> "Lin":
        return Lin({a: -c for a, c in self.terms.items()})

    def __sub__(self, o: "Lin") -> "Lin":
        return self + (-o)

    def scale(self, q) -> "Lin":
        return Lin({a: c * Fraction(q) for a, c in self.terms.items()})

    def is_const(self) -> bool:
        return all(a == ONE for a in self.terms)

    def const_value(self) -> Fraction:
        return self.terms.get(ONE, Fraction(0))

    def is_zero(self) -> bool:
        return not self.terms

    # -- text (role names only: never a local variable name)
    def text(self) -> str:
        if not self.terms:
            return "0"
        parts = []
        for _, a, c in self._key:
            s = _atom_text(a)
            if a == ONE:
                body = str(abs(c))
            elif abs(c) == 1:
                body = s
            else:
                body = f"{abs(c)}*{s}"
            parts.append(("-" if c < 0 else "+") + " " + body)
        out = " ".join(parts)
        return out[2:] if out.startswith("+ ") else "-" + out[2:]


def _atom_text(a) -> str:
    if a == ONE:
        return "1"
    if a[0] == "leaf":
        return f"{a[1]}[{a[2]}]"
    if a[0] == "round":
        return f"ROUND({a[1].text()})"
    if a[0] == "fdiv":
        return f"({a[1].text()} // {a[2]})"
    return repr(a)


class Roles:
    """role name -> is the role integer-valued?"""

    def __init__(self, integer: dict):
        self.integer = dict(integer)


def atom_is_integer(a, roles: Roles) -> bool:
    if a == ONE:
        return True
    if a[0] == "leaf":
        return bool(roles.integer.get(a[1], False))
    return a[0] in ("round", "fdiv")


def is_integer(x: Lin, roles: Roles) -> bool:
    return all(atom_is_integer(a, roles) and c.denominator == 1 for a, c in x.terms.items())


def mk_round(x: Lin, roles: Roles) -> Lin:
    if is_integer(x, roles):
        return x
    return Lin({("round", x): 1})


def mk_fdiv(x: Lin, d: int, roles: Roles, what: str) -> Lin:
    if not is_integer(x, roles):
        raise AnalysisError(f"{what}: floor division of a form that is not integer-valued ({x.text()[:60]})")
    if d <= 0:
        raise AnalysisError(f"{what}: floor division by a non-positive literal")
    out, rest = {}, {}
    for a, c in x.terms.items():
        if c % d == 0:
            out[a] = c / d
        elif a == ONE:
            q = c // d  # c integer
            out[a] = q
            rest[a] = c - q * d
        else:
            rest[a] = c
    r = Lin(rest)
    res = Lin(out)
    if not r.is_zero():
        res = res + Lin({("fdiv", r, d): 1})
    return res


def leaves(x: Lin, nested: bool = True):
    """Yield (role, k, depth) of every leaf; depth 0 = outside every ROUND / FLOORDIV."""
    def walk(y: Lin, depth: int):
        for a in y.terms:
            if a == ONE:
                continue
            if a[0] == "leaf":
                yield a[1], a[2], depth
            elif nested:
                yield from walk(a[1], depth + 1)
    yield from walk(x, 0)


def has_role(x: Lin, role: str) -> bool:
    return any(r == role for r, _, _ in leaves(x))


def value(x: Lin, env: dict) -> Fraction:
    """Exact value for concrete leaves: env[(role, k)] -> number."""
    tot = Fraction(0)
    for a, c in x.terms.items():
        if a == ONE:
            v = Fraction(1)
        elif a[0] == "leaf":
            v = Fraction(env[(a[1], a[2])])
        elif a[0] == "round":
            v = Fraction(round(value(a[1], env)))  # Fraction.__round__ rounds half to even, as numpy does
        elif a[0] == "fdiv":
            v = Fraction(value(a[1], env) // a[2])
        else:  # pragma: no cover
            raise AnalysisError(f"internal: atom {a!r}")
        tot += c * v
    return tot


Value = Union[Lin, list]


def _short(call: ast.Call) -> str:
    return (call_name(call) or "").split(".")[-1]


def _type_name(e: ast.AST) -> str:
    if isinstance(e, ast.Constant) and isinstance(e.value, str):
        return e.value
    if isinstance(e, ast.Name):
        return e.id
    if isinstance(e, ast.Attribute):
        return e.attr
    return ""


class RoundEval:
    """Symbolic evaluation of expressions of one function into componentwise normal forms.

    `params`: parameter name -> role (every parameter with a role is a 2-vector); `roles` says which roles are
    integer-valued."""

    def __init__(self, f, df, params: dict, roles: Roles):
        self.f, self.df, self.params, self.roles = f, df, dict(params), roles
        self.q = f.qualname

    # -- helpers
    def _err(self, msg: str):
        return AnalysisError(f"{self.q}: {msg}")

    def _map(self, v: Value, fn) -> Value:
        return [fn(c) for c in v] if isinstance(v, list) else fn(v)

    def _zip(self, a: Value, b: Value, fn) -> Value:
        if isinstance(a, list) and isinstance(b, list):
            return [fn(x, y) for x, y in zip(a, b)]
        if isinstance(a, list):
            return [fn(x, b) for x in a]
        if isinstance(b, list):
            return [fn(a, y) for y in b]
        return fn(a, b)

    def _cast(self, v: Value, type_expr: ast.AST, src: ast.AST) -> Value:
        t = _type_name(type_expr)
        if t in _FLOAT_TYPES:
            return v
        if t in _INT_TYPES:
            comps = v if isinstance(v, list) else [v]
            if not all(is_integer(c, self.roles) for c in comps):
                raise self._err(f"`{norm_text(src)[:60]}` casts a value that is not known to be a whole number "
                                "(truncation is outside the pixel arithmetic)")
            return v
        raise self._err(f"cast to an unrecognised type in `{norm_text(src)[:60]}`")

    def scalar(self, v: Value, src: ast.AST) -> Lin:
        if isinstance(v, list):
            raise self._err(f"`{norm_text(src)[:60]}` is a vector where a single component is needed")
        return v

    # -- evaluation
    def ev(self, e: ast.AST, at: int, depth: int = 0) -> Value:
        if depth > 40:
            raise self._err("definition chain too deep")
        roles = self.roles
        if isinstance(e, ast.Constant) and isinstance(e.value, (int, float)) and not isinstance(e.value, bool):
            return Lin.const(Fraction(e.value))
        if isinstance(e, ast.UnaryOp) and isinstance(e.op, (ast.USub, ast.UAdd)):
            v = self.ev(e.operand, at, depth + 1)
            return self._map(v, lambda c: -c) if isinstance(e.op, ast.USub) else v
        if isinstance(e, (ast.Tuple, ast.List)):
            if len(e.elts) != 2 or any(isinstance(x, ast.Starred) for x in e.elts):
                raise self._err(f"`{norm_text(e)[:60]}` is not a pair")
            return [self.scalar(self.ev(x, at, depth + 1), x) for x in e.elts]
        if isinstance(e, ast.BinOp):
            return self._binop(e, at, depth)
        if isinstance(e, ast.Call):
            return self._call(e, at, depth)
        if isinstance(e, ast.Subscript):
            idx = e.slice
            if isinstance(idx, ast.UnaryOp) and isinstance(idx.op, ast.USub) and isinstance(idx.operand, ast.Constant):
                idx = ast.Constant(value=-idx.operand.value) if isinstance(idx.operand.value, int) else idx
            if not (isinstance(idx, ast.Constant) and isinstance(idx.value, int) and not isinstance(idx.value, bool)
                    and -2 <= idx.value <= 1):
                raise self._err(f"`{norm_text(e)[:60]}` is not a component selected by a literal index")
            v = self.ev(e.value, at, depth + 1)
            if not isinstance(v, list):
                raise self._err(f"`{norm_text(e)[:60]}` indexes a single number")
            return v[idx.value % 2]
        if isinstance(e, ast.Name):
            return self._name(e, at, depth)
        raise self._err(f"`{norm_text(e)[:60]}` is outside the pixel arithmetic")

    def _name(self, e: ast.Name, at: int, depth: int) -> Value:
        d = self.df.single_def(at, e.id)
        if d is None:
            return self._after_augmented(e, at, depth)
        if d.kind == "param":
            role = self.params.get(e.id)
            if role is None:
                raise self._err(f"parameter `{e.id}` has no role in the pixel arithmetic")
            return [Lin.leaf(role, 0), Lin.leaf(role, 1)]
        st = self.df.cfg.nodes[d.node].ast
        if d.kind not in ("assign", "walrus") or d.value is None:
            raise self._err(f"`{e.id}` has no single defining assignment")
        if isinstance(st, ast.Assign) and d.value is st.value:
            for t in st.targets:
                if isinstance(t, (ast.Tuple, ast.List)):
                    names = [x.id if isinstance(x, ast.Name) else None for x in t.elts]
                    if e.id in names:
                        if len(names) != 2:
                            raise self._err(f"cannot read the unpacking `{norm_text(st)[:60]}`")
                        v = self.ev(d.value, d.node, depth + 1)
                        if not isinstance(v, list):
                            raise self._err(f"`{norm_text(st)[:60]}` unpacks a single number")
                        return v[names.index(e.id)]
        return self.ev(d.value, d.node, depth + 1)

    def _after_augmented(self, e: ast.Name, at: int, depth: int) -> Value:
        """`v = a` followed by straight-line `v -= b` / `v += c`: an augmented assignment is a weak definition, so
        the plain assignment and every augmented one reach the use.  The value is that of the last augmented
        assignment, whose left operand is the variable as it was just before that statement."""
        cfg = self.df.cfg
        rd = self.df.reaching(at, e.id)
        augs = [d for d in rd if d.kind == "aug"]
        plain = [d for d in rd if d.kind != "aug"]
        if not augs or len(plain) != 1 or not plain[0].strong:
            raise self._err(f"`{e.id}` has no single defining assignment")
        if any(cfg.nodes[d.node].loops or d.node == at or not cfg.dominates(d.node, at) for d in augs):
            raise self._err(f"`{e.id}` is modified conditionally or in a loop")
        last = [d for d in augs if all(cfg.dominates(o.node, d.node) for o in augs)]
        st = cfg.nodes[last[0].node].ast if len(last) == 1 else None
        if not (isinstance(st, ast.AugAssign) and isinstance(st.target, ast.Name) and st.target.id == e.id):
            raise self._err(f"cannot order the augmented assignments of `{e.id}`")
        return self._binop(ast.BinOp(left=ast.Name(id=e.id, ctx=ast.Load()), op=st.op, right=st.value), last[0].node,
                           depth + 1)

    def _binop(self, e: ast.BinOp, at: int, depth: int) -> Value:
        a, b = self.ev(e.left, at, depth + 1), self.ev(e.right, at, depth + 1)
        what = f"{self.q}: `{norm_text(e)[:50]}`"
        if isinstance(e.op, ast.Add):
            return self._zip(a, b, lambda x, y: x + y)
        if isinstance(e.op, ast.Sub):
            return self._zip(a, b, lambda x, y: x - y)
        if isinstance(e.op, ast.Mult):
            def mul(x: Lin, y: Lin) -> Lin:
                if y.is_const():
                    return x.scale(y.const_value())
                if x.is_const():
                    return y.scale(x.const_value())
                raise AnalysisError(f"{what}: product of two non-constant forms")
            return self._zip(a, b, mul)
        if isinstance(e.op, ast.Div):
            def div(x: Lin, y: Lin) -> Lin:
                if not y.is_const() or y.const_value() == 0:
                    raise AnalysisError(f"{what}: division by something other than a non-zero literal")
                return x.scale(1 / y.const_value())
            return self._zip(a, b, div)
        if isinstance(e.op, ast.FloorDiv):
            def fdiv(x: Lin, y: Lin) -> Lin:
                if not y.is_const() or y.const_value().denominator != 1:
                    raise AnalysisError(f"{what}: floor division by something other than an integer literal")
                return mk_fdiv(x, int(y.const_value()), self.roles, what)
            return self._zip(a, b, fdiv)
        raise AnalysisError(f"{what} is outside the pixel arithmetic")

    def _call(self, e: ast.Call, at: int, depth: int) -> Value:
        name = _short(e)
        if any(isinstance(a, ast.Starred) for a in e.args) or any(k.arg is None for k in e.keywords):
            raise self._err(f"`{norm_text(e)[:60]}` is outside the pixel arithmetic")
        if isinstance(e.func, ast.Attribute) and e.func.attr == "astype" and len(e.args) + len(e.keywords) >= 1:
            t = e.args[0] if e.args else next((k.value for k in e.keywords if k.arg == "dtype"), None)
            if t is None:
                raise self._err(f"cannot read the cast `{norm_text(e)[:60]}`")
            return self._cast(self.ev(e.func.value, at, depth + 1), t, e)
        if isinstance(e.func, ast.Attribute) and e.func.attr in ("get", "copy", "item", "tolist") and not e.args \
                and not e.keywords:
            return self.ev(e.func.value, at, depth + 1)
        if name == "int" and len(e.args) == 1 and not e.keywords:
            return self._cast(self.ev(e.args[0], at, depth + 1), ast.Name(id="int", ctx=ast.Load()), e)
        if name in ROUNDERS and len(e.args) == 1 and not e.keywords:
            return self._map(self.ev(e.args[0], at, depth + 1), lambda c: mk_round(c, self.roles))
        if name in VALUE_PRESERVING and len(e.args) == 1:
            v = self.ev(e.args[0], at, depth + 1)
            for k in e.keywords:
                if k.arg == "dtype":
                    v = self._cast(v, k.value, e)
                elif k.arg not in ("copy", "order", "xp"):
                    raise self._err(f"`{norm_text(e)[:60]}` is outside the pixel arithmetic")
            return v
        raise self._err(f"`{norm_text(e)[:60]}` is outside the pixel arithmetic")
