"""Labelled-axis interpretation of a block function that PREPENDS ensemble axes to its input.

Extends sa/rules/axislayout.py (abstract values over labelled axes, nothing is executed) by what such functions use:

* `tile`, `broadcast_to`, `repeat` of a length-one axis: the new axis is labelled by what gives it its length (every
  label stands for a distinct length, so the length identifies the quantity);
* `reshape((-1, 1, 1, ...))` of a vector;
* element-wise numpy functions (clip, maximum, ...) and a Poisson draw `rng.poisson(rate)`: the layout of the
  operand(s);
* `tuple(v)` / `list(v)` / `sum(v)` of a labelled vector (the vector itself / a scalar);
* LAZY failure: an assignment whose right-hand side the interpreter cannot read binds an `Unread` marker instead of
  ending the analysis; only a USE of that name raises the AnalysisError.  Statements that do not feed the layout (the
  derivation of a random seed, logging) may therefore be anything, while nothing that reaches the result is guessed.
"""
from __future__ import annotations

import ast

from ..model import AnalysisError
from . import axislayout as L
from .absint import DomainError

ELEMENTWISE = {"clip", "maximum", "minimum", "fmax", "fmin", "abs", "absolute", "fabs", "round", "around", "rint",
               "floor", "ceil", "trunc", "sqrt", "square", "nan_to_num", "real", "float32", "float64"}


class Unread:
    """The value of an assignment the interpreter could not read; using it is an AnalysisError."""

    def __init__(self, why: str):
        self.why = why


def _is_int(x) -> bool:
    return isinstance(x, int) and not isinstance(x, bool)


class LazyLayoutInterp(L.LayoutInterp):
    # ------------------------------------------------------------------ lazy failure
    def eval(self, n: ast.AST, env: dict):
        if isinstance(n, ast.Name) and isinstance(env.get(n.id), Unread):
            err = AnalysisError(f"layout interpreter: `{n.id}` is used but its definition could not be read "
                                f"({env[n.id].why})")
            err.root = env[n.id].why  # the first unreadable construct, not the chain of names it passed through
            raise err
        return super().eval(n, env)

    def _stmt(self, st: ast.stmt, env: dict):
        if isinstance(st, (ast.Assign, ast.AnnAssign, ast.AugAssign)):
            targets = st.targets if isinstance(st, ast.Assign) else [st.target]
            try:
                return super()._stmt(st, env)
            except AnalysisError as e:
                names = []
                for t in targets:
                    if isinstance(t, ast.Name):
                        names.append(t.id)
                    elif isinstance(t, (ast.Tuple, ast.List)) and all(isinstance(x, ast.Name) for x in t.elts):
                        names.extend(x.id for x in t.elts)
                    else:
                        raise
                for nm in names:
                    env[nm] = Unread(getattr(e, "root", str(e)))
                return None
        return super()._stmt(st, env)

    # ------------------------------------------------------------------ calls
    def _call(self, n: ast.Call, env: dict):
        f = n.func
        if isinstance(f, ast.Attribute) and f.attr == "poisson":
            # a Poisson draw has the layout of its rate, whatever generator object draws it
            kws = {k.arg: k.value for k in n.keywords}
            rate = n.args[0] if n.args else kws.get("lam")
            size = n.args[1] if len(n.args) > 1 else kws.get("size")
            if rate is None or isinstance(rate, ast.Starred):
                raise AnalysisError("layout interpreter: poisson draw without a rate")
            if size is not None and not (isinstance(size, ast.Constant) and size.value is None):
                raise AnalysisError("layout interpreter: poisson draw with an explicit size")
            return self.to_array(self.eval(rate, env), n)
        return super()._call(n, env)

    def _builtin(self, name: str, args: list, kwargs: dict, node):
        if len(args) == 1 and isinstance(args[0], L.LA) and args[0].rank == 1 and args[0].axes[0] != L.COMP:
            if name in ("tuple", "list"):
                return args[0]  # the same labelled vector, as a sequence
            if name == "sum":
                return L.Sc(args[0].val) if not isinstance(args[0].val, tuple) else NotImplemented
        return super()._builtin(name, args, kwargs, node)

    def _reps(self, v, what: str) -> tuple:
        reps = (v,) if _is_int(v) else tuple(v) if isinstance(v, (tuple, list)) else None
        if reps is None or not all(_is_int(x) for x in reps):
            raise AnalysisError(f"layout interpreter: {what} is not a tuple of concrete integers")
        return reps

    def _numpy(self, name: str, args: list, kwargs: dict, node):
        if name == "tile" and len(args) + ("reps" in kwargs) == 2:
            a = self.to_array(args[0], node)
            reps = self._reps(args[1] if len(args) > 1 else kwargs["reps"], "tile: reps")
            if len(reps) < a.rank:
                reps = (1,) * (a.rank - len(reps)) + reps
            axes = (L.ONE,) * (len(reps) - a.rank) + a.axes
            out = []
            for lab, r in zip(axes, reps):
                if r == 1:
                    out.append(lab)
                elif lab == L.ONE:
                    out.append(self.label_of_size(r, node))
                else:
                    raise AnalysisError(f"layout interpreter: tiling the data axis `{lab}` is not modelled")
            return L.LA(tuple(out), a.val)
        if name == "broadcast_to" and len(args) + ("shape" in kwargs) == 2:
            a = self.to_array(args[0], node)
            shp = self._reps(args[1] if len(args) > 1 else kwargs["shape"], "broadcast_to: shape")
            if len(shp) < a.rank:
                raise DomainError("broadcast_to: the array has more dimensions than the requested shape", node)
            axes = (L.ONE,) * (len(shp) - a.rank) + a.axes
            out = []
            for i, (lab, s) in enumerate(zip(axes, shp)):
                have = 1 if lab == L.ONE else (len(a.val) if lab == L.COMP else self.sizes[lab])
                if have == s:
                    out.append(lab)
                elif lab == L.ONE:
                    out.append(self.label_of_size(s, node))
                else:
                    raise DomainError(f"broadcast_to: axis `{lab}` of length {have} cannot be broadcast to {s}", node)
            return L.LA(tuple(out), a.val)
        if name == "repeat" and len(args) >= 2 and ("axis" in kwargs or len(args) == 3):
            a = self.to_array(args[0], node)
            ax = self._norm_axis(args[2] if len(args) == 3 else kwargs["axis"], a.rank, node, "repeat")
            if not _is_int(args[1]):
                raise AnalysisError("layout interpreter: repeat count is not a concrete integer")
            if args[1] == 1:
                return a
            if a.axes[ax] != L.ONE:
                raise AnalysisError(f"layout interpreter: repeating the data axis `{a.axes[ax]}` is not modelled")
            return L.LA(a.axes[:ax] + (self.label_of_size(args[1], node),) + a.axes[ax + 1:], a.val)
        if name in ELEMENTWISE and args:
            ops = [x for x in list(args) + list(kwargs.values()) if isinstance(x, L.LA)]
            if not ops:
                return NotImplemented
            axes = ops[0].axes
            for o in ops[1:]:
                axes = self.broadcast_axes(axes, o.axes, node)
            return L.LA(axes, ops[0].val)
        return super()._numpy(name, args, kwargs, node)

    def _reshape(self, a: L.LA, shape, node):
        shp = tuple(shape) if isinstance(shape, (tuple, list)) else (shape,)
        if a.rank == 1 and a.axes[0] not in (L.ONE, L.COMP) and len(shp) > 1 and all(_is_int(x) for x in shp):
            n = self.sizes[a.axes[0]]
            keep = [i for i, x in enumerate(shp) if x != 1]
            if len(keep) == 1 and shp[keep[0]] in (-1, n):
                return L.LA(tuple(a.axes[0] if i == keep[0] else L.ONE for i in range(len(shp))), a.val)
            prod = 1
            for x in shp:
                prod *= x
            if -1 not in shp and prod != n:
                raise DomainError(f"cannot reshape an array of size {n} into shape {shp}", node)
        return super()._reshape(a, shape, node)

    def _method(self, a: L.LA, name: str, args: list, kwargs: dict, node):
        if name in ("clip", "round"):
            return a
        return super()._method(a, name, args, kwargs, node)
