"""Two-object synchronisers (`a.match(b)`) decided by concrete execution over a small typestate, and the state an
attribute of an object transitively reads.

A *synchroniser* is a method `m(self, other, <boolean options>)` that reads and stores the same slots (`energy`;
`extent` / `gpts` / `sampling`) on its receiver and on its first argument.  Its contract is a post-condition: after the
call both objects hold the same value of each slot whenever at least one of them held one.  The contract is decided by
running the body (and the methods of the same class it calls) on every combination of

    slot of the receiver   unset | set
    slot of the argument   unset | set
    both set               equal | different

with symbolic values `a` (the receiver's), `b` (the argument's).  Every test the body makes on the slots (`is None`,
`==`, `!=`, np.any / np.all / np.allclose / np.isclose wrappers, and / or / not) evaluates to a definite boolean in a
given scenario, so each scenario has exactly one path, and the path ends with definite slot contents or with a raise.
A test or a store the interpreter cannot evaluate raises AnalysisError (never a verdict).

Nothing here executes repository code: the "execution" is an interpreter over the `ast` of the method.
"""
from __future__ import annotations

import ast
import itertools
from dataclasses import dataclass, field
from typing import Optional

from ..model import AnalysisError, ClassInfo, FuncInfo, bind_args, dotted, last_attr, norm_text, walk_no_nested

UNK = ("unk",)
SELF = ("obj", "self")
OTHER = ("obj", "other")

KINDS = ("NN", "SN", "NS", "EQ", "NE")  # receiver/argument unset (N) or set (S); both set: equal / different
KIND_TEXT = {"NN": "both unset", "SN": "receiver set, argument unset", "NS": "receiver unset, argument set",
             "EQ": "both set and equal", "NE": "both set and different"}

_UNARY_WRAPPERS = {"any", "all", "array", "asarray", "asanyarray", "tuple", "list", "float", "int", "float32",
                   "float64", "ravel", "flatten", "squeeze", "copy", "deepcopy"}
_EQ_CALLS = {"allclose", "isclose", "array_equal", "array_equiv", "equal"}
_NE_CALLS = {"not_equal"}


def slot_of(attr: str) -> str:
    return attr.lstrip("_")


class _Raise(Exception):
    pass


class _Return(Exception):
    def __init__(self, value):
        self.value = value


@dataclass
class Outcome:
    scenario: dict  # slot -> kind
    flags: dict
    status: str  # "return" | "raise"
    final: dict = field(default_factory=dict)  # slot -> (value on receiver, value on argument); values None / "a" / "b"
    stores: int = 0


def _initial(kind: str):
    return {"NN": (None, None), "SN": ("a", None), "NS": (None, "b"), "EQ": ("a", "a"), "NE": ("a", "b")}[kind]


class SyncInterp:
    def __init__(self, f: FuncInfo):
        self.f = f
        ps = f.positional_params
        if f.cls is None or len(ps) < 2 or f.has_vararg or f.has_varkw:
            raise AnalysisError(f"{f.qualname}: not a two-object method")
        self.recv, self.peer = ps[0], ps[1]
        self.flag_defaults: dict[str, bool] = {}
        dfl = f.defaults()
        for p in f.params[2:]:
            d = dfl.get(p)
            if not (isinstance(d, ast.Constant) and isinstance(d.value, bool)):
                raise AnalysisError(f"{f.qualname}: option `{p}` is not a boolean flag with a default")
            self.flag_defaults[p] = d.value
        on = {self.recv: set(), self.peer: set()}
        called = set()
        self.n_store_sites = 0
        for n in walk_no_nested(f.node):
            if isinstance(n, ast.Call) and isinstance(n.func, ast.Attribute):
                called.add(id(n.func))
        for n in walk_no_nested(f.node):
            if isinstance(n, ast.Attribute) and isinstance(n.value, ast.Name) and n.value.id in on and id(n) not in called:
                on[n.value.id].add(slot_of(n.attr))
                if isinstance(n.ctx, ast.Store):
                    self.n_store_sites += 1
        self.fields = sorted(on[self.recv] & on[self.peer])
        if not self.fields:
            raise AnalysisError(f"{f.qualname}: no slot is accessed on both the receiver and the argument")

    # ------------------------------------------------------------------ running
    def scenarios(self):
        for combo in itertools.product(KINDS, repeat=len(self.fields)):
            yield dict(zip(self.fields, combo))

    def run(self, scenario: dict, flags: Optional[dict] = None) -> Outcome:
        fl = dict(self.flag_defaults)
        fl.update(flags or {})
        self.state = {}
        for s in self.fields:
            a, b = _initial(scenario[s])
            # distinct slots hold distinct symbols
            self.state[("self", s)] = None if a is None else f"{a}:{s}"
            self.state[("other", s)] = None if b is None else f"{b}:{s}"
        self.stores = 0
        env = {self.recv: SELF, self.peer: OTHER}
        env.update(fl)
        out = Outcome(dict(scenario), fl, "return")
        try:
            self._call_body(self.f, env, 0)
        except _Raise:
            out.status = "raise"
        out.final = {s: (self.state[("self", s)], self.state[("other", s)]) for s in self.fields}
        out.stores = self.stores
        return out

    def _call_body(self, fn: FuncInfo, env: dict, depth: int):
        if depth > 3:
            raise AnalysisError(f"{self.f.qualname}: call chain too deep")
        try:
            self._block(fn.body, env, fn, depth)
        except _Return as r:
            return r.value
        return None

    def _block(self, stmts, env, fn, depth):
        for st in stmts:
            self._stmt(st, env, fn, depth)

    def _stmt(self, st, env, fn, depth):
        if isinstance(st, ast.Pass):
            return
        if isinstance(st, ast.Expr):
            if isinstance(st.value, ast.Constant):
                return
            if isinstance(st.value, ast.Call):
                self._ev(st.value, env, fn, depth, effect=True)
                return
            raise AnalysisError(f"{fn.qualname}: cannot interpret `{norm_text(st)[:50]}`")
        if isinstance(st, ast.If):
            t = self._truth(self._ev(st.test, env, fn, depth), st.test, fn)
            self._block(st.body if t else st.orelse, env, fn, depth)
            return
        if isinstance(st, ast.Raise):
            raise _Raise()
        if isinstance(st, ast.Return):
            raise _Return(self._ev(st.value, env, fn, depth) if st.value is not None else None)
        if isinstance(st, ast.Assert):
            if not self._truth(self._ev(st.test, env, fn, depth), st.test, fn):
                raise _Raise()
            return
        if isinstance(st, (ast.Assign, ast.AnnAssign)):
            if isinstance(st, ast.AnnAssign):
                if st.value is None:
                    return
                targets = [st.target]
            else:
                targets = st.targets
            v = self._ev(st.value, env, fn, depth)
            for t in targets:
                self._store(t, v, env, fn, depth)
            return
        raise AnalysisError(f"{fn.qualname}: cannot interpret statement `{norm_text(st)[:50]}`")

    def _store(self, t, v, env, fn, depth):
        if isinstance(t, ast.Name):
            env[t.id] = v
            return
        if isinstance(t, ast.Attribute):
            o = self._ev(t.value, env, fn, depth)
            if o in (SELF, OTHER) and slot_of(t.attr) in self.fields:
                if v is not None and not isinstance(v, str):
                    v = UNK
                self.state[(o[1], slot_of(t.attr))] = v
                self.stores += 1
                return
        raise AnalysisError(f"{fn.qualname}: cannot interpret the store `{norm_text(t)[:50]} = ...`")

    def _truth(self, v, node, fn) -> bool:
        if isinstance(v, bool):
            return v
        if v is None:
            return False
        if v in (SELF, OTHER):
            return True
        raise AnalysisError(f"{fn.qualname}: cannot evaluate the test `{norm_text(node)[:60]}` on the slots "
                            f"{self.fields}")

    @staticmethod
    def _cmp_eq(a, b):
        ok = lambda x: x is None or isinstance(x, str)  # noqa: E731
        if ok(a) and ok(b):
            return a == b
        if a in (SELF, OTHER) and b in (SELF, OTHER):
            return a == b
        return UNK

    def _ev(self, e, env, fn, depth, effect: bool = False):
        if isinstance(e, ast.Constant):
            if e.value is None or isinstance(e.value, bool):
                return e.value
            return UNK
        if isinstance(e, ast.Name):
            return env.get(e.id, UNK)
        if isinstance(e, ast.Attribute):
            o = self._ev(e.value, env, fn, depth)
            if o in (SELF, OTHER) and slot_of(e.attr) in self.fields:
                return self.state[(o[1], slot_of(e.attr))]
            return UNK
        if isinstance(e, ast.UnaryOp) and isinstance(e.op, ast.Not):
            v = self._ev(e.operand, env, fn, depth)
            if v is UNK or isinstance(v, str):
                return UNK
            return not self._truth(v, e, fn)
        if isinstance(e, ast.BoolOp):
            is_and = isinstance(e.op, ast.And)
            for x in e.values:
                v = self._ev(x, env, fn, depth)
                if v is UNK or isinstance(v, str):
                    return UNK
                t = self._truth(v, x, fn)
                if is_and and not t:
                    return False
                if not is_and and t:
                    return True
            return is_and
        if isinstance(e, ast.BinOp) and isinstance(e.op, (ast.BitAnd, ast.BitOr)):
            a, b = self._ev(e.left, env, fn, depth), self._ev(e.right, env, fn, depth)
            if isinstance(a, bool) and isinstance(b, bool):
                return (a and b) if isinstance(e.op, ast.BitAnd) else (a or b)
            return UNK
        if isinstance(e, ast.IfExp):
            t = self._truth(self._ev(e.test, env, fn, depth), e.test, fn)
            return self._ev(e.body if t else e.orelse, env, fn, depth)
        if isinstance(e, ast.Compare):
            left = self._ev(e.left, env, fn, depth)
            res = True
            for op, c in zip(e.ops, e.comparators):
                right = self._ev(c, env, fn, depth)
                if isinstance(op, (ast.Is, ast.Eq)):
                    r = self._cmp_eq(left, right)
                elif isinstance(op, (ast.IsNot, ast.NotEq)):
                    r = self._cmp_eq(left, right)
                    r = UNK if r is UNK else not r
                else:
                    r = UNK
                if r is UNK:
                    return UNK
                res = res and r
                left = right
            return res
        if isinstance(e, ast.Call):
            fnname = last_attr(e)
            # a method of the synchroniser's own class called on the receiver or the argument
            if isinstance(e.func, ast.Attribute):
                o = self._ev(e.func.value, env, fn, depth)
                if o in (SELF, OTHER):
                    callee = self.f.cls.find_method(e.func.attr)
                    if callee is None or o == OTHER and not self._same_class_peer():
                        raise AnalysisError(f"{fn.qualname}: cannot resolve `{norm_text(e)[:50]}`")
                    if callee.has_vararg or callee.has_varkw:
                        raise AnalysisError(f"{callee.qualname}: variadic callee")
                    cenv = {callee.positional_params[0]: o}
                    for p, d in callee.defaults().items():
                        cenv[p] = self._ev(d, {}, fn, depth)
                    for p, a in bind_args(e, callee, skip_self=True).items():
                        cenv[p] = self._ev(a, env, fn, depth)
                    return self._call_body(callee, cenv, depth + 1)
            if fnname in _UNARY_WRAPPERS and e.args:
                return self._ev(e.args[0], env, fn, depth)
            if fnname in _EQ_CALLS and len(e.args) >= 2:
                return self._cmp_eq(self._ev(e.args[0], env, fn, depth), self._ev(e.args[1], env, fn, depth))
            if fnname in _NE_CALLS and len(e.args) >= 2:
                r = self._cmp_eq(self._ev(e.args[0], env, fn, depth), self._ev(e.args[1], env, fn, depth))
                return UNK if r is UNK else not r
            if effect:
                raise AnalysisError(f"{fn.qualname}: cannot interpret the call `{norm_text(e)[:50]}`")
            return UNK
        return UNK

    def _same_class_peer(self) -> bool:
        """the argument is annotated with the synchroniser's own class (possibly in a union)"""
        ann = self.f.node.args.args[1].annotation
        if ann is None:
            return False
        names = {n.id for n in ast.walk(ann) if isinstance(n, ast.Name)}
        for c in ast.walk(ann):
            if isinstance(c, ast.Constant) and isinstance(c.value, str):
                names |= {x.strip() for x in c.value.replace("|", ",").replace("[", ",").replace("]", ",").split(",")}
        return self.f.cls.name in names


@dataclass
class SlotVerdict:
    slot: str
    broken: list  # [(scenario kind of this slot, receiver value, argument value)] on normally returning paths
    winner: set  # {"a", "b"} over the NE scenarios that return normally: whose value both hold afterwards
    ne_raises: bool  # every NE scenario raises
    n_paths: int


def decide(f: FuncInfo, flags: Optional[dict] = None) -> dict[str, SlotVerdict]:
    """Post-condition of a synchroniser per slot (over the joint scenarios of all its slots)."""
    it = SyncInterp(f)
    out = {s: SlotVerdict(s, [], set(), True, 0) for s in it.fields}
    for sc in it.scenarios():
        o = it.run(sc, flags)
        for s in it.fields:
            v = out[s]
            v.n_paths += 1
            k = sc[s]
            if o.status == "raise":
                continue
            a, b = o.final[s]
            if a is UNK or b is UNK:
                raise AnalysisError(f"{f.qualname}: a value stored into `{s}` is not a slot of the other object")
            if k == "NE":
                v.ne_raises = False
            if k == "NN":
                continue
            if a is None or b is None or a != b:
                if (k, a, b) not in v.broken:
                    v.broken.append((k, a, b))
            elif a.split(":", 1)[1] != s:
                if (k, a, b) not in v.broken:
                    v.broken.append((k, a, b))
            elif k == "NE":
                v.winner.add(a.split(":", 1)[0])
    return out


def describe(kind: str, a, b) -> str:
    def name(v):
        if v is None:
            return "nothing (unset)"
        who, _, slot = v.partition(":")
        return f"{'its own' if who == 'a' else 'the argument`s'} original {slot}", \
               f"{'the receiver`s' if who == 'a' else 'its own'} original {slot}"

    ra = name(a) if a is None else name(a)[0]
    rb = name(b) if b is None else name(b)[1]
    return f"{KIND_TEXT[kind]}: after the call the receiver holds {ra} and the argument holds {rb}"


# --------------------------------------------------------------------------------------------- state reads
def _annotation_class(repo, mod, ann) -> Optional[ClassInfo]:
    if ann is None:
        return None
    names = []
    for n in ast.walk(ann):
        if isinstance(n, ast.Name):
            names.append(n.id)
        elif isinstance(n, ast.Attribute):
            d = dotted(n)
            if d:
                names.append(d)
        elif isinstance(n, ast.Constant) and isinstance(n.value, str):
            names += [x.strip() for x in n.value.replace("|", ",").replace("[", ",").replace("]", ",").split(",")]
    for nm in names:
        if nm in ("Optional", "None", "Union", ""):
            continue
        t = repo.resolve_name(mod, nm)
        if isinstance(t, ClassInfo):
            return t
    return None


def component_class(repo, cls: ClassInfo, attr: str) -> Optional[ClassInfo]:
    """Class of the object `self.<attr>` of an instance of `cls`: return annotation of the property, annotation of the
    slot in a class body, or the constructor called where the slot is stored in the executed __init__ chain."""
    f = cls.find_method(attr)
    if f is not None:
        t = _annotation_class(repo, f.module, f.node.returns)
        if t is not None:
            return t
        rets = [r for r in walk_no_nested(f.node) if isinstance(r, ast.Return) and r.value is not None]
        if len(rets) == 1:
            d = dotted(rets[0].value)
            sn = f.positional_params[0] if f.positional_params else "self"
            if d and d.startswith(sn + ".") and d.count(".") == 1 and d.split(".")[1] != attr:
                return component_class(repo, cls, d.split(".")[1])
        return None
    for c in cls.mro():
        if attr in c.annotations:
            t = _annotation_class(repo, c.module, c.annotations[attr])
            if t is not None:
                return t
    for g in repo.init_chain(cls):
        sn = g.positional_params[0] if g.positional_params else "self"
        for n in walk_no_nested(g.node):
            if isinstance(n, ast.Assign) and any(dotted(t) == f"{sn}.{attr}" for t in n.targets) and isinstance(
                    n.value, ast.Call):
                t = repo.resolve_name(g.module, dotted(n.value.func) or "")
                if isinstance(t, ClassInfo):
                    return t
    return None


def state_reads(repo, cls: ClassInfo, attr: str, _seen: Optional[set] = None, _depth: int = 0) -> set:
    """Slots {(class qualname, slot)} that reading / calling `self.<attr>` on an instance of `cls` transitively reads:
    properties and methods are followed through the MRO of `cls`, `self.<component>.<x>` continues in the class of the
    component, an attribute without a definition in the class is a slot of the instance."""
    seen = _seen if _seen is not None else set()
    if (cls.qualname, attr) in seen or _depth > 8:
        return set()
    seen.add((cls.qualname, attr))
    f = cls.find_method(attr)
    if f is None:
        return {(cls.qualname, slot_of(attr))}
    if f.is_abstract:
        return set()
    return expr_reads(repo, cls, f.node, f.positional_params[0] if f.positional_params else "self", seen, _depth)


def expr_reads(repo, cls: ClassInfo, root: ast.AST, selfname: str, _seen: Optional[set] = None, _depth: int = 0) -> set:
    seen = _seen if _seen is not None else set()
    chains = set()
    for n in walk_no_nested(root):
        if isinstance(n, ast.Attribute) and isinstance(n.ctx, ast.Load):
            d = dotted(n)
            if d and d.startswith(selfname + "."):
                chains.add(d)
    out = set()
    for d in sorted(chains):
        if any(o.startswith(d + ".") for o in chains):
            continue
        parts = d.split(".")[1:]
        if len(parts) == 1:
            if cls.find_method(parts[0]) is not None:
                out |= state_reads(repo, cls, parts[0], seen, _depth + 1)
            else:
                out.add((cls.qualname, slot_of(parts[0])))
        else:
            comp = component_class(repo, cls, parts[0])
            if comp is not None:
                out |= state_reads(repo, comp, parts[1], seen, _depth + 1)
    return out
