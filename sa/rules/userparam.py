"""A parameter object handed in by the caller keeps the caller's values.

The engine decides, for one module (the *consumer*, e.g. the PRISM S-matrix module) and one class of parameter objects
(e.g. the CTF), which writes the consumer makes into such an object or a copy of it and under which condition:

* which local names hold such an object is computed from the code: parameters annotated with the class, parameters
  that receive such a name at a call site inside the module (fixpoint), locals built by the class' constructor, by
  `.copy()` / `copy.copy` / `deepcopy`, aliases, blocks generated from such an object;
* every attribute store / `setattr` / store below an attribute / call of a method that writes its receiver is a *site*;
  attributes whose setter forwards into a component that the consumer `match(...)`es to itself (grid, accelerator)
  are not parameters chosen per call and are left out;
* a site is *kept-unless-unset* when, on every path that reaches it, a test established that the attribute was
  "unset" (equal to the None / infinite default of the constructor, read through the MRO) or that it lies ABOVE
  the value stored — and the value stored is the consumer's own attribute of the same name (min(...) clamps are
  read as the same thing).  Anything weaker (inequality with the consumer's value, `<` tests that also catch
  smaller finite values, no test, another value) replaces what the caller asked for.

Names of locals are never looked at; tests are read through temporaries and in both arm orders; a store under a guard
that only an explicit request of a caller (a parameter compared with a constant other than its default) can satisfy
is decided by looking at every call in the package.
"""
from __future__ import annotations

import ast
from typing import Optional

from ..cfg import CFG, DataFlow
from ..model import AnalysisError, ClassInfo, FuncInfo, bind_args, dotted, last_attr, norm_text, walk_no_nested

_INF_NAMES = {"inf", "Inf", "infty", "Infinity", "PINF"}
_COPY_CALLS = {"copy", "deepcopy"}


def is_inf(e: ast.AST) -> bool:
    d = dotted(e)
    if d is not None and d.split(".")[-1] in _INF_NAMES:
        return True
    if isinstance(e, ast.Call) and isinstance(e.func, ast.Name) and e.func.id == "float" and len(e.args) == 1 and \
            isinstance(e.args[0], ast.Constant) and isinstance(e.args[0].value, str) and \
            e.args[0].value.lower().lstrip("+") in ("inf", "infinity"):
        return True
    return False


def is_none(e: ast.AST) -> bool:
    return isinstance(e, ast.Constant) and e.value is None


def _bare(a: str) -> str:
    return a.lstrip("_")


# --------------------------------------------------------------------------------------------------------------------
class Site:
    def __init__(self, f: FuncInfo, stmt: ast.stmt, obj: str, attr: str, deeper: list, value: Optional[ast.expr], kind: str,
                 what: str):
        self.f, self.stmt, self.obj, self.attr, self.deeper, self.value, self.kind, self.what = (
            f, stmt, obj, attr, deeper, value, kind, what)


class Engine:
    def __init__(self, repo, modname: str, obj_cls: ClassInfo, consumer_base: Optional[ClassInfo] = None,
                 seeds: tuple = ()):
        self.repo = repo
        self.mod = repo.module(modname)
        self.obj_cls = obj_cls
        self.consumer_base = consumer_base
        self.funcs: list[FuncInfo] = list(self.mod.functions.values())
        for c in self.mod.classes.values():
            for defs in c.methods.values():
                self.funcs += defs
        self.by_name: dict[str, list[FuncInfo]] = {}
        for f in self.funcs:
            self.by_name.setdefault(f.name, []).append(f)
        self.names: dict[int, set[str]] = {id(f): set() for f in self.funcs}
        self._df: dict[int, DataFlow] = {}
        for f, p in seeds:
            self.names[id(f)].add(p)
        self._tag()
        self.components = self._matched_components()

    # ------------------------------------------------------------------ which names hold the object
    def df(self, f: FuncInfo) -> DataFlow:
        if id(f) not in self._df:
            self._df[id(f)] = DataFlow(f.node)
        return self._df[id(f)]

    def _is_cls(self, mod, e: ast.AST) -> bool:
        d = dotted(e)
        if d is None:
            return False
        t = self.repo.resolve_name(mod, d)
        return isinstance(t, ClassInfo) and self.obj_cls in t.mro()

    def _origin(self, f: FuncInfo, v: ast.AST, names: set[str]) -> bool:
        if isinstance(v, ast.Name):
            return v.id in names
        if isinstance(v, ast.IfExp):
            return self._origin(f, v.body, names) or self._origin(f, v.orelse, names)
        if isinstance(v, ast.Call):
            if self._is_cls(f.module, v.func):
                return True
            if isinstance(v.func, ast.Attribute) and v.func.attr in ("copy", "item", "__copy__", "__deepcopy__") and \
                    isinstance(v.func.value, ast.Name) and v.func.value.id in names:
                return True
            if last_attr(v) in _COPY_CALLS and v.args and isinstance(v.args[0], ast.Name) and v.args[0].id in names and \
                    not (isinstance(v.func, ast.Attribute) and isinstance(v.func.value, ast.Name) and v.func.value.id in names):
                return True
        return False

    def _local_closure(self, f: FuncInfo) -> bool:
        names = self.names[id(f)]
        grew = False
        again = True
        while again:
            again = False
            for st in walk_no_nested(f.node):
                new: list[str] = []
                if isinstance(st, ast.Assign) and len(st.targets) == 1 and isinstance(st.targets[0], ast.Name):
                    if self._origin(f, st.value, names):
                        new.append(st.targets[0].id)
                elif isinstance(st, ast.AnnAssign) and isinstance(st.target, ast.Name) and st.value is not None:
                    if self._origin(f, st.value, names):
                        new.append(st.target.id)
                elif isinstance(st, ast.NamedExpr) and isinstance(st.target, ast.Name):
                    if self._origin(f, st.value, names):
                        new.append(st.target.id)
                elif isinstance(st, (ast.For, ast.comprehension)):
                    it = st.iter
                    if isinstance(it, ast.Call) and isinstance(it.func, ast.Attribute) and isinstance(it.func.value, ast.Name) \
                            and it.func.value.id in names:
                        new += [n.id for n in ast.walk(st.target) if isinstance(n, ast.Name)]
                for n in new:
                    if n not in names:
                        names.add(n)
                        again = grew = True
        return grew

    def _callees(self, c: ast.Call):
        if isinstance(c.func, ast.Attribute):
            return [(g, g.cls is not None and "staticmethod" not in g.decorators) for g in self.by_name.get(c.func.attr, [])]
        if isinstance(c.func, ast.Name):
            return [(g, False) for g in self.by_name.get(c.func.id, []) if g.cls is None]
        return []

    def _tag(self) -> None:
        for f in self.funcs:
            a = f.node.args
            for arg in a.posonlyargs + a.args + a.kwonlyargs:
                if arg.annotation is not None and any(
                        isinstance(n, (ast.Name, ast.Attribute)) and self._is_cls(f.module, n) for n in ast.walk(arg.annotation)):
                    self.names[id(f)].add(arg.arg)
        changed = True
        rounds = 0
        while changed:
            rounds += 1
            if rounds > 50:
                raise AnalysisError(f"{self.mod.name}: propagation of {self.obj_cls.name} objects does not settle")
            changed = False
            for f in self.funcs:
                if self._local_closure(f):
                    changed = True
                names = self.names[id(f)]
                if not names:
                    continue
                for c in walk_no_nested(f.node):
                    if not isinstance(c, ast.Call):
                        continue
                    for g, skip in self._callees(c):
                        for p, a in bind_args(c, g, skip_self=skip).items():
                            if isinstance(a, ast.Name) and a.id in names and p in g.params and p not in self.names[id(g)]:
                                self.names[id(g)].add(p)
                                changed = True
                    # a function of the module handed to a higher-order call together with keyword arguments
                    # (`blocks.map_blocks(self._worker, ctf=ctf)`): the keywords reach the parameters of that name
                    for a in c.args:
                        ref = a.attr if isinstance(a, ast.Attribute) else (a.id if isinstance(a, ast.Name) else None)
                        for g in self.by_name.get(ref, []) if ref else []:
                            for k in c.keywords:
                                if k.arg in g.params and isinstance(k.value, ast.Name) and k.value.id in names and \
                                        k.arg not in self.names[id(g)]:
                                    self.names[id(g)].add(k.arg)
                                    changed = True

    def _matched_components(self) -> set[str]:
        out = set()
        for f in self.funcs:
            names = self.names[id(f)]
            for c in walk_no_nested(f.node):
                if isinstance(c, ast.Call) and isinstance(c.func, ast.Attribute) and c.func.attr == "match" and \
                        isinstance(c.func.value, ast.Attribute) and isinstance(c.func.value.value, ast.Name) and \
                        c.func.value.value.id in names:
                    out.add(_bare(c.func.value.attr))
        return out

    # ------------------------------------------------------------------ the class of parameter objects
    def is_component_attr(self, attr: str) -> bool:
        """the attribute is a matched component, or its setter only forwards into one (`self.grid.extent = extent`)"""
        if _bare(attr) in self.components:
            return True
        s = self.obj_cls.find_method(attr, "setter")
        if s is None or not s.positional_params:
            return False
        me = s.positional_params[0]
        stores = [t for st in walk_no_nested(s.node) if isinstance(st, (ast.Assign, ast.AugAssign, ast.AnnAssign))
                  for t in (st.targets if isinstance(st, ast.Assign) else [st.target])]
        if not stores:
            return False
        for t in stores:
            if not (isinstance(t, ast.Attribute) and isinstance(t.value, ast.Attribute) and isinstance(t.value.value, ast.Name)
                    and t.value.value.id == me and _bare(t.value.attr) in self.components):
                return False
        return True

    def ctor_default(self, attr: str):
        """(default expression, constructor) of the constructor parameter the attribute carries; None when the attribute
        is not a constructor parameter with a default"""
        for init in self.repo.init_chain(self.obj_cls):
            d = init.defaults()
            if _bare(attr) in d:
                return d[_bare(attr)], init
        return None

    def _mutates(self, m: FuncInfo, depth: int = 0) -> bool:
        if not m.positional_params or "staticmethod" in m.decorators:
            return False
        me = m.positional_params[0]
        for st in walk_no_nested(m.node):
            targets = []
            if isinstance(st, ast.Assign):
                targets = st.targets
            elif isinstance(st, (ast.AugAssign, ast.AnnAssign)):
                targets = [st.target]
            for t in targets:
                for e in ([t] if not isinstance(t, (ast.Tuple, ast.List)) else t.elts):
                    base = e
                    while isinstance(base, (ast.Attribute, ast.Subscript)):
                        base = base.value
                    if isinstance(base, ast.Name) and base.id == me and e is not base:
                        return True
            if isinstance(st, ast.Call):
                if isinstance(st.func, ast.Name) and st.func.id in ("setattr", "delattr") and st.args and \
                        isinstance(st.args[0], ast.Name) and st.args[0].id == me:
                    return True
                if depth < 2 and isinstance(st.func, ast.Attribute) and isinstance(st.func.value, ast.Name) and \
                        st.func.value.id == me and m.cls is not None:
                    g = self.obj_cls.find_method(st.func.attr)
                    if g is not None and g is not m and not g.is_property and self._mutates(g, depth + 1):
                        return True
        return False

    # ------------------------------------------------------------------ sites
    def sites(self) -> list[Site]:
        out: list[Site] = []
        for f in self.funcs:
            names = self.names[id(f)]
            if not names:
                continue
            for st in walk_no_nested(f.node):
                targets: list[tuple[ast.expr, Optional[ast.expr]]] = []
                if isinstance(st, ast.Assign):
                    for t in st.targets:
                        if isinstance(t, (ast.Tuple, ast.List)):
                            targets += [(e, None) for e in t.elts]
                        else:
                            targets.append((t, st.value))
                elif isinstance(st, ast.AugAssign):
                    load = ast.fix_missing_locations(ast.parse(ast.unparse(st.target), mode="eval").body)
                    targets.append((st.target, ast.BinOp(left=load, op=st.op, right=st.value)))
                elif isinstance(st, ast.AnnAssign) and st.value is not None:
                    targets.append((st.target, st.value))
                elif isinstance(st, ast.Delete):
                    targets += [(t, None) for t in st.targets]
                for t, v in targets:
                    chain = []
                    base = t
                    while isinstance(base, (ast.Attribute, ast.Subscript, ast.Starred)):
                        if isinstance(base, ast.Attribute):
                            chain.append(base.attr)
                        elif isinstance(base, ast.Subscript):
                            chain.append("[]")
                        base = base.value
                    chain.reverse()
                    if isinstance(base, ast.Name) and base.id in names and chain:
                        if chain[0] == "[]":
                            raise AnalysisError(f"{f.qualname}: `{norm_text(t)}` stores into an item of a {self.obj_cls.name}")
                        out.append(Site(f, self._stmt_of(f, st), base.id, chain[0], chain[1:], v if len(chain) == 1 else None,
                                        "store", norm_text(st)[:70]))
                if isinstance(st, ast.Call):
                    if isinstance(st.func, ast.Name) and st.func.id == "setattr" and st.args and \
                            isinstance(st.args[0], ast.Name) and st.args[0].id in names:
                        if not (len(st.args) == 3 and isinstance(st.args[1], ast.Constant) and isinstance(st.args[1].value, str)):
                            raise AnalysisError(f"{f.qualname}: `{norm_text(st)[:60]}` sets an attribute whose name is not a literal")
                        out.append(Site(f, self._stmt_of(f, st), st.args[0].id, st.args[1].value, [], st.args[2], "store",
                                        norm_text(st)[:70]))
                    elif isinstance(st.func, ast.Attribute) and isinstance(st.func.value, ast.Name) and st.func.value.id in names:
                        m = self.obj_cls.find_method(st.func.attr)
                        if m is not None and not m.is_property and self._mutates(m):
                            out.append(Site(f, self._stmt_of(f, st), st.func.value.id, st.func.attr, [], None, "call",
                                            norm_text(st)[:70]))
        return out

    def _stmt_of(self, f: FuncInfo, node: ast.AST) -> ast.stmt:
        if isinstance(node, ast.stmt):
            return node
        for st in walk_no_nested(f.node):
            if isinstance(st, ast.stmt) and not isinstance(st, (ast.If, ast.For, ast.While, ast.With, ast.Try, ast.FunctionDef)) \
                    and any(x is node for x in ast.walk(st)):
                return st
        raise AnalysisError(f"{f.qualname}: no statement holds `{norm_text(node)[:40]}`")

    # ------------------------------------------------------------------ path conditions
    @staticmethod
    def _reach(cfg: CFG, src: int, dst: int, cut: frozenset = frozenset()) -> bool:
        seen = {src}
        stack = [src]
        while stack:
            n = stack.pop()
            for s in cfg.nodes[n].succ:
                if (n, s) in cut:
                    continue
                if s == dst:
                    return True
                if s not in seen:
                    seen.add(s)
                    stack.append(s)
        return False

    def path_tests(self, cfg: CFG, idx: int) -> list[tuple[int, ast.expr, bool]]:
        """(test node, test expression, truth) for every `if` that every path from the entry to `idx` leaves through
        the edge of that truth value"""
        out = []
        for t in cfg.nodes:
            if t.kind != "test" or not isinstance(t.ast, ast.If) or t.idx == idx:
                continue
            for label in ("T", "F"):
                mine = frozenset((t.idx, s) for s in t.succ if cfg.elabel.get((t.idx, s)) == label)
                if mine and self._reach(cfg, cfg.entry, idx) and not self._reach(cfg, cfg.entry, idx, mine):
                    out.append((t.idx, t.ast.test, label == "T"))
        return out

    def resolve(self, df: DataFlow, at: int, e: ast.AST, depth: int = 0):
        """follow single definitions of plain names: -> (expression, node where it is evaluated)"""
        while isinstance(e, ast.Name) and depth < 8:
            d = df.single_def(at, e.id)
            if d is None or d.kind != "assign" or d.value is None:
                break
            st = df.cfg.nodes[d.node].ast
            if not (isinstance(st, (ast.Assign, ast.AnnAssign)) and isinstance(
                    st.targets[0] if isinstance(st, ast.Assign) else st.target, ast.Name)):
                break
            e, at = d.value, d.node
            depth += 1
        return e, at


# --------------------------------------------------------------------------------------------------------------------
YES, NO, UNREADABLE = "yes", "no", "unreadable"


class Judge:
    """decides one site"""

    def __init__(self, eng: Engine, site: Site, all_sites: list[Site]):
        self.eng, self.site = eng, site
        self.f = site.f
        self.df = eng.df(site.f)
        self.cfg = self.df.cfg
        self.idx = self.cfg.node_of(site.stmt).idx
        self.names = eng.names[id(site.f)]
        self.others = [s for s in all_sites if s.f is site.f and s is not site]
        self.notes: list[str] = []

    # ---- reading terms
    def _obj_root(self, name: str, at: int) -> str:
        e, _ = self.eng.resolve(self.df, at, ast.Name(id=name, ctx=ast.Load()))
        return e.id if isinstance(e, ast.Name) else name

    def _param_read(self, e: ast.AST, at: int):
        """'same' when e reads the site's attribute of the site's object (possibly through a temporary, with no write
        in between), 'other' when it reads that attribute of another parameter object, None otherwise"""
        e2, at2 = self.eng.resolve(self.df, at, e)
        if isinstance(e2, ast.Call) and isinstance(e2.func, ast.Name) and e2.func.id == "getattr" and len(e2.args) >= 2 and \
                isinstance(e2.args[1], ast.Constant) and isinstance(e2.args[0], ast.Name):
            e2 = ast.Attribute(value=e2.args[0], attr=e2.args[1].value, ctx=ast.Load())
        if isinstance(e2, ast.Attribute) and isinstance(e2.value, ast.Name) and e2.value.id in self.names and \
                _bare(e2.attr) == _bare(self.site.attr):
            if self._obj_root(e2.value.id, at2) != self._obj_root(self.site.obj, self.idx):
                return "other"
            self._require_stable(at2)
            return "same"
        return None

    def _require_stable(self, read_at: int) -> None:
        """no write of the attribute and no rebinding of the object between the read and the site"""
        if read_at == self.idx:
            return
        for s in self.others:
            if _bare(s.attr) != _bare(self.site.attr) and s.kind != "call":
                continue
            n = self.cfg.node_of(s.stmt).idx
            if n != read_at and self.eng._reach(self.cfg, read_at, n) and self.eng._reach(self.cfg, n, self.idx):
                raise AnalysisError(f"{self.f.qualname}: `{s.what}` lies between a test of {self.site.attr} and `{self.site.what}`")
        for d in self.df.defs:
            if d.var == self.site.obj and d.strong and d.kind != "param" and d.node not in (read_at, self.idx):
                if self.eng._reach(self.cfg, read_at, d.node) and self.eng._reach(self.cfg, d.node, self.idx):
                    raise AnalysisError(f"{self.f.qualname}: the object is rebound between a test of {self.site.attr} and "
                                        f"`{self.site.what}`")

    def own_value(self, e: ast.AST, at: int) -> Optional[str]:
        """text of the consumer's own attribute of the same name when `e` is that, else None"""
        e2, _ = self.eng.resolve(self.df, at, e)
        while isinstance(e2, ast.Call) and last_attr(e2) in ("float", "asarray", "array", "float32", "float64") and \
                len(e2.args) == 1 and not e2.keywords:
            e2, _ = self.eng.resolve(self.df, at, e2.args[0])
        if not (isinstance(e2, ast.Attribute) and isinstance(e2.value, ast.Name) and _bare(e2.attr) == _bare(self.site.attr)):
            return None
        r = e2.value.id
        if r in self.names:
            return None
        if self.f.cls is not None:
            if not self.f.positional_params or r != self.f.positional_params[0]:
                return None
            owner = [self.f.cls]
        else:
            if r not in self.f.params:
                return None
            owner = [c for c in self.eng.mod.classes.values()
                     if self.eng.consumer_base is None or self.eng.consumer_base in c.mro()]
        if not any(_bare(e2.attr) in {_bare(x) for x in self.eng.repo.getattr_resolvable(c)} for c in owner):
            raise AnalysisError(f"{self.f.qualname}: `{norm_text(e2)}` is not an attribute of the consumer class")
        return f"<consumer>.{_bare(e2.attr)}"

    # ---- reading tests
    def supports(self, test: ast.expr, truth: bool, at: int, depth: int = 0) -> str:
        """does `test` having the value `truth` establish that the parameter is unset or lies at/above the consumer's
        value?"""
        if isinstance(test, ast.UnaryOp) and isinstance(test.op, ast.Not):
            return self.supports(test.operand, not truth, at, depth)
        if isinstance(test, ast.BoolOp):
            vals = [self.supports(v, truth, at, depth) for v in test.values]
            conj = isinstance(test.op, ast.And) == truth  # all members have the value `truth`
            if conj:
                return YES if YES in vals else (UNREADABLE if UNREADABLE in vals else NO)
            return YES if all(v == YES for v in vals) else (UNREADABLE if UNREADABLE in vals else NO)
        if isinstance(test, ast.Name) and depth < 4:
            e, at2 = self.eng.resolve(self.df, at, test)
            if e is not test and isinstance(e, (ast.Compare, ast.BoolOp, ast.UnaryOp, ast.Call)):
                return self.supports(e, truth, at2, depth + 1)
        if isinstance(test, ast.Compare) and len(test.ops) == 1:
            a, b, op = test.left, test.comparators[0], test.ops[0]
            ra, rb = self._param_read(a, at), self._param_read(b, at)
            if "other" in (ra, rb):
                return UNREADABLE
            if ra != "same" and rb != "same":
                return self._mentions(test, at)
            if ra == "same" and rb == "same":
                return NO
            other = b if ra == "same" else a
            other_r, _ = self.eng.resolve(self.df, at, other)
            sentinel = is_inf(other_r) or is_none(other_r)
            if isinstance(op, (ast.Eq, ast.Is)):
                if sentinel or self.own_value(other, at) is not None:
                    return YES if truth else NO
                return NO
            if isinstance(op, (ast.NotEq, ast.IsNot)):
                if sentinel or self.own_value(other, at) is not None:
                    return NO if truth else YES
                return NO
            if isinstance(op, (ast.Lt, ast.LtE, ast.Gt, ast.GtE)):
                if self.own_value(other, at) is None:
                    return NO if (isinstance(other_r, ast.Constant) or is_inf(other_r)) else UNREADABLE
                # orient as  parameter OP consumer
                if ra != "same":
                    op = {ast.Lt: ast.Gt, ast.LtE: ast.GtE, ast.Gt: ast.Lt, ast.GtE: ast.LtE}[type(op)]()
                above = isinstance(op, (ast.Gt, ast.GtE)) if truth else isinstance(op, (ast.Lt, ast.LtE))
                return YES if above else NO
            return UNREADABLE
        if isinstance(test, ast.Call) and len(test.args) == 1 and not test.keywords and last_attr(test) in (
                "isinf", "isposinf", "isfinite"):
            r = self._param_read(test.args[0], at)
            if r == "other":
                return UNREADABLE
            if r == "same":
                return YES if truth == (last_attr(test) != "isfinite") else NO
        return self._mentions(test, at)

    def _mentions(self, test: ast.AST, at: int) -> str:
        """a test the engine has no reading for: harmless when it does not look at the parameter at all"""
        for n in ast.walk(test):
            if isinstance(n, (ast.Attribute, ast.Name)) and self._param_read(n, at) is not None:
                return UNREADABLE
            if isinstance(n, ast.Call) and not (isinstance(n.func, ast.Name) and n.func.id == "isinstance") and any(
                    isinstance(a, ast.Name) and a.id in self.names for a in list(n.args) + [k.value for k in n.keywords]):
                return UNREADABLE  # a predicate over the whole object
        return NO

    # ---- request guards
    def request_guard(self, tests) -> Optional[str]:
        """a dominating test `parameter == constant` (constant other than the parameter's default) that no call in the
        package satisfies: -> description; raises when some call might"""
        defaults = self.f.defaults()
        for _, test, truth in tests:
            for atom, t in _atoms(test, truth):
                if not (isinstance(atom, ast.Compare) and len(atom.ops) == 1 and isinstance(atom.ops[0], ast.Eq) and t):
                    continue
                a, b = atom.left, atom.comparators[0]
                if isinstance(a, ast.Constant):
                    a, b = b, a
                if not (isinstance(a, ast.Name) and isinstance(b, ast.Constant) and a.id in self.f.params and a.id not in self.names):
                    continue
                p = a.id
                if any(d.var == p and d.kind != "param" for d in self.df.defs):
                    continue
                if p not in defaults or not isinstance(defaults[p], ast.Constant) or defaults[p].value == b.value:
                    continue
                askers = []
                for g in self.eng.repo.all_functions():
                    for c in ast.walk(g.node):
                        if not (isinstance(c, ast.Call) and last_attr(c) == self.f.name):
                            continue
                        if isinstance(c.func, ast.Name) and self.f.cls is not None:
                            continue
                        bound = bind_args(c, self.f, skip_self=self.f.cls is not None and isinstance(c.func, ast.Attribute))
                        spread = any(k.arg is None for k in c.keywords) or any(isinstance(x, ast.Starred) for x in c.args)
                        if p in bound:
                            if not isinstance(bound[p], ast.Constant) or bound[p].value == b.value:
                                askers.append(g.qualname)
                        elif spread:
                            askers.append(g.qualname)
                if askers:
                    raise AnalysisError(f"{self.f.qualname}: `{self.site.what}` runs when a caller asks for {p} == {b.value!r}; "
                                        f"{', '.join(sorted(set(askers))[:3])} may ask for it: cannot decide whether the "
                                        "reduction path does")
                return f"only when a caller passes {p}={b.value!r} (default {defaults[p].value!r}); no call in the package does"
        return None

    # ---- verdict
    def value_verdict(self, v: ast.expr, tests, extra=()) -> tuple[str, str]:
        """(YES | NO | UNREADABLE, why)"""
        at = self.idx
        v2, _ = self.eng.resolve(self.df, at, v)
        if self._param_read(v2, at) == "same":
            return YES, "keeps the value"
        if isinstance(v2, ast.IfExp):
            a = self.value_verdict(v2.body, tests, extra + ((v2.test, True),))
            b = self.value_verdict(v2.orelse, tests, extra + ((v2.test, False),))
            for r in (a, b):
                if r[0] != YES:
                    return r
            return YES, f"{a[1]} / {b[1]}"
        if isinstance(v2, ast.Call) and last_attr(v2) in ("min", "minimum", "fmin", "max", "maximum", "fmax") and \
                len(v2.args) == 2 and not v2.keywords:
            reads = [self._param_read(x, at) for x in v2.args]
            owns = [self.own_value(x, at) for x in v2.args]
            if sorted(map(str, reads)) == ["None", "same"] and any(o is not None for o in owns):
                if last_attr(v2) in ("min", "minimum", "fmin"):
                    return YES, "clamped from above to the consumer's value"
                return NO, (f"`{norm_text(v2)}` raises every smaller value chosen by the caller to the consumer's value")
        own = self.own_value(v2, at)
        if own is None:
            return NO, (f"the value stored, `{norm_text(v2)[:60]}`, is not the consumer's own {_bare(self.site.attr)}")
        res = []
        for node, test, truth in list(tests) + [(at, t, tr) for t, tr in extra]:
            res.append((self.supports(test, truth, node), test, truth))
        if any(r == YES for r, _, _ in res):
            t = next((t, tr) for r, t, tr in res if r == YES)
            return YES, f"only where `{norm_text(t[0])}` is {t[1]}"
        if any(r == UNREADABLE for r, _, _ in res):
            t = next(t for r, t, _ in res if r == UNREADABLE)
            return UNREADABLE, f"cannot read the test `{norm_text(t)[:60]}` on the path to `{self.site.what}`"
        seen = [f"`{norm_text(t)}` is {tr}" for _, t, tr in res if self._touches(t)]
        return NO, ("under " + " and ".join(seen) if seen else "unconditionally")

    def _touches(self, test: ast.AST) -> bool:
        return any(isinstance(n, ast.Name) and n.id in self.names for n in ast.walk(test))


def _atoms(test: ast.expr, truth: bool):
    if isinstance(test, ast.UnaryOp) and isinstance(test.op, ast.Not):
        return _atoms(test.operand, not truth)
    if isinstance(test, ast.BoolOp):
        if isinstance(test.op, ast.And) == truth:
            return [a for v in test.values for a in _atoms(v, truth)]
        return []
    return [(test, truth)]


# --------------------------------------------------------------------------------------------------------------------
def check(ctx, rule: str, eng: Engine, role: str, consumer: str) -> int:
    """-> number of judged sites.  `role` names the parameter object in messages ("the user-supplied CTF"),
    `consumer` the consumer ("the S-matrix")."""
    sites = eng.sites()
    n = 0
    for s in sites:
        f = s.f
        cons = f"{f.qualname}:{_bare(s.attr)} of {role}" if s.kind == "store" else \
            f"{f.qualname}:{role} written by its method {s.attr}"
        if eng.is_component_attr(s.attr) and (s.kind == "store"):
            ctx.info(rule, cons, f.loc(s.stmt), f"`{s.what}`: {s.attr} belongs to a component ({', '.join(sorted(eng.components))}) "
                     f"that is matched to {consumer}")
            continue
        j = Judge(eng, s, sites)
        tests = eng.path_tests(j.cfg, j.idx)
        n += 1
        g = j.request_guard(tests)
        if g is not None:
            ctx.ok(rule, cons, f.loc(s.stmt), f"`{s.what}` runs {g}")
            continue
        dflt = eng.ctor_default(s.attr)
        dtxt = "no constructor default" if dflt is None else f"constructor default {norm_text(dflt[0])} ({dflt[1].short})"
        if s.kind == "call" or s.value is None or s.deeper:
            verdict, why = NO, f"`{s.what}` writes into {role}"
            # a write that is not a plain store of a value has no reading as "fill in the unset value"
        else:
            verdict, why = j.value_verdict(s.value, tests)
        if verdict == UNREADABLE:
            raise AnalysisError(f"{f.qualname}: {why}")
        ctx.check(verdict == YES, rule, cons, f.loc(s.stmt),
                  f"`{s.what}` {why} ({dtxt})",
                  f"`{s.what}` overwrites {_bare(s.attr) if s.kind == 'store' else 'parameters'} of {role} "
                  f"{why if verdict == NO else ''} ({dtxt}): a value the "
                  f"caller chose — in particular one BELOW {consumer}'s — is silently replaced, the result no longer "
                  f"belongs to the parameters that were asked for",
                  key_detail=_bare(s.attr))
    return n


def check_rebinds(ctx, rule: str, eng: Engine, role: str) -> int:
    """A parameter that holds the caller's object is rebound to a freshly constructed one only where the caller gave
    none (`is None`) or gave a mapping that is spread into the constructor."""
    n = 0
    for f in eng.funcs:
        names = eng.names[id(f)]
        for p in [x for x in f.params if x in names]:
            df = eng.df(f)
            for d in df.defs:
                if d.var != p or not d.strong or d.kind == "param":
                    continue
                st = df.cfg.nodes[d.node].ast
                cons = f"{f.qualname}:{role} replaced only when absent"
                v = d.value
                if d.kind != "assign" or v is None or not isinstance(st, (ast.Assign, ast.AnnAssign)):
                    raise AnalysisError(f"{f.qualname}: cannot read the rebinding `{norm_text(st)[:60]}` of {role}")
                if isinstance(v, ast.Name) and v.id == p:
                    continue
                if isinstance(v, ast.Call) and (
                        (isinstance(v.func, ast.Attribute) and v.func.attr in ("copy", "__copy__", "__deepcopy__")
                         and isinstance(v.func.value, ast.Name) and v.func.value.id == p) or
                        (last_attr(v) in _COPY_CALLS and len(v.args) >= 1 and isinstance(v.args[0], ast.Name) and v.args[0].id == p)):
                    n += 1
                    ctx.ok(rule, cons, f.loc(st), f"`{norm_text(st)[:60]}` keeps every value (copy)")
                    continue
                if not (isinstance(v, ast.Call) and eng._is_cls(f.module, v.func)):
                    raise AnalysisError(f"{f.qualname}: cannot read the rebinding `{norm_text(st)[:60]}` of {role}")
                tests = eng.path_tests(df.cfg, d.node)
                absent = False
                spread = any(k.arg is None and isinstance(k.value, ast.Name) and k.value.id == p for k in v.keywords)
                for _, test, truth in tests:
                    for atom, t in _atoms(test, truth):
                        if isinstance(atom, ast.Compare) and len(atom.ops) == 1 and isinstance(atom.left, ast.Name) and \
                                atom.left.id == p and is_none(atom.comparators[0]):
                            if (isinstance(atom.ops[0], (ast.Is, ast.Eq)) and t) or (isinstance(atom.ops[0], (ast.IsNot, ast.NotEq)) and not t):
                                absent = True
                        if spread and t and isinstance(atom, ast.Call) and isinstance(atom.func, ast.Name) and \
                                atom.func.id == "isinstance" and len(atom.args) == 2 and isinstance(atom.args[0], ast.Name) and \
                                atom.args[0].id == p and not eng._is_cls(f.module, atom.args[1]):
                            absent = True
                # a rebinding between the test and the construction would invalidate the test
                n += 1
                ctx.check(absent, rule, cons, f.loc(st),
                          f"`{norm_text(st)[:60]}` only where the caller gave no object (or a mapping spread into the constructor)",
                          f"`{norm_text(st)[:70]}` replaces {role} by a freshly constructed one on a path where the caller's "
                          f"object is not known to be absent: every value the caller chose is dropped",
                          key_detail="rebind")
    return n


def unjudged_stores(eng: Engine, judged: list[Site], tracked: set[str]) -> None:
    """Fail closed: a store into an attribute that is a constructor parameter of the class, on an object the engine did
    not recognise (nested function, untyped local), cannot be decided."""
    seen = {id(s.stmt) for s in judged}
    for f in eng.funcs:
        me = f.positional_params[0] if (f.cls is not None and f.positional_params) else None
        for st in ast.walk(f.node):
            if not isinstance(st, (ast.Assign, ast.AugAssign, ast.AnnAssign)) or id(st) in seen:
                continue
            for t in (st.targets if isinstance(st, ast.Assign) else [st.target]):
                for e in ([t] if not isinstance(t, (ast.Tuple, ast.List)) else t.elts):
                    if isinstance(e, ast.Attribute) and e.attr in tracked and isinstance(e.value, ast.Name) and \
                            e.value.id != me and e.value.id not in eng.names[id(f)]:
                        raise AnalysisError(f"{f.qualname}: `{norm_text(st)[:60]}` stores a {eng.obj_cls.name} parameter on an "
                                            "object of unknown kind")
