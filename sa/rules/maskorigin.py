"""R-MASKORIGIN engine — at which pixel index does the zero frequency of a detector mask sit?

A mask (or label image) that is laid over a diffraction pattern is a function of the frequency coordinate of every
pattern axis.  Along an axis with n points the coordinate is either

  fft    the cyclic FFT arrangement `fftfreq(n, d)` (frequencies -(n//2) .. (n-1)//2, zero frequency at index 0), rolled
         cyclically by `roll` places, so that the zero frequency sits at index `roll mod n`; or
  ramp   an explicit monotone vector `(arange(n) - c) * step` (zero frequency at index c), also rolled by `roll`.

`fftshift` rolls by n//2, `ifftshift` by -(n//2) (they differ for odd n), `roll(x, s, axis)` by s.  A ramp holds the
frequencies of the FFT arrangement, in the order `fftshift` produces, iff c == n//2 exactly; every other origin —
(n-1)//2, n/2, (n+1)//2 — is a different set of frequencies for one parity of n.

This module is a small abstract interpreter (ast only, nothing of abTEM or numpy is executed) over the body of a mask
builder for one value of its boolean flag.  Values are scalars (a linear form with FLOORDIV / ROUND atoms over the
grid sizes, sa/rules/roundform.py, plus a rational function, sa/rules/ratfun.py), tuples, lists, and arrays whose axes
carry the coordinate system above.  Element-wise operations require the operands to be in the same coordinate system
along every axis they share (a conflict is recorded); package functions that are called are interpreted recursively.
Whatever the interpreter cannot read becomes `Unknown`, and an `Unknown` that reaches a judged position is an
AnalysisError — never a verdict.

Forms over the grid sizes are compared by exact evaluation (Fractions) for every size in a range that covers several
periods of the FLOORDIV / ROUND atoms involved: a form that is linear on every residue class is determined by two
points of each class, so agreement on the range is agreement for all sizes >= 2, and a disagreement comes with the
concrete size that shows it.
"""
from __future__ import annotations

import ast
from dataclasses import dataclass, replace
from fractions import Fraction
from math import gcd
from typing import Optional

from ..model import AnalysisError, FuncInfo, call_name, norm_text
from ..terms import Poly
from .ratfun import Rat
from .roundform import ONE, Lin, Roles, is_integer, mk_fdiv, mk_round
from .roundform import value as lin_value

SIZE = "gpts"  # role of the grid-size leaves
ROLES = Roles({SIZE: True})
MAX_PERIOD = 12


# ------------------------------------------------------------------------------------------------ values
class Val:
    pass


@dataclass(frozen=True)
class Sc(Val):
    """A scalar (or anything without a pixel layout); lin / rat are None where the value is outside the language."""
    lin: Optional[Lin] = None
    rat: Optional[Rat] = None
    deps: frozenset = frozenset()


@dataclass(frozen=True)
class Bool(Val):
    value: bool


@dataclass(frozen=True)
class Unknown(Val):
    why: str


@dataclass(frozen=True)
class Seq(Val):
    items: tuple


@dataclass(frozen=True)
class Bag(Val):
    """A list built by append / a collection of arrays that all index the same pixels."""
    items: tuple


@dataclass(frozen=True)
class Ax:
    k: int  # pattern axis whose frequency coordinate this is
    kind: str  # "fft" | "ramp"
    c: Lin  # ramp: value at index i (before rolling) is (i - c) * step
    roll: Lin
    step: Optional[Rat]
    events: tuple = ()


@dataclass(frozen=True)
class Arr(Val):
    axes: tuple  # per array axis: Ax or None (constant along that axis / no frequency coordinate)
    coord: bool = False  # the array IS the coordinate (one axis, affine in the index)
    masked: bool = False  # a boolean-mask selection x[mask] of an array with these axes


def const(c) -> Sc:
    return Sc(Lin.const(Fraction(c)), Rat(Poly.const(Fraction(c))))


def symbol(name: str) -> Sc:
    return Sc(Lin.leaf(name, 0), Rat(Poly.atom(name)), frozenset({name}))


def pair(name: str) -> Seq:
    return Seq(tuple(Sc(Lin.leaf(name, k), Rat(Poly.atom(f"{name}[{k}]")), frozenset({name})) for k in (0, 1)))


def _size_leaf(x: Optional[Lin]) -> Optional[int]:
    """k if the form is exactly the size of pattern axis k."""
    if x is None or len(x.terms) != 1:
        return None
    (a, c), = x.terms.items()
    if a != ONE and a[0] == "leaf" and a[1] == SIZE and c == 1:
        return a[2]
    return None


def _only_sizes(x: Lin) -> bool:
    def walk(y: Lin) -> bool:
        for a in y.terms:
            if a == ONE:
                continue
            if a[0] == "leaf":
                if a[1] != SIZE:
                    return False
            elif not walk(a[1]):
                return False
        return True

    return walk(x)


def _period(x: Lin) -> int:
    p = 1

    def walk(y: Lin):
        nonlocal p
        for a, c in y.terms.items():
            p = p * c.denominator // gcd(p, c.denominator)
            if a != ONE and a[0] == "fdiv":
                p = p * a[2] // gcd(p, a[2])
                walk(a[1])
            elif a != ONE and a[0] == "round":
                walk(a[1])

    walk(x)
    return 2 * p


def samples(*forms: Lin):
    """(n0, n1) pairs: every size from 2 over three periods of the forms, the other axis equal, of the other parity and
    unrelated."""
    p = 2
    for f in forms:
        q = _period(f)
        p = p * q // gcd(p, q)
    if p > 2 * MAX_PERIOD:
        raise AnalysisError(f"index form with period {p} in the grid size is outside the language")
    out = []
    for n in range(2, 2 + 3 * p + 1):
        for m in (n, n + 1, 2 * n + 3):
            out.append({(SIZE, 0): n, (SIZE, 1): m})
            out.append({(SIZE, 0): m, (SIZE, 1): n})
    return out


def _val(x: Lin, env) -> Fraction:
    return lin_value(x, env)


def ax_forms(a: Ax):
    return (a.c, a.roll)


def zero_index(a: Ax, env) -> Optional[int]:
    """Index of the zero frequency if the axis holds the FFT frequencies in a cyclic arrangement, else None."""
    n = env[(SIZE, a.k)]
    r = _val(a.roll, env)
    if r.denominator != 1:
        return None
    if a.kind == "ramp":
        c = _val(a.c, env)
        if c != n // 2:
            return None
        r += c
    return int(r) % n


def _sig(a: Ax, env):
    z = zero_index(a, env)
    if z is not None:
        return ("cyc", z)
    n = env[(SIZE, a.k)]
    r = _val(a.roll, env)
    return (a.kind, _val(a.c, env), r % n if r.denominator == 1 else r)


def same_ax(a: Optional[Ax], b: Optional[Ax]) -> bool:
    if a is None or b is None:
        return a is b
    if a.k != b.k:
        return False
    if (a.step is None) != (b.step is None) or (a.step is not None and a.step != b.step):
        return False
    return all(_sig(a, e) == _sig(b, e) for e in samples(*ax_forms(a), *ax_forms(b)))


def deep(v: Val):
    yield v
    if isinstance(v, (Seq, Bag)):
        for x in v.items:
            yield from deep(x)


def _deps(*vals: Val) -> frozenset:
    out = frozenset()
    for v in vals:
        for x in deep(v):
            if isinstance(x, Sc):
                out |= x.deps
    return out


# ------------------------------------------------------------------------------------------------ tables
ELEMENTWISE = {"sqrt", "abs", "absolute", "square", "exp", "log", "floor", "ceil", "clip", "round", "rint", "around",
               "asarray", "array", "asanyarray", "ascontiguousarray", "asnumpy", "copy", "conj", "conjugate", "real",
               "imag", "where", "arctan2", "maximum", "minimum", "nan_to_num", "isnan", "isfinite", "logical_and",
               "logical_or", "logical_not", "logical_xor", "sign", "power", "hypot", "cos", "sin", "tan", "mod",
               "remainder", "floor_divide", "add", "subtract", "multiply", "divide", "true_divide", "negative",
               "bitwise_and", "bitwise_or", "invert", "less", "greater", "less_equal", "greater_equal", "equal",
               "not_equal", "float32", "float64", "int32", "int64", "trunc", "fmod", "angle", "abs2", "astype"}
ELEMENTWISE_METHODS = {"astype", "copy", "get", "round", "clip", "conj", "conjugate", "view"}
REDUCTIONS = {"sum", "any", "all", "max", "min", "mean", "count_nonzero", "prod", "amax", "amin", "nansum", "std",
              "argmax", "argmin"}
VALUE_PRESERVING = {"array", "asarray", "asanyarray", "tuple", "list", "asnumpy", "ascontiguousarray", "copy"}
CONSTANT_ARRAYS = {"ones", "zeros", "empty", "full"}
LIKE_ARRAYS = {"ones_like", "zeros_like", "empty_like", "full_like"}
SAFE_ON_COORD = {"abs", "absolute", "square", "sqrt", "arctan2", "hypot", "power", "abs2", "less", "greater",
                 "less_equal", "greater_equal", "isnan", "isfinite"}  # the result is a function of the frequency itself
UNMODELLED_SOURCES = {"linspace", "indices", "mgrid", "ogrid", "fromfunction", "geomspace", "logspace", "rfftfreq",
                      "tile", "repeat", "eye", "identity", "frombuffer", "fromiter", "loadtxt", "load"}
INDEX_LISTS = {"label_to_index"}  # package contract: index arrays into the (flattened) image handed in


class _Lit(ast.expr):
    """An argument that is already evaluated (an element of an unpacked sequence)."""
    _fields = ()

    def __init__(self, val):
        super().__init__()
        self.val = val


def _last(name: Optional[str]) -> str:
    return (name or "").split(".")[-1]


# ------------------------------------------------------------------------------------------------ interpreter
class Frame:
    def __init__(self, f: FuncInfo, depth: int):
        self.f, self.depth = f, depth
        self.returns: list[Val] = []


class Interp:
    def __init__(self, repo, flags: dict):
        self.repo = repo
        self.flags = dict(flags)
        self.conflicts: list[tuple[str, ast.AST, Ax, Ax]] = []
        self.notes: list[str] = []

    # ---- entry
    def run(self, f: FuncInfo, params: dict) -> Val:
        return self.call_function(f, dict(params), 0)

    def call_function(self, f: FuncInfo, bound: dict, depth: int) -> Val:
        fr = Frame(f, depth)
        env: dict = {}
        defaults = f.defaults()
        for p in f.params:
            if p in bound:
                env[p] = bound[p]
            elif p in defaults:
                env[p] = self.ev(defaults[p], {}, fr)
            else:
                env[p] = symbol(p) if depth == 0 else Sc(deps=frozenset({p}))
        if f.node.args.vararg or f.node.args.kwarg:
            for a in (f.node.args.vararg, f.node.args.kwarg):
                if a is not None:
                    env[a.arg] = Unknown(f"{f.qualname}: variadic parameter")
        self.block(f.body, env, fr)
        if not fr.returns:
            return Sc()
        out = fr.returns[0]
        for r in fr.returns[1:]:
            out = self.join_val(out, r)
        return out

    # ---- statements
    def block(self, stmts, env: dict, fr: Frame) -> Optional[dict]:
        for st in stmts:
            env = self.stmt(st, env, fr)
            if env is None:
                return None
        return env

    def stmt(self, st: ast.stmt, env: dict, fr: Frame) -> Optional[dict]:
        if isinstance(st, ast.Assign):
            v = self.ev(st.value, env, fr)
            for t in st.targets:
                self.bind(t, v, env, fr)
            return env
        if isinstance(st, ast.AnnAssign):
            if st.value is not None:
                self.bind(st.target, self.ev(st.value, env, fr), env, fr)
            return env
        if isinstance(st, ast.AugAssign):
            cur = self.ev(_load(st.target), env, fr)
            v = self.binop(st.op, cur, self.ev(st.value, env, fr), st, fr)
            self.bind(st.target, v, env, fr)
            return env
        if isinstance(st, ast.Expr):
            self.ev(st.value, env, fr)
            return env
        if isinstance(st, ast.Return):
            fr.returns.append(self.ev(st.value, env, fr) if st.value is not None else Sc())
            return None
        if isinstance(st, ast.Raise):
            return None
        if isinstance(st, ast.If):
            t = self.ev(st.test, env, fr)
            if isinstance(t, Bool):
                return self.block(st.body if t.value else st.orelse, env, fr)
            a = self.block(st.body, dict(env), fr)
            b = self.block(st.orelse, dict(env), fr)
            return self.join_env(a, b)
        if isinstance(st, ast.For):
            elem = self.element(st.iter, env, fr)
            for _ in range(2):
                body_env = dict(env)
                self.bind(st.target, elem, body_env, fr)
                after = self.block(st.body, body_env, fr)
                env = self.join_env(env, after)
            if st.orelse:
                env = self.block(st.orelse, env, fr)
            return env
        if isinstance(st, ast.With):
            for it in st.items:
                v = self.ev(it.context_expr, env, fr)
                if it.optional_vars is not None:
                    self.bind(it.optional_vars, v if isinstance(v, Unknown) else Sc(), env, fr)
            return self.block(st.body, env, fr)
        if isinstance(st, (ast.Pass, ast.Assert, ast.Import, ast.ImportFrom, ast.Global, ast.Nonlocal, ast.Delete,
                           ast.Break, ast.Continue)):
            return env
        if isinstance(st, (ast.FunctionDef, ast.AsyncFunctionDef, ast.ClassDef)):
            env[st.name] = Sc()
            return env
        # loops with unknown trip structure, try blocks, match: everything they assign is unreadable
        why = f"{fr.f.qualname}: assigned inside a `{type(st).__name__.lower()}` statement"
        for n in ast.walk(st):
            if isinstance(n, ast.Name) and isinstance(n.ctx, ast.Store):
                env[n.id] = Unknown(why)
            if isinstance(n, ast.Return):
                fr.returns.append(Unknown(why))
        return env

    def bind(self, t: ast.AST, v: Val, env: dict, fr: Frame) -> None:
        if isinstance(t, ast.Name):
            env[t.id] = v
        elif isinstance(t, (ast.Tuple, ast.List)):
            if isinstance(v, Seq) and len(v.items) == len(t.elts) and not any(isinstance(e, ast.Starred) for e in t.elts):
                for e, x in zip(t.elts, v.items):
                    self.bind(e, x, env, fr)
            else:
                why = v if isinstance(v, Unknown) else Unknown(f"{fr.f.qualname}: cannot read the unpacking "
                                                               f"`{norm_text(t)[:40]}`")
                if isinstance(v, Sc):
                    why = Sc(deps=v.deps)
                for e in t.elts:
                    self.bind(e.value if isinstance(e, ast.Starred) else e, why, env, fr)
        elif isinstance(t, ast.Subscript):
            if isinstance(t.value, ast.Name):
                base = env.get(t.value.id, Sc())
                env[t.value.id] = self.store(base, t, v, env, fr)
        # attribute targets carry no layout we follow

    def store(self, base: Val, t: ast.Subscript, v: Val, env: dict, fr: Frame) -> Val:
        if isinstance(base, Unknown):
            return base
        if isinstance(base, Sc):
            return base
        if not isinstance(base, Arr):
            return Unknown(f"{fr.f.qualname}: item assignment into a sequence")
        if isinstance(v, Unknown):
            return v
        if base.coord:
            return Unknown(f"{fr.f.qualname}: elements of a coordinate vector are overwritten")
        idx = t.slice
        elts = list(idx.elts) if isinstance(idx, ast.Tuple) else [idx]
        full = all((isinstance(e, ast.Slice) and e.lower is None and e.upper is None and e.step is None)
                   or (isinstance(e, ast.Constant) and e.value is Ellipsis) for e in elts)
        if full:  # the whole content is replaced
            if isinstance(v, Arr) and not v.masked and len(v.axes) <= len(base.axes):
                return Arr((None,) * (len(base.axes) - len(v.axes)) + tuple(v.axes))
            if isinstance(v, (Sc, Bool)):
                return Arr((None,) * len(base.axes))
            return Unknown(f"{fr.f.qualname}: cannot read what `{norm_text(t)[:40]}` is overwritten with")
        parts = [base]
        if not full:
            if len(elts) != 1:
                if isinstance(v, (Sc, Bool)):
                    return base
                return Unknown(f"{fr.f.qualname}: store through the index `{norm_text(idx)[:40]}`")
            m = self.ev(elts[0], env, fr)
            if isinstance(m, Unknown):
                return m
            if not isinstance(m, Arr):
                if isinstance(v, (Sc, Bool)):
                    return base
                return Unknown(f"{fr.f.qualname}: store through the index `{norm_text(idx)[:40]}`")
            parts.append(replace(m, masked=False, coord=False))
        if isinstance(v, Arr):
            if not full and not v.masked and len(v.axes) != len(base.axes):
                return Unknown(f"{fr.f.qualname}: store of an array of another shape")
            parts.append(replace(v, masked=False, coord=False))
        elif not isinstance(v, (Sc, Bool)):
            return Unknown(f"{fr.f.qualname}: store of a sequence into an array")
        out = self.merge(parts, t, fr)
        if isinstance(out, Arr):
            out = replace(out, masked=base.masked)
        return out

    # ---- joins
    def join_env(self, a: Optional[dict], b: Optional[dict]) -> Optional[dict]:
        if a is None:
            return b
        if b is None:
            return a
        out = {}
        for k in set(a) | set(b):
            if k in a and k in b:
                out[k] = self.join_val(a[k], b[k])
            else:
                out[k] = a.get(k, b.get(k))
        return out

    def join_val(self, a: Val, b: Val) -> Val:
        if a is b:
            return a
        if isinstance(a, Unknown):
            return a
        if isinstance(b, Unknown):
            return b
        if isinstance(a, Arr) and isinstance(b, Arr):
            if len(a.axes) == len(b.axes) and a.masked == b.masked and all(same_ax(x, y) for x, y in zip(a.axes, b.axes)):
                return a if a.coord == b.coord else replace(a, coord=False)
            return Unknown("the array is in different pixel layouts on different paths")
        if isinstance(a, Bag) and isinstance(b, Bag):
            items = list(a.items)
            for x in b.items:
                if not any(self._same(x, y) for y in items):
                    items.append(x)
            return Bag(tuple(items))
        if isinstance(a, Seq) and isinstance(b, Bag):
            return self.join_val(Bag(a.items), b)
        if isinstance(a, Bag) and isinstance(b, Seq):
            return self.join_val(a, Bag(b.items))
        if isinstance(a, Bag) and isinstance(b, Arr) or isinstance(a, Arr) and isinstance(b, Bag):
            return self.join_val(self.collapse(a), self.collapse(b))
        if isinstance(a, Seq) and isinstance(b, Seq):
            if len(a.items) == len(b.items):
                return Seq(tuple(self.join_val(x, y) for x, y in zip(a.items, b.items)))
            return Unknown("sequences of different length on different paths")
        if isinstance(a, (Sc, Bool)) and isinstance(b, (Sc, Bool)):
            if a == b:
                return a
            if isinstance(a, Sc) and isinstance(b, Sc):
                return Sc(a.lin if a.lin == b.lin else None, a.rat if (a.rat is not None and a.rat == b.rat) else None,
                          a.deps | b.deps)
            return Sc(deps=_deps(a, b))
        return Unknown("values of different kinds on different paths")

    def _same(self, a: Val, b: Val) -> bool:
        if isinstance(a, Arr) and isinstance(b, Arr):
            return len(a.axes) == len(b.axes) and a.masked == b.masked and all(same_ax(x, y) for x, y in zip(a.axes, b.axes))
        return a == b

    def collapse(self, v: Val) -> Val:
        """The one array a collection of arrays stands for."""
        if isinstance(v, (Seq, Bag)):
            if not v.items:
                return Sc()
            out = self.collapse(v.items[0])
            for x in v.items[1:]:
                out = self.join_val(out, self.collapse(x))
            return out
        return v

    # ---- array algebra
    def merge(self, arrs: list, node: ast.AST, fr: Frame) -> Val:
        """Element-wise combination with broadcasting (axes aligned from the right)."""
        arrs = [a for a in arrs if isinstance(a, Arr)]
        if any(a.masked for a in arrs) and not all(a.masked for a in arrs):
            return Unknown(f"{fr.f.qualname}: a mask selection is combined with a full array in `{norm_text(node)[:50]}`")
        nd = max(len(a.axes) for a in arrs)
        if any(a.masked for a in arrs) and any(len(a.axes) != nd for a in arrs):
            return Unknown(f"{fr.f.qualname}: mask selections of arrays of different rank")
        out: list = [None] * nd
        raw: list = [False] * nd
        for a in arrs:
            off = nd - len(a.axes)
            for i, x in enumerate(a.axes):
                if x is None:
                    continue
                cur = out[off + i]
                if cur is None:
                    out[off + i], raw[off + i] = x, a.coord
                elif not same_ax(cur, x):
                    if a.coord or raw[off + i]:
                        # coordinate vectors themselves may be combined to build another coordinate: not judged
                        return Unknown(f"{fr.f.qualname}: `{norm_text(node)[:50]}` combines coordinate vectors in "
                                       "different arrangements")
                    self.conflicts.append((fr.f.qualname, node, cur, x))
        return Arr(tuple(out), False, any(a.masked for a in arrs))

    def binop(self, op: ast.operator, a: Val, b: Val, node: ast.AST, fr: Frame) -> Val:
        for v in (a, b):
            if isinstance(v, Unknown):
                return v
        if isinstance(a, Bool):
            a = Sc()
        if isinstance(b, Bool):
            b = Sc()
        if isinstance(a, Sc) and isinstance(b, Sc):
            return _scalar_binop(op, a, b)
        if isinstance(a, Seq) and isinstance(b, Seq) and isinstance(op, ast.Add):
            return Seq(a.items + b.items)
        if isinstance(a, Arr) and isinstance(b, Arr):
            return self.merge([a, b], node, fr)
        if isinstance(a, Arr) and isinstance(b, Sc):
            return self._coord_scalar(op, a, b, False, node, fr)
        if isinstance(a, Sc) and isinstance(b, Arr):
            return self._coord_scalar(op, b, a, True, node, fr)
        return Unknown(f"{fr.f.qualname}: cannot read `{norm_text(node)[:50]}`")

    def _coord_scalar(self, op, arr: Arr, s: Sc, swapped: bool, node, fr: Frame) -> Val:
        if not arr.coord:
            return arr
        pos = [i for i, x in enumerate(arr.axes) if x is not None]
        ax = arr.axes[pos[0]]
        q = fr.f.qualname

        def put(new_ax: Ax) -> Arr:
            return Arr(tuple(new_ax if i == pos[0] else None for i in range(len(arr.axes))), True)

        if isinstance(op, ast.Mult):
            return put(replace(ax, step=None if (ax.step is None or s.rat is None) else ax.step * s.rat))
        if isinstance(op, ast.Div) and not swapped:
            ok = ax.step is not None and s.rat is not None and not s.rat.is_zero()
            return put(replace(ax, step=(ax.step / s.rat) if ok else None))
        if isinstance(op, (ast.Add, ast.Sub)):
            if swapped and isinstance(op, ast.Sub):
                return Unknown(f"{q}: reversed coordinate `{norm_text(node)[:50]}`")
            one = Rat(Poly.const(1))
            if ax.kind != "ramp" or ax.step is None or ax.step != one or s.lin is None or not _only_sizes(s.lin) \
                    or not ax.roll.is_zero():
                return Unknown(f"{q}: translated coordinate `{norm_text(node)[:50]}` is outside the language")
            c = ax.c + s.lin if isinstance(op, ast.Sub) else ax.c - s.lin
            return put(replace(ax, c=c, events=ax.events + ("explicit centred vector",)))
        if isinstance(op, ast.Pow) and not swapped:
            return replace(arr, coord=False)  # a function of the coordinate
        # anything else (%, //, &, ...) may re-map the values of the vector to other frequencies
        return Unknown(f"{q}: `{norm_text(node)[:50]}` re-maps a coordinate vector: outside the language")

    def shift(self, x: Val, sign: int, axes_expr, node: ast.Call, env, fr: Frame, what: str) -> Val:
        if isinstance(x, (Unknown, Sc, Bool)):
            return x if not isinstance(x, Bool) else Sc()
        if isinstance(x, (Seq, Bag)):
            return type(x)(tuple(self.shift(i, sign, axes_expr, node, env, fr, what) for i in x.items))
        if x.masked:
            return Unknown(f"{fr.f.qualname}: {what} of a mask selection")
        nd = len(x.axes)
        sel = self._axes(axes_expr, nd, fr)
        if sel is None:
            return Unknown(f"{fr.f.qualname}: axes of `{norm_text(node)[:50]}` are not literal")
        out = list(x.axes)
        for i in sel:
            a = out[i]
            if a is None:
                continue
            half = mk_fdiv(Lin.leaf(SIZE, a.k), 2, ROLES, what)
            out[i] = replace(a, roll=a.roll + (half if sign > 0 else -half), events=a.events + (what,))
        return replace(x, axes=tuple(out))

    def _axes(self, e, nd: int, fr: Frame) -> Optional[list]:
        if e is None or (isinstance(e, ast.Constant) and e.value is None):
            return list(range(nd))
        try:
            v = ast.literal_eval(e)
        except Exception:  # noqa: BLE001
            return None
        if isinstance(v, int) and not isinstance(v, bool):
            v = (v,)
        if not (isinstance(v, (tuple, list)) and all(isinstance(i, int) and -nd <= i < nd for i in v)):
            return None
        return [i % nd for i in v]

    def roll(self, x: Val, shift: Val, axes_expr, node: ast.Call, fr: Frame) -> Val:
        if isinstance(x, (Unknown, Sc, Bool)):
            return x if not isinstance(x, Bool) else Sc()
        if not isinstance(x, Arr) or x.masked:
            return Unknown(f"{fr.f.qualname}: roll of something that is not a full array")
        if isinstance(shift, Unknown):
            return shift
        nd = len(x.axes)
        if axes_expr is None:
            return Unknown(f"{fr.f.qualname}: roll of the flattened array")
        sel = self._axes(axes_expr, nd, fr)
        if sel is None:
            return Unknown(f"{fr.f.qualname}: axes of `{norm_text(node)[:50]}` are not literal")
        shifts = list(shift.items) if isinstance(shift, Seq) else [shift] * len(sel)
        if len(shifts) != len(sel) or not all(isinstance(s, Sc) for s in shifts):
            return Unknown(f"{fr.f.qualname}: cannot pair the shifts of `{norm_text(node)[:50]}` with its axes")
        out = list(x.axes)
        for i, s in zip(sel, shifts):
            a = out[i]
            if a is None:
                continue
            if s.lin is not None and _only_sizes(s.lin) and is_integer(s.lin, ROLES):
                out[i] = replace(a, roll=a.roll + s.lin, events=a.events + ("roll by a multiple of the size",))
            elif s.deps - {SIZE} and SIZE not in s.deps:
                # a displacement that is not derived from the grid size alone: the detector offset (decided by
                # R-OFFSETPIX); it moves the detector, not the frequency origin of the pattern
                self.notes.append(f"{fr.f.qualname}: roll by a displacement depending on {sorted(s.deps - {SIZE})} "
                                  "(the detector offset) keeps the frequency origin")
            else:
                return Unknown(f"{fr.f.qualname}: the shift of `{norm_text(node)[:50]}` is outside the language")
        return replace(x, axes=tuple(out))

    # ---- expressions
    def ev(self, e: ast.AST, env: dict, fr: Frame) -> Val:
        q = fr.f.qualname
        if isinstance(e, _Lit):
            return e.val
        if isinstance(e, ast.Constant):
            if isinstance(e.value, bool):
                return Bool(e.value)
            if isinstance(e.value, (int, float)):
                return const(e.value)
            return Sc()
        if isinstance(e, ast.Name):
            if e.id in env:
                return env[e.id]
            return Sc()
        if isinstance(e, (ast.Tuple, ast.List)):
            if any(isinstance(x, ast.Starred) for x in e.elts):
                return Unknown(f"{q}: starred element in `{norm_text(e)[:40]}`")
            return Seq(tuple(self.ev(x, env, fr) for x in e.elts))
        if isinstance(e, ast.BinOp):
            return self.binop(e.op, self.ev(e.left, env, fr), self.ev(e.right, env, fr), e, fr)
        if isinstance(e, ast.UnaryOp):
            v = self.ev(e.operand, env, fr)
            if isinstance(e.op, ast.Not):
                return Bool(not v.value) if isinstance(v, Bool) else (v if isinstance(v, Unknown) else Sc(deps=_deps(v)))
            if isinstance(v, Sc) and isinstance(e.op, ast.USub):
                return Sc(None if v.lin is None else -v.lin, None if v.rat is None else -v.rat, v.deps)
            if isinstance(v, Arr) and v.coord and isinstance(e.op, ast.USub):
                return Unknown(f"{q}: reversed coordinate `{norm_text(e)[:40]}`")
            if isinstance(v, Bool):
                return Sc()
            return v
        if isinstance(e, ast.BoolOp):
            vs = [self.ev(x, env, fr) for x in e.values]
            if all(isinstance(v, Bool) for v in vs):
                return Bool(all(v.value for v in vs) if isinstance(e.op, ast.And) else any(v.value for v in vs))
            if isinstance(e.op, ast.And) and any(isinstance(v, Bool) and not v.value for v in vs):
                return Bool(False)
            if isinstance(e.op, ast.Or) and any(isinstance(v, Bool) and v.value for v in vs):
                return Bool(True)
            for v in vs:
                if isinstance(v, Unknown):
                    return v
            return Sc(deps=_deps(*vs))
        if isinstance(e, ast.Compare):
            vs = [self.ev(x, env, fr) for x in [e.left] + list(e.comparators)]
            for v in vs:
                if isinstance(v, Unknown):
                    return v
            if any(isinstance(v, Arr) for v in vs):
                return self.merge(vs, e, fr)
            if len(vs) == 2 and all(isinstance(v, Bool) for v in vs) and isinstance(e.ops[0], (ast.Is, ast.Eq, ast.IsNot,
                                                                                              ast.NotEq)):
                eq = vs[0].value == vs[1].value
                return Bool(eq if isinstance(e.ops[0], (ast.Is, ast.Eq)) else not eq)
            return Sc(deps=_deps(*vs))
        if isinstance(e, ast.IfExp):
            t = self.ev(e.test, env, fr)
            if isinstance(t, Bool):
                return self.ev(e.body if t.value else e.orelse, env, fr)
            return self.join_val(self.ev(e.body, env, fr), self.ev(e.orelse, env, fr))
        if isinstance(e, ast.Attribute):
            v = self.ev(e.value, env, fr)
            if isinstance(v, Arr):
                if e.attr == "shape" and not v.masked:
                    return Seq(tuple(Sc(Lin.leaf(SIZE, a.k), Rat(Poly.atom(f"{SIZE}[{a.k}]")), frozenset({SIZE}))
                                     if a is not None else Unknown(f"{q}: extent of an axis without a frequency coordinate")
                                     for a in v.axes))
                if e.attr == "T" and not v.masked:
                    return replace(v, axes=tuple(reversed(v.axes)), coord=v.coord and len(v.axes) == 1)
                if e.attr in ("real", "imag"):
                    return v
                if e.attr in ("dtype", "ndim", "size", "device", "nbytes", "itemsize"):
                    return Sc()
                return Unknown(f"{q}: attribute `{e.attr}` of an array")
            if isinstance(v, Unknown):
                return v
            return Sc(deps=_deps(v))
        if isinstance(e, ast.Subscript):
            return self.subscript(e, env, fr)
        if isinstance(e, ast.Call):
            return self.call(e, env, fr)
        if isinstance(e, (ast.ListComp, ast.GeneratorExp, ast.SetComp)):
            return self.comprehension(e, env, fr)
        if isinstance(e, ast.NamedExpr):
            v = self.ev(e.value, env, fr)
            self.bind(e.target, v, env, fr)
            return v
        if isinstance(e, (ast.JoinedStr, ast.Dict, ast.Lambda, ast.Set)):
            return Sc()
        return Unknown(f"{q}: cannot read `{norm_text(e)[:50]}`")

    def subscript(self, e: ast.Subscript, env: dict, fr: Frame) -> Val:
        q = fr.f.qualname
        base = self.ev(e.value, env, fr)
        idx = e.slice
        if isinstance(base, Unknown):
            return base
        if isinstance(base, (Sc, Bool)):
            return Sc(deps=_deps(base))
        if isinstance(base, Bag):
            return self.collapse(base)
        if isinstance(base, Seq):
            if isinstance(idx, ast.UnaryOp) and isinstance(idx.op, ast.USub) and isinstance(idx.operand, ast.Constant):
                idx = ast.Constant(value=-idx.operand.value)
            if isinstance(idx, ast.Constant) and isinstance(idx.value, int) and not isinstance(idx.value, bool):
                if -len(base.items) <= idx.value < len(base.items):
                    return base.items[idx.value]
                return Unknown(f"{q}: index out of range in `{norm_text(e)[:40]}`")
            if isinstance(idx, ast.Slice):
                try:
                    lo, hi, stp = (None if x is None else ast.literal_eval(x) for x in (idx.lower, idx.upper, idx.step))
                    return Seq(base.items[slice(lo, hi, stp)])
                except Exception:  # noqa: BLE001
                    pass
            return Unknown(f"{q}: cannot read the index of `{norm_text(e)[:40]}`")
        assert isinstance(base, Arr)
        elts = list(idx.elts) if isinstance(idx, ast.Tuple) else [idx]
        if len(elts) == 1 and not isinstance(elts[0], (ast.Slice, ast.Constant)):
            m = self.ev(elts[0], env, fr)
            if isinstance(m, Unknown):
                return m
            if isinstance(m, Arr) and not m.masked and not base.masked and len(m.axes) == len(base.axes):
                out = self.merge([replace(base, coord=False), replace(m, coord=False)], e, fr)
                return replace(out, masked=True) if isinstance(out, Arr) else out
            return Unknown(f"{q}: cannot read the index of `{norm_text(e)[:40]}`")
        if base.masked:
            return Unknown(f"{q}: index into a mask selection")
        n_real = sum(1 for x in elts if not (isinstance(x, ast.Constant) and (x.value is None or x.value is Ellipsis)))
        if n_real > len(base.axes) or sum(1 for x in elts if isinstance(x, ast.Constant) and x.value is Ellipsis) > 1:
            return Unknown(f"{q}: cannot read the indices of `{norm_text(e)[:40]}`")
        out: list = []
        src = list(base.axes)
        for x in elts:
            if isinstance(x, ast.Constant) and x.value is None:
                out.append(None)
            elif isinstance(x, ast.Constant) and x.value is Ellipsis:
                take = len(base.axes) - n_real
                out += src[:take]
                src = src[take:]
            elif isinstance(x, ast.Slice):
                if x.lower is not None or x.upper is not None or x.step is not None:
                    return Unknown(f"{q}: partial slice `{norm_text(e)[:40]}` moves the pixel origin")
                out.append(src.pop(0))
            elif isinstance(x, ast.Constant) and isinstance(x.value, int) and not isinstance(x.value, bool):
                src.pop(0)
            else:
                return Unknown(f"{q}: cannot read the index of `{norm_text(e)[:40]}`")
        out += src
        return Arr(tuple(out), base.coord and sum(1 for x in out if x is not None) == 1)

    def element(self, it: ast.AST, env: dict, fr: Frame) -> Val:
        """Value of one element when iterating over `it` (collections of like arrays collapse)."""
        seq = self.iterate(it, env, fr)
        if isinstance(seq, Seq):
            if not seq.items:
                return Sc()
            out = seq.items[0]
            for x in seq.items[1:]:
                out = self.join_val(out, x)
            return out
        return seq

    def iterate(self, it: ast.AST, env: dict, fr: Frame) -> Val:
        """Seq of the elements (when their number is known) or the value every element has."""
        if isinstance(it, ast.Call) and not it.keywords:
            nm = _last(call_name(it))
            if nm == "zip" and it.args:
                cols = [self.iterate(a, env, fr) for a in it.args]
                if all(isinstance(c, Seq) for c in cols) and len({len(c.items) for c in cols}) == 1:
                    return Seq(tuple(Seq(tuple(c.items[i] for c in cols)) for i in range(len(cols[0].items))))
                return Seq((Seq(tuple(c if not isinstance(c, Seq) else self.element(a, env, fr)
                                      for c, a in zip(cols, it.args))),))
            if nm == "enumerate" and len(it.args) == 1:
                col = self.iterate(it.args[0], env, fr)
                if isinstance(col, Seq):
                    return Seq(tuple(Seq((const(i), x)) for i, x in enumerate(col.items)))
                return Seq((Seq((Sc(), col)),))
            if nm == "range":
                return Sc(deps=_deps(*[self.ev(a, env, fr) for a in it.args]))
        v = self.ev(it, env, fr)
        if isinstance(v, Seq):
            return v
        if isinstance(v, Bag):
            return self.collapse(v)
        if isinstance(v, Arr):
            return Unknown(f"{fr.f.qualname}: iteration over the rows of an array")
        if isinstance(v, Bool):
            return Sc()
        return v

    def comprehension(self, e, env: dict, fr: Frame) -> Val:
        if len(e.generators) != 1:
            return Unknown(f"{fr.f.qualname}: nested comprehension")
        g = e.generators[0]
        seq = self.iterate(g.iter, env, fr)
        if isinstance(seq, Unknown):
            return seq
        if isinstance(seq, Seq) and not g.ifs:
            out = []
            for x in seq.items:
                sub = dict(env)
                self.bind(g.target, x, sub, fr)
                out.append(self.ev(e.elt, sub, fr))
            return Seq(tuple(out))
        elem = self.element(g.iter, env, fr) if isinstance(seq, Seq) else seq
        sub = dict(env)
        self.bind(g.target, elem, sub, fr)
        return Bag((self.ev(e.elt, sub, fr),))

    # ---- calls
    def call(self, c: ast.Call, env: dict, fr: Frame) -> Val:
        q = fr.f.qualname
        name = call_name(c)
        last = _last(name) if name else (c.func.attr if isinstance(c.func, ast.Attribute) else "")
        if any(isinstance(a, ast.Starred) for a in c.args) and not any(k.arg is None for k in c.keywords):
            flat: Optional[list] = []
            for a in c.args:
                if isinstance(a, ast.Starred):
                    v = self.ev(a.value, env, fr)
                    if not isinstance(v, Seq):
                        flat = None
                        break
                    flat += [_Lit(x) for x in v.items]
                else:
                    flat.append(a)
            if flat is not None:
                c2 = ast.Call(func=c.func, args=flat, keywords=c.keywords)
                ast.copy_location(c2, c)
                return self.call(c2, env, fr)
        if any(isinstance(a, ast.Starred) for a in c.args) or any(k.arg is None for k in c.keywords):
            vals = [self.ev(a.value if isinstance(a, ast.Starred) else a, env, fr) for a in c.args] + \
                   [self.ev(k.value, env, fr) for k in c.keywords]
            if any(isinstance(x, (Arr, Unknown)) for v in vals for x in deep(v)):
                return Unknown(f"{q}: call with unpacked arguments `{norm_text(c)[:50]}`")
            return Sc(deps=_deps(*vals))
        args = [self.ev(a, env, fr) for a in c.args]
        kws = {k.arg: self.ev(k.value, env, fr) for k in c.keywords}
        kwx = {k.arg: k.value for k in c.keywords}

        # ---- methods of values we follow
        if isinstance(c.func, ast.Attribute):
            recv = self.ev(c.func.value, env, fr)
            m = c.func.attr
            if isinstance(recv, (Seq, Bag)) and m in ("append", "extend") and len(args) == 1 \
                    and isinstance(c.func.value, ast.Name):
                add = args[0]
                items = (add,) if m == "append" else (tuple(add.items) if isinstance(add, (Seq, Bag)) else (add,))
                env[c.func.value.id] = self.join_val(Bag(recv.items), Bag(items))
                return Sc()
            if isinstance(recv, Arr):
                if m in ELEMENTWISE_METHODS:
                    if m in ("astype", "copy", "get", "view"):
                        return recv
                    if recv.coord:
                        return Unknown(f"{q}: method `{m}` of a coordinate vector is outside the language")
                    return recv
                if m in REDUCTIONS and "axis" not in kws and not args:
                    return Sc()
                if m in ("transpose",) and not args and not kws and not recv.masked:
                    return replace(recv, axes=tuple(reversed(recv.axes)), coord=False)
                if m in ("item", "tolist"):
                    return Unknown(f"{q}: array turned into python numbers")
                return Unknown(f"{q}: method `{m}` of an array is outside the language")
            if isinstance(recv, Unknown) and m not in ("append",):
                return recv

        # ---- shifts
        if last in ("fftshift", "ifftshift"):
            x = args[0] if args else kws.get("x", Sc())
            axes = c.args[1] if len(c.args) > 1 else kwx.get("axes")
            return self.shift(x, 1 if last == "fftshift" else -1, axes, c, env, fr, last)
        if last == "roll":
            x = args[0] if args else kws.get("a", Sc())
            sh = args[1] if len(args) > 1 else kws.get("shift", Unknown(f"{q}: roll without a shift"))
            axes = c.args[2] if len(c.args) > 2 else kwx.get("axis")
            return self.roll(x, sh, axes, c, fr)

        # ---- package functions
        callee = None
        if name and self.repo is not None:
            try:
                callee = self.repo.resolve_name(fr.f.module, name)
            except Exception:  # noqa: BLE001
                callee = None
        if isinstance(callee, FuncInfo) and callee.cls is None:
            allv = args + list(kws.values())
            if callee.name in INDEX_LISTS:
                x = args[0] if args else Sc()
                if isinstance(x, Arr):
                    self.notes.append(f"{q}: {callee.name}(image, ...) yields index arrays into the image handed in")
                    return Bag((replace(x, coord=False),))
                return x if isinstance(x, Unknown) else Sc(deps=_deps(*allv))
            if any(not isinstance(v, (Sc, Bool)) for v in allv):
                if fr.depth >= 3 or callee.decorators:
                    return Unknown(f"{q}: call of {callee.qualname} is not followed")
                bound = dict(zip(callee.positional_params, args))
                bound.update(kws)
                if set(bound) - set(callee.params):
                    return Unknown(f"{q}: cannot bind the arguments of `{norm_text(c)[:50]}`")
                return self.call_function(callee, bound, fr.depth + 1)
            return Sc(deps=_deps(*allv))

        allv = args + list(kws.values())
        # ---- sources
        if last == "fftfreq":
            n = args[0] if args else kws.get("n")
            d = args[1] if len(args) > 1 else kws.get("d", const(1))
            k = _size_leaf(n.lin) if isinstance(n, Sc) else None
            if k is None:
                return Unknown(f"{q}: fftfreq of a length that is not the size of a pattern axis")
            step = None
            if isinstance(d, Sc) and d.rat is not None and n.rat is not None:
                step = (n.rat * d.rat).inverse()
            return Arr((Ax(k, "fft", Lin(), Lin(), step, ("fftfreq",)),), True)
        if last == "arange":
            pos = [a for a in args]
            if "step" in kws or len(pos) > 2 or not pos or not all(isinstance(a, Sc) and a.lin is not None for a in pos):
                return Unknown(f"{q}: `{norm_text(c)[:50]}` is outside the language")
            start, stop = (Lin(), pos[0].lin) if len(pos) == 1 else (pos[0].lin, pos[1].lin)
            length = stop - start
            k = _size_leaf(length)
            if k is None and _only_sizes(length):
                for kk in (0, 1):
                    if all(_val(length, e) == e[(SIZE, kk)] for e in samples(length)):
                        k = kk
            if k is None or not is_integer(start, ROLES):
                return Unknown(f"{q}: arange over a range that is not the size of a pattern axis")
            c0 = -start
            return Arr((Ax(k, "ramp", c0, Lin(), Rat(Poly.const(1)), ("explicit vector",)),), True)
        if last == "meshgrid" and args and all(isinstance(a, Arr) and a.coord and len(a.axes) == 1 for a in args):
            ij = isinstance(kwx.get("indexing"), ast.Constant) and kwx["indexing"].value == "ij"
            if set(kwx) - {"indexing"} or ("indexing" in kwx and not isinstance(kwx["indexing"], ast.Constant)):
                return Unknown(f"{q}: `{norm_text(c)[:50]}` is outside the language")
            nd = len(args)
            order = list(range(nd))
            if not ij and nd >= 2:
                order[0], order[1] = 1, 0
            return Seq(tuple(Arr(tuple(a.axes[0] if j == order[i] else None for j in range(nd)), True)
                             for i, a in enumerate(args)))
        if last in UNMODELLED_SOURCES:
            return Unknown(f"{q}: array built by `{last}` is outside the language")
        if last in CONSTANT_ARRAYS:
            shp = args[0] if args else kws.get("shape", Sc())
            if isinstance(shp, Seq):
                return Arr((None,) * len(shp.items))
            if isinstance(shp, Sc):
                return Arr((None,))
            return Unknown(f"{q}: shape of `{norm_text(c)[:40]}`")
        if last in LIKE_ARRAYS:
            x = args[0] if args else Sc()
            if isinstance(x, Arr):
                return Arr((None,) * len(x.axes), False, x.masked)
            return x if isinstance(x, Unknown) else Sc()

        for v in allv:
            if isinstance(v, Unknown):
                return v
        arrs = [v for v in allv if isinstance(v, Arr)]
        # ---- scalar functions
        if not arrs and len(args) == 1 and isinstance(args[0], Sc):
            r = _scalar_call(last, args[0])
            if r is not None:
                return r
        if last == "bool" and len(args) == 1 and isinstance(args[0], Bool):
            return args[0]
        if last == "len" and len(args) == 1:
            x = args[0]
            if isinstance(x, Seq):
                return const(len(x.items))
            if isinstance(x, Arr) and not x.masked and x.axes and x.axes[0] is not None:
                k = x.axes[0].k
                return Sc(Lin.leaf(SIZE, k), Rat(Poly.atom(f"{SIZE}[{k}]")), frozenset({SIZE}))
            return Sc() if not isinstance(x, Arr) else Unknown(f"{q}: len of an array without a frequency coordinate")
        if last in VALUE_PRESERVING and len(args) == 1 and isinstance(args[0], (Seq, Bag)):
            return args[0]
        if arrs:
            if last in ELEMENTWISE:
                seqs = [v for v in allv if isinstance(v, (Seq, Bag))]
                if any(isinstance(x, Arr) for s in seqs for x in deep(s)):
                    return Unknown(f"{q}: `{norm_text(c)[:50]}` combines a sequence of arrays")
                if len(arrs) == 1 and last in VALUE_PRESERVING | {"astype", "float32", "float64"}:
                    return arrs[0]
                if any(a.coord for a in arrs) and last not in SAFE_ON_COORD:
                    return Unknown(f"{q}: `{last}` may re-map a coordinate vector: outside the language")
                return self.merge(arrs, c, fr)
            if last in REDUCTIONS and "axis" not in kws and len(args) == 1:
                return Sc()
            return Unknown(f"{q}: `{last}` applied to an array is outside the language")
        if any(isinstance(x, Arr) for v in allv for x in deep(v)):
            return Unknown(f"{q}: `{last}` applied to a sequence of arrays is outside the language")
        return Sc(deps=_deps(*allv))


def _load(t: ast.AST) -> ast.AST:
    import copy

    n = copy.deepcopy(t)
    for x in ast.walk(n):
        if hasattr(x, "ctx"):
            x.ctx = ast.Load()
    return n


# ------------------------------------------------------------------------------------------------ scalars
def _scalar_binop(op, a: Sc, b: Sc) -> Sc:
    deps = a.deps | b.deps
    lin = rat = None
    if a.lin is not None and b.lin is not None:
        try:
            if isinstance(op, ast.Add):
                lin = a.lin + b.lin
            elif isinstance(op, ast.Sub):
                lin = a.lin - b.lin
            elif isinstance(op, ast.Mult):
                if b.lin.is_const():
                    lin = a.lin.scale(b.lin.const_value())
                elif a.lin.is_const():
                    lin = b.lin.scale(a.lin.const_value())
            elif isinstance(op, ast.Div):
                if b.lin.is_const() and b.lin.const_value() != 0:
                    lin = a.lin.scale(1 / b.lin.const_value())
            elif isinstance(op, ast.FloorDiv):
                if b.lin.is_const() and b.lin.const_value().denominator == 1 and b.lin.const_value() > 0:
                    lin = mk_fdiv(a.lin, int(b.lin.const_value()), ROLES, "floor division")
            elif isinstance(op, ast.RShift):
                if b.lin.is_const() and b.lin.const_value() == 1:
                    lin = mk_fdiv(a.lin, 2, ROLES, "shift")
        except AnalysisError:
            lin = None
    if a.rat is not None and b.rat is not None:
        if isinstance(op, ast.Add):
            rat = a.rat + b.rat
        elif isinstance(op, ast.Sub):
            rat = a.rat - b.rat
        elif isinstance(op, ast.Mult):
            rat = a.rat * b.rat
        elif isinstance(op, ast.Div) and not b.rat.is_zero():
            rat = a.rat / b.rat
        elif isinstance(op, ast.Pow):
            e = b.rat.num.const_value() if b.rat.den == Poly.const(1) else None
            if e is not None and e.denominator == 1 and -6 <= e.numerator <= 6:
                rat = a.rat.power(e.numerator)
    if rat is None and lin is not None and is_integer(lin, ROLES) and isinstance(op, (ast.FloorDiv, ast.RShift)) \
            and lin.is_const():
        rat = Rat(Poly.const(lin.const_value()))
    return Sc(lin, rat, deps)


def _floor_lin(x: Lin) -> Optional[Lin]:
    if is_integer(x, ROLES):
        return x
    d = 1
    for c in x.terms.values():
        d = d * c.denominator // gcd(d, c.denominator)
    big = x.scale(d)
    if not is_integer(big, ROLES):
        return None
    try:
        return mk_fdiv(big, d, ROLES, "floor")
    except AnalysisError:
        return None


def _scalar_call(name: str, x: Sc) -> Optional[Sc]:
    whole = x.lin is not None and is_integer(x.lin, ROLES)
    if name in ("float", "float32", "float64", "asarray", "array"):
        return x
    if name in ("int", "int32", "int64", "intp", "trunc"):
        if whole:
            return x
        if x.lin is not None and all(c >= 0 for c in x.lin.terms.values()):  # truncation == floor for values >= 0
            return Sc(_floor_lin(x.lin), None, x.deps)
        return Sc(None, None, x.deps)
    if name == "floor":
        return x if whole else Sc(None if x.lin is None else _floor_lin(x.lin), None, x.deps)
    if name == "ceil":
        if whole:
            return x
        f = None if x.lin is None else _floor_lin(-x.lin)
        return Sc(None if f is None else -f, None, x.deps)
    if name in ("round", "rint", "around"):
        return x if whole else Sc(None if x.lin is None else mk_round(x.lin, ROLES), None, x.deps)
    return None


# ------------------------------------------------------------------------------------------------ judging
@dataclass
class AxisVerdict:
    ok: bool
    text: str
    detail: str = ""


def analyse(repo, f: FuncInfo, flag: str, value: bool, size_param: str = "gpts", vector_params=("sampling", "offset")):
    """Interpret builder `f` with its boolean parameter `flag` fixed; returns (array the result stands for, Interp)."""
    it = Interp(repo, {flag: value})
    params: dict = {flag: Bool(value)}
    if size_param in f.params:
        params[size_param] = Seq(tuple(Sc(Lin.leaf(SIZE, k), Rat(Poly.atom(f"{SIZE}[{k}]")), frozenset({SIZE}))
                                       for k in (0, 1)))
    for p in vector_params:
        if p in f.params:
            params[p] = pair(p)
    out = it.collapse(it.run(f, params))
    return out, it


def text(x: Lin) -> str:
    """Readable form with n_k for the size of pattern axis k."""
    if not x.terms:
        return "0"
    parts = []
    for a, c in sorted(x.terms.items(), key=lambda t: (t[0] == ONE, repr(t[0]))):
        if a == ONE:
            body = ""
        elif a[0] == "leaf":
            body = f"n{a[2]}" if a[1] == SIZE else f"{a[1]}[{a[2]}]"
        elif a[0] == "fdiv":
            body = f"({text(a[1])}) // {a[2]}"
        else:
            body = f"round({text(a[1])})"
        mag = abs(c)
        if not body:
            s = str(mag)
        elif mag == 1:
            s = body
        else:
            s = f"{mag}*{body}"
        parts.append(("- " if c < 0 else "+ ") + s)
    out = " ".join(parts)
    return out[2:] if out.startswith("+ ") else "-" + out[2:]


def describe(a: Ax) -> str:
    parts = []
    if a.kind == "ramp":
        parts.append(f"explicit vector (arange(n) - c) * step with c = {text(a.c)}")
    else:
        parts.append("FFT order")
    if not a.roll.is_zero():
        parts.append(f"rolled by {text(a.roll)}")
    return ", ".join(parts)


def judge_origin(a: Ax, centred: bool) -> AxisVerdict:
    """Zero frequency at index n//2 (centred, what fftshift of the pattern gives) or 0 (FFT order) for every n >= 2."""
    want = mk_fdiv(Lin.leaf(SIZE, a.k), 2, ROLES, "n//2") if centred else Lin()
    bad = []
    for e in samples(*ax_forms(a)):
        n = e[(SIZE, a.k)]
        z = zero_index(a, e)
        w = int(_val(want, e)) % n
        if z != w:
            bad.append((n, e, z, w))
    if not bad:
        return AxisVerdict(True, f"{describe(a)}: zero frequency at index {'n//2' if centred else '0'} for even and odd n")
    n, e, z, w = min(bad, key=lambda t: (t[0] < 4, t[0]))
    parities = {t[0] % 2 for t in bad}
    which = "even n" if parities == {0} else "odd n" if parities == {1} else "even and odd n"
    if z is None:
        c = _val(a.c, e)
        got = (f"an explicit vector whose zero is at index {c} (c = {text(a.c)}), which is not n//2 = {n // 2}: it does "
               f"not hold the frequencies -(n//2) .. (n-1)//2 of the pattern")
    else:
        got = f"the zero frequency at index {z}"
    return AxisVerdict(False, f"{describe(a)}: for {which}, e.g. n = {n}, the mask has {got}; the pattern has it at "
                              f"index {w}", which)


def count_centrings(a: Ax) -> int:
    n = sum(1 for ev in a.events if ev in ("fftshift", "ifftshift") or ev.startswith("roll by"))
    if a.kind == "ramp" and not a.c.is_zero():
        n += 1
    return n
