"""Reader for the ways a function assembles a keyword-argument mapping, and origin analysis for its values.

A *mapping* is followed along every path through a (small) function body: a dict display, a `dict(...)` call, the
result of `self._copy_kwargs(...)` (read through a callback of the caller), `{**a, **b}` / `a | b` merges of readable
parts, copies, item stores `m["k"] = v`, `m.update(...)`, `m.pop("k")`, `del m["k"]`, `m.setdefault("k", v)`.  What
cannot be read is recorded as an *open part* of the mapping (computed keys, a mapping of unknown content merged in,
the mapping handed to an unknown function, a loop that touches it); the caller decides whether an open part matters
(it does as soon as a key it needs is not among the readable ones -> AnalysisError, never a silent pass).

`origins(repo, K)` gives, for every instance attribute of K, the set of constructor parameters of K its stored value
is computed from (flow-insensitive taint through the constructor chain that is actually executed, including the
arguments handed to base initialisers).  `classify_value` uses it to decide whether an expression written in a
method of K is *the receiver's own value of constructor parameter p*.
"""
from __future__ import annotations

import ast
import copy
from typing import Callable, Optional

from ..model import AnalysisError, ClassInfo, FuncInfo, Repo, call_name, dotted, walk_no_nested

MAX_PATHS = 64

COMPUTED = "computed keys"


class Entry:
    __slots__ = ("kind", "expr", "note")

    def __init__(self, kind: str, expr: Optional[ast.expr] = None, note: str = ""):
        self.kind = kind  # 'copied' (getattr(self, key) by _copy_kwargs) | 'value' (written expression)
        self.expr = expr
        self.note = note


class KwMap:
    """Abstract value of a keyword mapping: readable entries + open parts."""

    def __init__(self) -> None:
        self.entries: dict[str, Entry] = {}
        self.open: list[str] = []
        self.excluded: set[str] = set()   # names an author excluded from a copy explicitly
        self.removed: set[str] = set()    # keys deleted after they were present

    def clone(self) -> "KwMap":
        m = KwMap()
        m.entries = dict(self.entries)
        m.open = list(self.open)
        m.excluded = set(self.excluded)
        m.removed = set(self.removed)
        return m

    def merge(self, other: "KwMap") -> None:
        self.entries.update(other.entries)
        for k in other.entries:
            self.removed.discard(k)
        self.open += [o for o in other.open if o not in self.open]
        self.excluded |= other.excluded
        self.removed |= (other.removed - set(self.entries))

    def mark_open(self, why: str) -> None:
        if why not in self.open:
            self.open.append(why)

    def remove(self, key: str) -> None:
        if key in self.entries:
            del self.entries[key]
        self.removed.add(key)

    def describe(self) -> str:
        return "{" + ", ".join(sorted(self.entries)) + ("" if not self.open else ", <" + "; ".join(self.open) + ">") + "}"


class State:
    def __init__(self) -> None:
        self.maps: dict[str, KwMap] = {}
        self.vals: dict[str, ast.expr] = {}
        self.unknown: set[str] = set()

    def clone(self) -> "State":
        s = State()
        s.maps = {k: v.clone() for k, v in self.maps.items()}
        s.vals = dict(self.vals)
        s.unknown = set(self.unknown)
        return s


class _Subst(ast.NodeTransformer):
    def __init__(self, vals: dict[str, ast.expr]):
        self.vals = vals

    def visit_Name(self, node: ast.Name):
        if isinstance(node.ctx, ast.Load) and node.id in self.vals:
            return copy.deepcopy(self.vals[node.id])
        return node

    def visit_Lambda(self, node):
        return node

    def visit_ListComp(self, node):
        return node

    visit_SetComp = visit_DictComp = visit_GeneratorExp = visit_ListComp


def resolve(expr: ast.expr, st: State) -> ast.expr:
    """`expr` with the locals that have one readable value on this path replaced by that value."""
    if not st.vals:
        return expr
    return ast.fix_missing_locations(_Subst(st.vals).visit(copy.deepcopy(expr)))


READ_ONLY_METHODS = {"get", "items", "keys", "values", "copy", "__contains__"}
COPY_CALLS = {"dict", "copy.copy", "copy.deepcopy", "deepcopy", "copy"}


class Reader:
    """Path-wise interpretation of a function body for the mappings it assembles.

    `copy_reader(call) -> KwMap | None` reads a call that produces a mapping the caller knows about (the
    `_copy_kwargs` of the class under analysis).  `on_call(call, state)` is invoked for every call expression met
    (in evaluation order of statements) with the state before the statement takes effect."""

    def __init__(self, f: FuncInfo, copy_reader: Callable[[ast.Call], Optional[KwMap]],
                 on_call: Optional[Callable[[ast.Call, State], None]] = None):
        self.f = f
        self.copy_reader = copy_reader
        self.on_call = on_call
        self.returns: list[tuple[ast.Return, ast.expr, State]] = []
        self.npaths = 0

    # ------------------------------------------------------------------ mapping expressions
    def read_map(self, e: ast.expr, st: State) -> Optional[KwMap]:
        if isinstance(e, ast.Name):
            return st.maps[e.id].clone() if e.id in st.maps else None
        if isinstance(e, ast.Dict):
            m = KwMap()
            for k, v in zip(e.keys, e.values):
                if k is None:
                    part = self.read_map(v, st)
                    if part is None:
                        m.mark_open(f"merged part `{_short(v)}` of unknown content")
                    else:
                        m.merge(part)
                elif isinstance(k, ast.Constant) and isinstance(k.value, str):
                    m.entries[k.value] = Entry("value", resolve(v, st))
                    m.removed.discard(k.value)
                else:
                    m.mark_open(COMPUTED)
            return m
        if isinstance(e, ast.DictComp):
            m = KwMap()
            g = e.generators[0] if len(e.generators) == 1 else None
            it = resolve(g.iter, st) if g is not None else None
            if g is not None and not g.ifs and isinstance(g.target, ast.Name) and isinstance(it, (ast.Tuple, ast.List)) \
                    and all(isinstance(x, ast.Constant) and isinstance(x.value, str) for x in it.elts) \
                    and isinstance(e.key, ast.Name) and e.key.id == g.target.id:
                # {name: f(name) for name in ("a", "b")}: one entry per listed name
                for x in it.elts:
                    sub = State()
                    sub.vals = dict(st.vals)
                    sub.vals[g.target.id] = ast.Constant(value=x.value)
                    m.entries[x.value] = Entry("value", resolve(e.value, sub))
                return m
            m.mark_open(COMPUTED)
            return m
        if isinstance(e, ast.BinOp) and isinstance(e.op, ast.BitOr):
            a, b = self.read_map(e.left, st), self.read_map(e.right, st)
            if a is None and b is None:
                return None
            m = KwMap()
            for part, src in ((a, e.left), (b, e.right)):
                if part is None:
                    m.mark_open(f"merged part `{_short(src)}` of unknown content")
                else:
                    m.merge(part)
            return m
        if isinstance(e, ast.Call):
            cn = call_name(e) or ""
            got = self.copy_reader(e)
            if got is not None:
                return got
            if cn == "dict":
                m = KwMap()
                if len(e.args) > 1:
                    return None
                for a in e.args:
                    part = self.read_map(a, st)
                    if part is None:
                        m.mark_open(f"merged part `{_short(a)}` of unknown content")
                    else:
                        m.merge(part)
                for kw in e.keywords:
                    if kw.arg is None:
                        part = self.read_map(kw.value, st)
                        if part is None:
                            m.mark_open(f"merged part `{_short(kw.value)}` of unknown content")
                        else:
                            m.merge(part)
                    else:
                        m.entries[kw.arg] = Entry("value", resolve(kw.value, st))
                        m.removed.discard(kw.arg)
                return m
            if cn in COPY_CALLS and len(e.args) == 1 and not e.keywords:
                return self.read_map(e.args[0], st)
            if isinstance(e.func, ast.Attribute) and e.func.attr == "copy" and not e.args and not e.keywords:
                return self.read_map(e.func.value, st)
        return None

    def call_keywords(self, call: ast.Call, st: State) -> KwMap:
        """The keyword arguments written at a call, `**parts` read as mappings."""
        m = KwMap()
        for kw in call.keywords:
            if kw.arg is not None:
                m.entries[kw.arg] = Entry("value", resolve(kw.value, st))
                m.removed.discard(kw.arg)
                continue
            part = self.read_map(kw.value, st)
            if part is None:
                m.mark_open(f"`**{_short(kw.value)}` of unknown content")
            else:
                m.merge(part)
        return m

    # ------------------------------------------------------------------ statements
    def run(self, init: Optional[State] = None) -> None:
        st = init or State()
        self._block(list(self.f.body), [st])

    def _block(self, stmts: list[ast.stmt], states: list[State]) -> list[State]:
        for s in stmts:
            nxt: list[State] = []
            for st in states:
                nxt += self._stmt(s, st)
            states = nxt
            if len(states) > MAX_PATHS:
                raise AnalysisError(f"{self.f.qualname}: more than {MAX_PATHS} paths while reading the keyword assembly")
            if not states:
                break
        return states

    def _calls(self, node: ast.AST, st: State) -> None:
        if self.on_call is None:
            return
        for n in walk_no_nested(node) if not isinstance(node, (ast.FunctionDef, ast.Lambda)) else []:
            if isinstance(n, ast.Call):
                self.on_call(n, st)

    def _stmt(self, s: ast.stmt, st: State) -> list[State]:
        if isinstance(s, (ast.FunctionDef, ast.AsyncFunctionDef, ast.ClassDef)):
            st.maps.pop(s.name, None)
            st.vals.pop(s.name, None)
            return [st]
        if isinstance(s, ast.If):
            self._calls(s.test, st)
            self._effects(s.test, st)
            a, b = st, st.clone()
            return self._block(list(s.body), [a]) + self._block(list(s.orelse), [b])
        if isinstance(s, ast.Return):
            if s.value is not None:
                self._calls(s.value, st)
                self._effects(s.value, st, top=s.value)
                self.returns.append((s, s.value, st))
            return []
        if isinstance(s, ast.Raise):
            return []
        if isinstance(s, ast.For) and isinstance(s.target, ast.Name) and not s.orelse and \
                isinstance(resolve(s.iter, st), (ast.Tuple, ast.List)) and \
                all(isinstance(x, ast.Constant) for x in resolve(s.iter, st).elts) and \
                not any(isinstance(n, (ast.Break, ast.Continue)) for n in walk_no_nested(s)):
            # a loop over a literal list of constants is unrolled
            states = [st]
            for x in resolve(s.iter, st).elts:
                for one in states:
                    one.maps.pop(s.target.id, None)
                    one.vals[s.target.id] = ast.Constant(value=x.value)
                states = self._block(list(s.body), states)
            for one in states:
                one.vals.pop(s.target.id, None)
                one.unknown.add(s.target.id)
            return states
        if isinstance(s, (ast.For, ast.AsyncFor, ast.While)):
            self._weaken(s, st)
            skip = st.clone()
            hdr = s.iter if isinstance(s, (ast.For, ast.AsyncFor)) else s.test
            self._calls(hdr, st)
            out = self._block(list(s.body), [st])
            out = self._block(list(s.orelse), out + [skip]) if s.orelse else out + [skip]
            return out
        if isinstance(s, (ast.With, ast.AsyncWith)):
            for it in s.items:
                self._calls(it.context_expr, st)
            self._weaken_targets([it.optional_vars for it in s.items if it.optional_vars is not None], st)
            return self._block(list(s.body), [st])
        if isinstance(s, ast.Try):
            self._weaken(s, st)
            out = self._block(list(s.body) + list(s.orelse), [st.clone()])
            for h in s.handlers:
                out += self._block(list(h.body), [st.clone()])
            return self._block(list(s.finalbody), out) if s.finalbody else out
        if isinstance(s, (ast.Pass, ast.Assert, ast.Import, ast.ImportFrom, ast.Global, ast.Nonlocal, ast.Break,
                          ast.Continue)):
            return [st]
        # simple statements
        self._calls(s, st)
        if isinstance(s, ast.Assign) and len(s.targets) == 1 or isinstance(s, ast.AnnAssign) and s.value is not None:
            tgt = s.targets[0] if isinstance(s, ast.Assign) else s.target
            val = s.value
            if isinstance(tgt, ast.Name):
                self._effects(val, st, top=val)
                m = self.read_map(val, st)
                if m is not None:
                    st.maps[tgt.id] = m
                    st.vals.pop(tgt.id, None)
                else:
                    r = resolve(val, st)
                    st.maps.pop(tgt.id, None)
                    st.vals[tgt.id] = r
                st.unknown.discard(tgt.id)
                return [st]
            if isinstance(tgt, ast.Subscript) and isinstance(tgt.value, ast.Name) and tgt.value.id in st.maps:
                self._effects(val, st)
                m = st.maps[tgt.value.id]
                key = resolve(tgt.slice, st)
                if isinstance(key, ast.Constant) and isinstance(key.value, str):
                    m.entries[key.value] = Entry("value", resolve(val, st))
                    m.removed.discard(key.value)
                else:
                    m.mark_open(COMPUTED)
                return [st]
            self._effects(val, st)
            self._weaken_targets([tgt], st)
            return [st]
        if isinstance(s, ast.Assign):
            self._effects(s.value, st)
            self._weaken_targets(list(s.targets), st)
            return [st]
        if isinstance(s, ast.AugAssign):
            if isinstance(s.target, ast.Name) and s.target.id in st.maps and isinstance(s.op, ast.BitOr):
                part = self.read_map(s.value, st)
                if part is None:
                    st.maps[s.target.id].mark_open(f"merged part `{_short(s.value)}` of unknown content")
                else:
                    st.maps[s.target.id].merge(part)
                return [st]
            self._effects(s.value, st)
            self._weaken_targets([s.target], st)
            return [st]
        if isinstance(s, ast.Delete):
            for t in s.targets:
                if isinstance(t, ast.Subscript) and isinstance(t.value, ast.Name) and t.value.id in st.maps:
                    if isinstance(t.slice, ast.Constant) and isinstance(t.slice.value, str):
                        st.maps[t.value.id].remove(t.slice.value)
                    else:
                        st.maps[t.value.id].mark_open("deletion under a computed key")
                else:
                    self._weaken_targets([t], st)
            return [st]
        if isinstance(s, ast.Expr):
            self._effects(s.value, st)
            return [st]
        # anything else: every mapping it mentions is no longer known
        self._weaken(s, st)
        return [st]

    def _weaken_targets(self, targets: list[ast.expr], st: State) -> None:
        for t in targets:
            for n in ast.walk(t):
                if isinstance(n, ast.Name):
                    if isinstance(n.ctx, (ast.Store, ast.Del)):
                        st.maps.pop(n.id, None)  # rebound to something that is not read
                        st.vals.pop(n.id, None)
                        st.unknown.add(n.id)
                    elif n.id in st.maps:
                        st.maps[n.id].mark_open(f"modified through `{_short(t)}`")

    def _weaken(self, s: ast.stmt, st: State) -> None:
        """A compound statement the reader does not follow exactly: what it stores is unknown afterwards and the
        mappings it modifies keep an open part."""
        for n in walk_no_nested(s):
            if isinstance(n, ast.Name) and isinstance(n.ctx, (ast.Store, ast.Del)):
                if n.id in st.maps:
                    st.maps[n.id].mark_open("rebound inside a loop / try block")
                st.vals.pop(n.id, None)
                st.unknown.add(n.id)
            if isinstance(n, (ast.Subscript, ast.Attribute)) and isinstance(n.ctx, (ast.Store, ast.Del)) and \
                    isinstance(n.value, ast.Name) and n.value.id in st.maps and isinstance(s, (ast.For, ast.While)):
                key = n.slice if isinstance(n, ast.Subscript) else None
                if not (isinstance(key, ast.Constant) and isinstance(key.value, str)):
                    st.maps[n.value.id].mark_open(COMPUTED)

    def _effects(self, e: ast.expr, st: State, top: Optional[ast.expr] = None) -> None:
        """Mutations of known mappings inside an expression, and mappings that escape."""
        if not st.maps:
            return
        parents: dict[int, ast.AST] = {}
        for n in walk_no_nested(e):
            for c in ast.iter_child_nodes(n):
                parents[id(c)] = n
        for n in walk_no_nested(e):
            if not (isinstance(n, ast.Name) and n.id in st.maps and isinstance(n.ctx, ast.Load)):
                continue
            m = st.maps[n.id]
            p = parents.get(id(n))
            if n is top:
                continue
            if isinstance(p, ast.keyword) and p.arg is None:
                continue  # **m
            if isinstance(p, ast.Dict):
                continue  # {**m}
            if isinstance(p, ast.Subscript) and p.value is n and isinstance(p.ctx, ast.Load):
                continue
            if isinstance(p, ast.Compare):
                continue
            if isinstance(p, ast.BinOp) and isinstance(p.op, ast.BitOr):
                continue
            if isinstance(p, ast.Call) and n in p.args and (call_name(p) or "") in COPY_CALLS | {"len", "list", "tuple",
                                                                                                 "sorted", "set"}:
                continue
            if isinstance(p, ast.Attribute) and p.value is n:
                call = parents.get(id(p))
                meth = p.attr
                if isinstance(call, ast.Call) and call.func is p:
                    if meth in READ_ONLY_METHODS:
                        continue
                    if meth == "pop" and call.args and isinstance(call.args[0], ast.Constant) and isinstance(
                            call.args[0].value, str):
                        m.remove(call.args[0].value)
                        continue
                    if meth == "setdefault" and len(call.args) == 2 and isinstance(call.args[0], ast.Constant) and \
                            isinstance(call.args[0].value, str):
                        if call.args[0].value not in m.entries:
                            m.entries[call.args[0].value] = Entry("value", resolve(call.args[1], st),
                                                                  note="default when absent")
                            m.removed.discard(call.args[0].value)
                        continue
                    if meth == "update":
                        part = KwMap()
                        ok = len(call.args) <= 1
                        for a in call.args:
                            got = self.read_map(a, st)
                            if got is None:
                                ok = False
                            else:
                                part.merge(got)
                        kws = self.call_keywords(call, st)
                        part.merge(kws)
                        if not ok:
                            m.mark_open(f"updated with `{_short(call)}` of unknown content")
                        m.merge(part)
                        continue
                    if meth == "clear" and not call.args:
                        for k in list(m.entries):
                            m.remove(k)
                        continue
                    m.mark_open(f"modified by `.{meth}(...)`")
                    continue
                continue  # attribute read
            m.mark_open(f"handed to `{_short(p) if p is not None else '?'}`")


def _short(n: Optional[ast.AST]) -> str:
    if n is None:
        return "?"
    return " ".join(ast.unparse(n).split())[:60]


# ===================================================================================== origins of attributes
def origins(repo: Repo, k: ClassInfo, params: list[str]) -> dict[str, set[str]]:
    """attribute name -> constructor parameters of K its value is computed from in the executed constructor chain."""
    attr: dict[str, set[str]] = {}
    chain = repo.init_chain(k)
    if not chain:
        # dataclass-like: the generated __init__ stores every parameter under its own name
        return {p: {p} for p in params}
    mro = k.mro()
    seen: set[tuple[int, frozenset]] = set()

    def next_init(after: ClassInfo) -> Optional[FuncInfo]:
        idx = mro.index(after) if after in mro else -1
        for c in mro[idx + 1:]:
            g = c.own_method("__init__")
            if g is not None:
                return g
        return None

    def run(f: FuncInfo, incoming: dict[str, set[str]]) -> None:
        key = (id(f), frozenset((a, frozenset(b)) for a, b in incoming.items()))
        if key in seen:
            return
        seen.add(key)
        sn = f.positional_params[0] if f.positional_params else "self"
        taint: dict[str, set[str]] = {a: set(b) for a, b in incoming.items()}

        def tof(e: ast.AST) -> set[str]:
            out: set[str] = set()
            for n in ast.walk(e):
                if isinstance(n, ast.Name) and n.id in taint:
                    out |= taint[n.id]
                elif isinstance(n, ast.Attribute) and isinstance(n.value, ast.Name) and n.value.id == sn:
                    out |= attr.get(n.attr, set())
            return out

        for _ in range(4):
            changed = False
            for n in ast.walk(f.node):
                tgts: list[ast.expr] = []
                val = None
                if isinstance(n, ast.Assign):
                    tgts, val = list(n.targets), n.value
                elif isinstance(n, (ast.AnnAssign, ast.AugAssign)) and n.value is not None:
                    tgts, val = [n.target], n.value
                elif isinstance(n, (ast.For, ast.comprehension)):
                    tgts, val = [n.target], n.iter
                elif isinstance(n, ast.NamedExpr):
                    tgts, val = [n.target], n.value
                if val is None:
                    continue
                t = tof(val)
                if not t:
                    continue
                for tg in tgts:
                    for e in ast.walk(tg):
                        if isinstance(e, ast.Name) and isinstance(e.ctx, ast.Store):
                            if not t <= taint.get(e.id, set()):
                                taint.setdefault(e.id, set()).update(t)
                                changed = True
                        elif isinstance(e, ast.Attribute) and isinstance(e.value, ast.Name) and e.value.id == sn \
                                and isinstance(e.ctx, ast.Store):
                            if not t <= attr.get(e.attr, set()):
                                attr.setdefault(e.attr, set()).update(t)
                                changed = True
            if not changed:
                break
        # base initialisers and helper methods called with tainted arguments
        for n in ast.walk(f.node):
            if not (isinstance(n, ast.Call) and isinstance(n.func, ast.Attribute)):
                continue
            callee: Optional[FuncInfo] = None
            skip_first = False
            recv = n.func.value
            if n.func.attr == "__init__":
                if isinstance(recv, ast.Call) and dotted(recv.func) == "super" and f.cls is not None:
                    callee = next_init(f.cls)
                else:
                    nm = dotted(recv)
                    t = repo.resolve_name(f.module, nm) if nm else None
                    if isinstance(t, ClassInfo):
                        callee = t.find_method("__init__")
                        skip_first = True  # explicit self argument
            elif isinstance(recv, ast.Name) and recv.id == sn:
                callee = k.find_method(n.func.attr)
                if callee is not None and callee.is_property:
                    callee = None
            if callee is None:
                continue
            names = callee.positional_params[1:]
            args = list(n.args)[1:] if skip_first else list(n.args)
            inc: dict[str, set[str]] = {}
            for p, a in zip(names, args):
                if isinstance(a, ast.Starred):
                    break
                t = tof(a)
                if t:
                    inc[p] = t
            for kw in n.keywords:
                if kw.arg is not None:
                    t = tof(kw.value)
                    if t:
                        inc[kw.arg] = t
                else:
                    t = tof(kw.value)
                    if t and callee.node.args.kwarg is not None:
                        inc[callee.node.args.kwarg.arg] = t
            if inc:
                run(callee, inc)

    first = chain[0]
    init_in = {p: {p} for p in params}
    if first.node.args.kwarg is not None:
        init_in.setdefault(first.node.args.kwarg.arg, set())
    for _ in range(2):  # attribute taints feed back into later reads
        seen.clear()
        run(first, init_in)
    return attr


def attr_params(repo: Repo, k: ClassInfo, orig: dict[str, set[str]], name: str, depth: int = 0) -> set[str]:
    """Constructor parameters that `self.<name>` is computed from: a stored attribute directly, a property or
    method through the receiver attributes its body reads."""
    out = set(orig.get(name, set()))
    if depth > 4:
        return out
    m = k.find_method(name)
    if m is not None:
        sn = m.positional_params[0] if m.positional_params else "self"
        for n in ast.walk(m.node):
            if isinstance(n, ast.Attribute) and isinstance(n.value, ast.Name) and n.value.id == sn and \
                    isinstance(n.ctx, ast.Load) and n.attr != name:
                out |= attr_params(repo, k, orig, n.attr, depth + 1)
    return out


def receiver_attrs(e: ast.expr, selfname: str = "self") -> list[str]:
    out = []
    for n in ast.walk(e):
        if isinstance(n, ast.Attribute) and isinstance(n.value, ast.Name) and n.value.id == selfname:
            out.append(n.attr)
        elif isinstance(n, ast.Call) and call_name(n) == "getattr" and len(n.args) >= 2 and isinstance(
                n.args[0], ast.Name) and n.args[0].id == selfname and isinstance(n.args[1], ast.Constant):
            out.append(str(n.args[1].value))
    return out


def classify_value(repo: Repo, k: ClassInfo, orig: dict[str, set[str]], p: str, e: ast.expr, params: list[str],
                   selfname: str = "self", free_ok: frozenset = frozenset()) -> tuple[str, str]:
    """('own', why) the expression is the receiver's value of constructor parameter p;
    ('constant', why) it does not depend on the receiver at all;
    ('crossed', why) it is the receiver's value of other constructor parameters only;
    ('unknown', why) not readable."""
    heads = receiver_attrs(e, selfname)
    if not heads:
        free = {n.id for n in ast.walk(e) if isinstance(n, ast.Name) and isinstance(n.ctx, ast.Load)}
        free -= {selfname}
        mods = [c.module for c in k.mro()]
        opaque = {x for x in free if not _is_global(mods, x)}
        if selfname in {n.id for n in ast.walk(e) if isinstance(n, ast.Name)}:
            return "unknown", f"`{_short(e)}` uses the receiver as a whole"
        if opaque - set(free_ok):
            return "unknown", f"`{_short(e)}` depends on {sorted(opaque)} whose value is not read"
        return "constant", f"`{_short(e)}` does not depend on the receiver"
    if any(h in (p, "_" + p) for h in heads):
        return "own", f"reads self.{p}"
    got: dict[str, set[str]] = {}
    for h in heads:
        got[h] = attr_params(repo, k, orig, h)
    union = set().union(*got.values()) if got else set()
    if p in union:
        h = next(h for h in heads if p in got[h])
        return "own", f"self.{h} is computed from the constructor's `{p}`"
    union &= set(params)
    if not union or any(not (got[h] & set(params)) for h in heads):
        return "unknown", f"`{_short(e)}`: the relation of {', '.join('self.' + h for h in sorted(set(heads)))} to " \
                          f"the constructor parameter `{p}` is not readable"
    return "crossed", f"`{_short(e)}` is the receiver's {', '.join('`' + q + '`' for q in sorted(union))}"


def _is_global(mods, name: str) -> bool:
    import builtins

    if hasattr(builtins, name):
        return True
    return any(name in m.classes or name in m.functions or name in m.imports or name in m.assigns for m in mods)
