"""List accounting: how many entries does every pass of a loop add to a result list, and which loop operand does
each loop variable walk over.

Shared by C29 (one axis-metadata entry per array dimension after indexing) and C30 (every array object of a list is
written and read back, array k together with metadata k).

  body_paths(stmts, relevant)   the control paths through a statement list (if/else arms, try/except arms, with),
                                each as (conditions, executed simple statements, how it ends).  A path that ends in
                                `raise` produces no result and is dropped by the callers.  Statements are atomic: a
                                statement of a `try` body that raises has had no effect on the tracked variables
                                (its operands are evaluated before the list is touched).
  growth(st, var)               what one simple statement does to the list `var`:
                                ("add", [elements]) for  var += [e..] / var.append(e) / var = var + [e..] / [*var, e]
                                ("insert", position, element), ("bulk", expression) for var += X / var.extend(X),
                                ("other", node) for anything else that rebinds or mutates it.
  step(st, var)                 constant increment of an integer counter by one simple statement (None: untouched).
  pairing(target, iter)         loop variable -> ("elem", operand) | ("index", operand, start) for loops and
                                comprehensions over zip(..) / enumerate(..) / a plain iterable.

Nothing here looks at variable *names*: variables are identified by the operand they iterate over or by dataflow.
"""
from __future__ import annotations

import ast
from typing import Callable, Optional

from ..model import AnalysisError, dotted, norm_text, walk_no_nested

MAX_PATHS = 256

Path = tuple  # (conds: tuple[(test, bool) | ("raised", stmt)], executed: tuple[ast.stmt], end: None|str)


def _mentions(st: ast.AST, relevant: Callable[[ast.stmt], bool]) -> bool:
    return any(isinstance(s, ast.stmt) and relevant(s) for s in ast.walk(st))


def body_paths(stmts: list[ast.stmt], relevant: Callable[[ast.stmt], bool]) -> list[Path]:
    results: list[Path] = [((), (), None)]
    for st in stmts:
        new: list[Path] = []
        for conds, ex, end in results:
            if end is not None:
                new.append((conds, ex, end))
                continue
            for c2, e2, end2 in _stmt_paths(st, relevant):
                new.append((conds + c2, ex + e2, end2))
        if len(new) > MAX_PATHS:
            raise AnalysisError("too many control paths through a loop body")
        results = new
    return results


def _stmt_paths(st: ast.stmt, relevant) -> list[Path]:
    if isinstance(st, ast.If):
        out = [(((st.test, True),) + c, e, end) for c, e, end in body_paths(st.body, relevant)]
        out += [(((st.test, False),) + c, e, end) for c, e, end in body_paths(st.orelse, relevant)]
        return out
    if isinstance(st, ast.With):
        return body_paths(st.body, relevant)
    if isinstance(st, ast.Try):
        out: list[Path] = []
        fin = st.finalbody
        for c, e, end in body_paths(st.body, relevant):
            if end is None and st.orelse:
                for c2, e2, end2 in body_paths(st.orelse, relevant):
                    out.append((c + c2, e + e2, end2))
            else:
                out.append((c, e, end))
        if st.handlers:
            for k, raising in enumerate(st.body):
                if not isinstance(raising, (ast.Assign, ast.AugAssign, ast.AnnAssign, ast.Expr, ast.Return, ast.Assert,
                                            ast.Raise, ast.Delete, ast.Pass, ast.Import, ast.ImportFrom)):
                    if _mentions(raising, relevant):
                        raise AnalysisError("a compound statement inside a try body changes a tracked variable")
                for c, e, end in body_paths(st.body[:k], relevant):
                    if end is not None:
                        continue
                    for h in st.handlers:
                        for c2, e2, end2 in body_paths(h.body, relevant):
                            out.append((c + (("raised", raising),) + c2, e + e2, end2))
        if fin:
            out2 = []
            for c, e, end in out:
                for c2, e2, end2 in body_paths(fin, relevant):
                    out2.append((c + c2, e + e2, end2 if end2 is not None else end))
            out = out2
        return out
    if isinstance(st, (ast.For, ast.While)):
        if _mentions(st, relevant):
            raise AnalysisError("a nested loop changes a tracked variable")
        return [((), (st,), None)]
    if isinstance(st, ast.Return):
        return [((), (st,), "return")]
    if isinstance(st, ast.Raise):
        return [((), (st,), "raise")]
    if isinstance(st, ast.Continue):
        return [((), (), "continue")]
    if isinstance(st, ast.Break):
        return [((), (), "break")]
    if isinstance(st, (ast.Match,)) or type(st).__name__.startswith("Async"):
        raise AnalysisError(f"unsupported statement {type(st).__name__}")
    return [((), (st,), None)]


# ---------------------------------------------------------------------- effects of simple statements
_LIST_MUTATORS = {"append", "extend", "insert", "pop", "remove", "clear", "sort", "reverse"}


def _list_display_elts(e: ast.AST) -> Optional[list[ast.expr]]:
    if isinstance(e, (ast.List, ast.Tuple)) and not any(isinstance(x, ast.Starred) for x in e.elts):
        return list(e.elts)
    return None


def growth(st: ast.stmt, var: str) -> list[tuple]:
    """Effects of one *simple* statement on the list variable `var` (see module docstring)."""
    out: list[tuple] = []
    if isinstance(st, ast.AugAssign) and isinstance(st.target, ast.Name) and st.target.id == var:
        if not isinstance(st.op, ast.Add):
            return [("other", st)]
        elts = _list_display_elts(st.value)
        return [("add", elts)] if elts is not None else [("bulk", st.value)]
    if isinstance(st, (ast.Assign, ast.AnnAssign)):
        targets = st.targets if isinstance(st, ast.Assign) else [st.target]
        value = st.value
        for t in targets:
            if isinstance(t, ast.Name) and t.id == var:
                if value is None:
                    continue
                if isinstance(value, ast.BinOp) and isinstance(value.op, ast.Add) and isinstance(value.left, ast.Name) \
                        and value.left.id == var:
                    elts = _list_display_elts(value.right)
                    out.append(("add", elts) if elts is not None else ("bulk", value.right))
                elif isinstance(value, ast.List) and value.elts and isinstance(value.elts[0], ast.Starred) and \
                        isinstance(value.elts[0].value, ast.Name) and value.elts[0].value.id == var and \
                        not any(isinstance(x, ast.Starred) for x in value.elts[1:]):
                    out.append(("add", list(value.elts[1:])))
                else:
                    out.append(("other", st))
            elif any(isinstance(n, ast.Name) and n.id == var for n in ast.walk(t)):
                out.append(("other", st))  # var[k] = ..., var[a:b] = ...
    if isinstance(st, ast.Delete) and any(isinstance(n, ast.Name) and n.id == var for t in st.targets for n in ast.walk(t)):
        out.append(("other", st))
    for c in walk_no_nested(st):
        if isinstance(c, ast.Call) and isinstance(c.func, ast.Attribute) and isinstance(c.func.value, ast.Name) and \
                c.func.value.id == var and c.func.attr in _LIST_MUTATORS:
            if c.func.attr == "append" and len(c.args) == 1 and not c.keywords:
                out.append(("add", [c.args[0]]))
            elif c.func.attr == "extend" and len(c.args) == 1 and not c.keywords:
                elts = _list_display_elts(c.args[0])
                out.append(("add", elts) if elts is not None else ("bulk", c.args[0]))
            elif c.func.attr == "insert" and len(c.args) == 2 and not c.keywords:
                out.append(("insert", c.args[0], c.args[1]))
            else:
                out.append(("other", c))
    return out


def count_added(executed, var: str) -> tuple[int, list[ast.expr]]:
    """(number of entries, the entries) a path adds to `var`; bulk/other effects are outside the count."""
    n, elts = 0, []
    for st in executed:
        for g in growth(st, var):
            if g[0] == "add":
                n += len(g[1])
                elts += g[1]
            elif g[0] == "insert":
                n += 1
                elts.append(g[2])
            else:
                raise AnalysisError(f"`{norm_text(st)[:60]}` changes the result list in a way the analyser does not count")
    return n, elts


def step(st: ast.stmt, var: str) -> Optional[object]:
    """Constant increment `var += c` / `var = var + c` / `var = c + var` (int), "other" for any other definition."""
    if isinstance(st, ast.AugAssign) and isinstance(st.target, ast.Name) and st.target.id == var:
        c = _int_const(st.value)
        if c is not None and isinstance(st.op, (ast.Add, ast.Sub)):
            return c if isinstance(st.op, ast.Add) else -c
        return "other"
    if isinstance(st, ast.Assign) and any(isinstance(n, ast.Name) and n.id == var for t in st.targets for n in ast.walk(t)):
        v = st.value
        if len(st.targets) == 1 and isinstance(st.targets[0], ast.Name) and isinstance(v, ast.BinOp) and \
                isinstance(v.op, (ast.Add, ast.Sub)):
            if isinstance(v.left, ast.Name) and v.left.id == var and _int_const(v.right) is not None:
                return _int_const(v.right) if isinstance(v.op, ast.Add) else -_int_const(v.right)
            if isinstance(v.op, ast.Add) and isinstance(v.right, ast.Name) and v.right.id == var and \
                    _int_const(v.left) is not None:
                return _int_const(v.left)
        return "other"
    for n in walk_no_nested(st):
        if isinstance(n, ast.NamedExpr) and isinstance(n.target, ast.Name) and n.target.id == var:
            return "other"
    return None


def count_steps(executed, var: str) -> int:
    total = 0
    for st in executed:
        s = step(st, var)
        if s == "other":
            raise AnalysisError(f"`{norm_text(st)[:60]}` redefines the counter `{var}` in a way the analyser does not follow")
        if s is not None:
            total += s
    return total


def _int_const(e: ast.AST) -> Optional[int]:
    if isinstance(e, ast.Constant) and isinstance(e.value, int) and not isinstance(e.value, bool):
        return e.value
    if isinstance(e, ast.UnaryOp) and isinstance(e.op, ast.USub):
        v = _int_const(e.operand)
        return -v if v is not None else None
    return None


# ---------------------------------------------------------------------- loop variable <-> operand
def strip_seq(e: ast.AST) -> ast.AST:
    while isinstance(e, ast.Call) and dotted(e.func) in ("tuple", "list", "iter") and len(e.args) == 1 and not e.keywords:
        e = e.args[0]
    return e


def pairing(target: ast.AST, it: ast.AST) -> dict[str, tuple]:
    """Loop variable name -> ("elem", operand) | ("index", operand, start expression or None)."""
    out: dict[str, tuple] = {}
    it = strip_seq(it)
    if isinstance(it, ast.Call) and dotted(it.func) == "zip" and not it.keywords and \
            not any(isinstance(a, ast.Starred) for a in it.args):
        if not (isinstance(target, (ast.Tuple, ast.List)) and len(target.elts) == len(it.args)):
            raise AnalysisError(f"loop target `{norm_text(target)}` does not unpack `{norm_text(it)[:60]}`")
        for t, a in zip(target.elts, it.args):
            out.update(pairing(t, a))
        return out
    if isinstance(it, ast.Call) and dotted(it.func) == "enumerate" and it.args and \
            not isinstance(it.args[0], ast.Starred):
        if not (isinstance(target, (ast.Tuple, ast.List)) and len(target.elts) == 2 and
                isinstance(target.elts[0], ast.Name)):
            raise AnalysisError(f"loop target `{norm_text(target)}` does not unpack `{norm_text(it)[:60]}`")
        start = it.args[1] if len(it.args) > 1 else next((k.value for k in it.keywords if k.arg == "start"), None)
        out[target.elts[0].id] = ("index", strip_seq(it.args[0]), start)
        out.update(pairing(target.elts[1], it.args[0]))
        return out
    if isinstance(target, ast.Name):
        out[target.id] = ("elem", it)
        return out
    if isinstance(target, (ast.Tuple, ast.List)):
        # elements of an iterable of tuples: positions of the tuple
        for k, t in enumerate(target.elts):
            if isinstance(t, ast.Name):
                out[t.id] = ("field", it, k)
            else:
                raise AnalysisError(f"nested loop target `{norm_text(target)}`")
        return out
    raise AnalysisError(f"loop target `{norm_text(target)}` not understood")


def polarity(conds, pred: Callable[[ast.AST], Optional[bool]]):
    """Truth value a path assigns to the (unique kind of) test recognised by `pred`.

    pred(test) -> True if `test` *is* the property, False if it is its negation, None if unrelated.  The path's
    conditions are (test, taken); returns None if the path never evaluates such a test and "infeasible" if the
    path would need the property to be true and false at once."""
    val = None
    for c in conds:
        if c[0] == "raised":
            continue
        test, taken = c
        p = pred(test)
        if p is None:
            continue
        v = (p == taken)
        if val is not None and val != v:
            return "infeasible"  # the path takes the same test both ways
        val = v
    return val


def strip_not(test: ast.AST) -> tuple[ast.AST, bool]:
    pos = True
    while isinstance(test, ast.UnaryOp) and isinstance(test.op, ast.Not):
        test, pos = test.operand, not pos
    return test, pos
