"""Linearity of a kernel's returned array in the ensemble weights handed out by `_unpack_distributions`.

`values, weights = _unpack_distributions(*parameters, shape=..., xp=...)` returns the parameter values broadcast along
one new axis per distribution and the product of the distributions' weights broadcast the same way.  Member i of the
array a kernel returns has to be  weight_i x (the array of the scalar value i): the returned term, brought into the
polynomial normal form of sa/terms.py on every path (sa/rules/symx.py), carries the weights as an outer factor of
degree one in every monomial, and the weights occur nowhere inside the argument of another construct.

Nothing here depends on the names of locals: the weights are identified by their origin (second element of the value of
the `_unpack_distributions` call, by destructuring, through a temporary, or by a constant subscript).
"""
from __future__ import annotations

import ast
from dataclasses import dataclass, field
from typing import Optional

from ..model import AnalysisError, FuncInfo, dotted, last_attr, norm_text, walk_no_nested
from ..terms import Poly, is_array_module
from .symx import SymExec

UNPACK = "_unpack_distributions"
U = "⟦unpack⟧"  # value of the call
W_FORMS = (f"(1*{U})#1", f"{U}[1]", f"{U}[-1]")  # its second element
V_FORMS = (f"(1*{U})#0", f"{U}[0]", f"{U}[-2]")  # its first element (the values)
DONE = "⟦unpacked-on-this-path⟧"

# host/device transport and elementwise products: linear, handled as identities / products
TRANSPORT = {"asnumpy", "conj", "conjugate"}
PRODUCT = {"multiply"}
# calls that are not linear in their argument
NONLINEAR = {"complex_exponential", "exp", "expm1", "exp2", "log", "log2", "log10", "log1p", "sqrt", "cbrt", "abs",
             "absolute", "fabs", "power", "pow", "float_power", "square", "cos", "sin", "tan", "cosh", "sinh", "tanh",
             "arccos", "arcsin", "arctan", "arctan2", "angle", "sign", "sinc", "reciprocal", "divide", "true_divide",
             "hypot", "maximum", "minimum", "clip", "floor", "ceil", "round", "rint", "mod", "fmod", "erf", "erfc"}


def unpack_calls(f: FuncInfo) -> list[ast.Call]:
    return [c for c in walk_no_nested(f.node) if isinstance(c, ast.Call) and last_attr(c) == UNPACK]


def _is_w(atom: str) -> bool:
    return atom in W_FORMS


def _is_carrier(atom: str) -> bool:
    """the weights themselves or an indexed / re-shaped view of them (indexing is linear)"""
    return _is_w(atom) or any(atom.startswith(w + "[") for w in W_FORMS)


def _mentions_w(atom: str) -> bool:
    return any(w in atom for w in W_FORMS)


def _strip_known(atom: str) -> str:
    for s in W_FORMS + V_FORMS:
        atom = atom.replace(s, "")
    return atom


@dataclass
class Verdict:
    kind: str  # "linear" | "discarded" | "violation"
    problems: list[tuple[str, str, ast.AST]] = field(default_factory=list)  # (key detail, text, node)
    n_paths: int = 0
    n_exempt: int = 0
    detail: str = ""


def _weights_binding(f: FuncInfo, call: ast.Call) -> Optional[str]:
    """Name the weights are first bound to, '' when they are read by a subscript only, None when nothing ever reads
    the second element of the call's value."""
    par = {}
    for p in ast.walk(f.node):
        for c in ast.iter_child_nodes(p):
            par[id(c)] = p
    st = par.get(id(call))
    loads = lambda name: [x for x in walk_no_nested(f.node) if isinstance(x, ast.Name) and x.id == name
                          and isinstance(x.ctx, ast.Load)]
    if isinstance(st, ast.Subscript) and st.value is call:
        s = st.slice
        i = s.value if isinstance(s, ast.Constant) else (
            -s.operand.value if isinstance(s, ast.UnaryOp) and isinstance(s.op, ast.USub) and isinstance(
                s.operand, ast.Constant) else None)
        if i in (0, -2):
            return None
        if i in (1, -1):
            return ""
        raise AnalysisError(f"{f.qualname}: subscript `{norm_text(st)[:60]}` of the unpacked pair not recognised")
    if not isinstance(st, ast.Assign) or len(st.targets) != 1:
        raise AnalysisError(f"{f.qualname}: the value of {UNPACK}(...) is neither assigned nor subscripted")
    tg = st.targets[0]
    if isinstance(tg, (ast.Tuple, ast.List)):
        if len(tg.elts) != 2 or not isinstance(tg.elts[1], ast.Name):
            raise AnalysisError(f"{f.qualname}: `{norm_text(tg)} = {UNPACK}(...)` is not a (values, weights) pair")
        name = tg.elts[1].id
        return name if loads(name) else None
    if isinstance(tg, ast.Name):
        # the pair kept in a temporary: the weights are read when the temporary is destructured or indexed with 1 / -1
        for x in loads(tg.id):
            p = par.get(id(x))
            if isinstance(p, ast.Subscript) and p.value is x:
                s = p.slice
                i = s.value if isinstance(s, ast.Constant) else (
                    -s.operand.value if isinstance(s, ast.UnaryOp) and isinstance(s.op, ast.USub) and isinstance(
                        s.operand, ast.Constant) else None)
                if i in (1, -1):
                    return ""
                if i in (0, -2):
                    continue
                raise AnalysisError(f"{f.qualname}: subscript `{norm_text(p)[:60]}` of the unpacked pair not recognised")
            if isinstance(p, ast.Assign) and p.value is x and isinstance(p.targets[0], (ast.Tuple, ast.List)) and \
                    len(p.targets[0].elts) == 2 and isinstance(p.targets[0].elts[1], ast.Name):
                name = p.targets[0].elts[1].id
                if loads(name):
                    return name
                continue
            raise AnalysisError(f"{f.qualname}: use `{norm_text(p)[:60]}` of the unpacked pair not recognised")
        return None
    raise AnalysisError(f"{f.qualname}: target `{norm_text(tg)}` of {UNPACK}(...) not recognised")


def decide(f: FuncInfo) -> Verdict:
    """Decide the linearity of everything `f` returns after its single `_unpack_distributions` call."""
    calls = unpack_calls(f)
    if len(calls) != 1:
        raise AnalysisError(f"{f.qualname}: {len(calls)} {UNPACK} calls (one expected)")
    call = calls[0]
    bound = _weights_binding(f, call)
    if bound is None:
        if any(isinstance(a, ast.Attribute) and a.attr == "weights" and isinstance(a.ctx, ast.Load)
               for a in walk_no_nested(f.node)):
            raise AnalysisError(f"{f.qualname}: the weights of {UNPACK} are not read but `.weights` is read directly: "
                                "not modelled")
        return Verdict("discarded", [("discarded", "", call)])

    wtests: dict[int, set[str]] = {}

    def test_class(t: ast.expr, env: dict) -> str:
        """'isnone' / 'isnotnone' when `t` is `<weights> is [not] None`; 'other' when it mentions the weights in
        another way; '' when it does not mention them."""
        sx_norm = lambda e: sx.norm(e, env)
        neg = False
        while isinstance(t, ast.UnaryOp) and isinstance(t.op, ast.Not):
            t, neg = t.operand, not neg
        if isinstance(t, ast.Compare) and len(t.ops) == 1 and isinstance(t.ops[0], (ast.Is, ast.IsNot)):
            a, b = t.left, t.comparators[0]
            for x, y in ((a, b), (b, a)):
                if isinstance(y, ast.Constant) and y.value is None:
                    p = sx_norm(x)
                    if p.is_monomial() and list(p.terms.values()) == [1] and len(next(iter(p.terms))) == 1 and \
                            _is_carrier(next(iter(p.terms))[0][0]) and next(iter(p.terms))[0][1] == 1:
                        is_none = isinstance(t.ops[0], ast.Is) != neg
                        return "isnone" if is_none else "isnotnone"
        for n in ast.walk(t):
            if isinstance(n, (ast.Name, ast.Attribute)) and dotted(n) is not None:
                p = sx_norm(n)
                if any(_mentions_w(a) or U in a for a in p.atoms()):
                    return "other"
        return ""

    def policy(st: ast.If, env: dict) -> str:
        c = test_class(st.test, env)
        wtests.setdefault(id(st.test), set()).add(c)
        return "both"

    def hook(nz, c: ast.Call):
        s = last_attr(c)
        if s == UNPACK:
            return Poly.atom(U)
        if s in TRANSPORT:
            module_call = isinstance(c.func, ast.Name) or (
                isinstance(c.func, ast.Attribute) and isinstance(c.func.value, ast.Name)
                and (is_array_module(c.func.value.id) or nz._is_module_local(c.func.value.id)))
            if module_call and c.args:
                return nz.norm(c.args[0])  # cp.asnumpy(x), xp.conj(x)
            if not module_call and isinstance(c.func, ast.Attribute) and not c.args:
                return nz.norm(c.func.value)  # x.conj()
        if s in PRODUCT and len(c.args) == 2:
            return nz.norm(c.args[0]) * nz.norm(c.args[1])
        return None

    def on_stmt(st, env, conds):
        if any(x is call for x in ast.walk(st)) and not isinstance(st, (ast.If, ast.For, ast.While, ast.With, ast.Try)):
            env[DONE] = Poly.const(1)
        elif any(x is call for x in ast.walk(st)) and isinstance(st, (ast.For, ast.While, ast.With, ast.Try)):
            raise AnalysisError(f"{f.qualname}: {UNPACK} is called inside a loop/with/try")

    fresh = [0]

    def after_bind(name: str, val: Poly):
        """A bound value that is free of the weights is kept as one opaque atom (the analysis projects the normal form
        onto the weights; the weight-free cofactors need not be expanded on each of the paths)."""
        if val.is_const() or any(_mentions_w(a) or U in _strip_known(a) for a in val.atoms()):
            return None
        if val.is_monomial() and len(next(iter(val.terms))) == 1:
            return None
        fresh[0] += 1
        return Poly.atom(f"⟦{name}·{fresh[0]}⟧")

    sx = SymExec(f.node, policy=policy, call_hook=hook, on_stmt=on_stmt, after_bind=after_bind, max_paths=2048)
    results = sx.run()
    v = Verdict("linear")
    seen: set[tuple[str, str]] = set()

    def add(detail: str, text: str, node: ast.AST) -> None:
        if (detail, text) not in seen:
            seen.add((detail, text))
            v.problems.append((detail, text, node))

    n_after = 0
    for r in results:
        if DONE not in r.env:
            v.n_exempt += 1  # returned before the distributions were unpacked
            continue
        if r.value is None:
            raise AnalysisError(f"{f.qualname}: `return` without a value after {UNPACK}")
        n_after += 1
        classes = []
        for t, taken in r.conds:
            cs = wtests.get(id(t), {""})
            if len(cs) != 1:
                raise AnalysisError(f"{f.qualname}: the test `{norm_text(t)[:60]}` reads the weights on some paths only")
            c = next(iter(cs))
            if c == "isnone":
                classes.append("absent" if taken else "present")
            elif c == "isnotnone":
                classes.append("present" if taken else "absent")
            elif c == "other":
                classes.append("other")
        if "absent" in classes and "present" in classes:
            continue  # infeasible path
        for a in r.value.atoms():
            if U in _strip_known(a):
                raise AnalysisError(f"{f.qualname}: the unpacked pair as a whole flows into the returned value "
                                    f"(`{a[:60]}`): not modelled")
        if "absent" in classes:
            v.n_exempt += 1  # the path on which there are no weights
            continue
        v.n_paths += 1
        # ---- the returned term
        inside = sorted(a for a in r.value.atoms() if _mentions_w(a) and not _is_carrier(a))
        for a in inside:
            fn = a.split("(", 1)[0] if "(" in a and not a.startswith("(") else ""
            short = fn.split(".")[-1]
            if a.startswith(("cos⟨", "sin⟨")):
                short = a[:3]
            if short in NONLINEAR or a.startswith(("pow(", "(")):
                what = f"`{short}(...)`" if short else "a power / quotient"
                add("nonlinear", f"the weights occur inside the argument of {what}", r.stmt)
            else:
                raise AnalysisError(f"{f.qualname}: the weights flow into `{a[:70]}`, a construct whose linearity is "
                                    "not modelled")
        if inside:
            continue
        degs = set()
        for m in r.value.terms:
            cs = [(a, e) for a, e in m if _is_carrier(a)]
            degs.add(sum(e for _, e in cs) if cs else 0)
        if not r.value.terms:
            degs.add(0)
        if degs == {1}:
            continue
        if "other" in classes:
            raise AnalysisError(f"{f.qualname}: a path guarded by an unrecognised test of the weights returns a value "
                                "that is not linear in them")
        if degs == {0}:
            add("dropped", "a path returns a value that does not contain the weights", r.stmt)
        elif 0 in degs:
            add("dropped", "some terms of the returned value do not carry the weights", r.stmt)
        else:
            d = sorted(degs - {1})[0]
            add("nonlinear", f"the returned value carries the weights to the power {d}", r.stmt)
    if n_after == 0:
        raise AnalysisError(f"{f.qualname}: no return after {UNPACK} found")
    if v.problems:
        v.kind = "violation"
    return v
