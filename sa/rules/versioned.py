"""Version-aware term normaliser.

`FlowNormalizer` turns a name it cannot inline into the bare atom `name`, so two *different* values of
a re-assigned variable (e.g. `array` before and after a transform) collapse into one atom.
`VersionedNormalizer` tags such atoms with the set of definitions that reach the point of evaluation:

    name@param            only the parameter definition reaches
    name@L<k>             one non-inlinable definition (k = ordinal of the defining CFG node among the
                          definitions of that name, in CFG order — stable under unrelated edits)
    name@L<j>|L<k>|param  several definitions reach (join)

Weak definitions (subscript stores, `x += ...`, mutating method calls) do not create a new version: the
object is the same, only its content changed.  Attribute chains on a local (`array.shape`) are
versioned through their root name.
"""
from __future__ import annotations

import ast
from typing import Optional

from ..model import dotted
from ..terms import PI, FlowNormalizer, Poly, is_array_module


class VersionedNormalizer(FlowNormalizer):
    def __init__(self, df, node_idx: int, strip_modules: bool = True, **kw):
        super().__init__(df, node_idx, **kw)
        self._ordinals: dict[str, dict[int, int]] = {}

    # ------------------------------------------------------------------ versions
    def _ordinal(self, name: str, node: int) -> int:
        tab = self._ordinals.get(name)
        if tab is None:
            nodes = sorted({d.node for d in self.df.defs if d.var == name and d.strong and d.kind != "param"})
            tab = {n: i + 1 for i, n in enumerate(nodes)}
            self._ordinals[name] = tab
        return tab.get(node, 0)

    def version(self, name: str, at: Optional[int] = None) -> str:
        at = self._at[-1] if at is None else at
        rd = [d for d in self.df.reaching(at, name) if d.strong]
        if not rd:
            return ""
        tags = sorted({"param" if d.kind == "param" else f"L{self._ordinal(name, d.node)}" for d in rd})
        return "|".join(tags)

    def _versions_exist(self, name: str) -> bool:
        return sum(1 for d in self.df.defs if d.var == name and d.strong) > 1

    def atom(self, name: str) -> Poly:
        base = name.split(".")[0] if not name.startswith("self.") else name
        if self._versions_exist(base):
            v = self.version(base)
            if v:
                rest = name[len(base):]
                return Poly.atom(f"{self.alias.get(base, base)}@{v}{rest}")
        return Poly.atom(self.alias.get(name, name))

    # ------------------------------------------------------------------ attribute chains on locals
    def norm(self, n: ast.AST) -> Poly:
        if isinstance(n, ast.Attribute):
            d = dotted(n)
            if n.attr == "pi":
                return Poly.atom(PI)  # <any array module alias>.pi
            if d is not None and not d.startswith("self."):
                root, _, rest = d.partition(".")
                if self.df.reaching(self._at[-1], root):
                    if self.df.reaching(self._at[-1], d):
                        return self._name(d)
                    base = self._name(root)
                    k = base.key()
                    k = k[2:] if k.startswith("1*") else k
                    if len(base.terms) == 1 and len(next(iter(base.terms))) == 1 and not k.startswith("("):
                        return Poly.atom(f"{k}.{rest}")
                    return Poly.atom(f"({k}).{rest}")
        return super().norm(n)


_ARRAY_MODULES = {"np", "xp", "cp", "numpy", "cupy", "da", "math", "scipy"}


class CanonNormalizer(VersionedNormalizer):
    """VersionedNormalizer whose opaque call atoms are canonical across array modules:
    `xp.exp(x)`, `np.exp(x)`, `cp.exp(x)` -> `exp(<x>)`;  `np.fft.fft2` -> `fft2`;
    `abs(x)` / `xp.abs(x)` / `np.absolute(x)` -> `abs(<+-x sign-normalised>)`.
    `zero_calls`: functions f with f(0) == 0 (mean, sum, abs ...) collapse on a zero argument.
    `rewrite`: optional map atom-name -> Poly applied to every atom produced for a call."""

    ZERO_PRESERVING = {"mean", "sum", "abs", "absolute", "square", "nanmean", "nansum", "real", "imag", "conj",
                       "conjugate", "sqrt", "fft2", "ifft2", "fftn", "ifftn", "asarray"}

    def __init__(self, df, node_idx: int, rewrite=None, **kw):
        super().__init__(df, node_idx, **kw)
        self.rewrite = rewrite or {}

    def canon_callee(self, func: ast.AST) -> str:
        d = dotted(func)
        if d is None:
            return self.opaque(func)
        parts = d.split(".")
        if len(parts) > 1 and (parts[0] in _ARRAY_MODULES or is_array_module(parts[0])
                               or self._is_module_local(parts[0])):
            return parts[-1]
        return d

    def _call(self, n: ast.Call) -> Poly:
        fn = self.canon_callee(n.func)
        if fn in ("abs", "absolute") and len(n.args) == 1 and not n.keywords:
            p = self.norm(n.args[0])
            if p.is_zero():
                return p
            lead = sorted(p.terms, key=lambda m: [(a, float(e)) for a, e in m])[0]
            if p.terms[lead] < 0:
                p = -p
            return self._rw(f"abs({p.key()})")
        if fn in self.ZERO_PRESERVING and n.args and self.norm(n.args[0]).is_zero():
            return Poly()
        return super()._call(n)

    def _rw(self, atom: str) -> Poly:
        if atom in self.rewrite:
            return self.rewrite[atom]
        return Poly.atom(atom)

    def opaque(self, n: ast.AST) -> str:
        if isinstance(n, ast.Call):
            fn = self.canon_callee(n.func)
            args = [self.norm(a).key() for a in n.args if not isinstance(a, ast.Starred)]
            args += [f"*{ast.unparse(a.value)}" for a in n.args if isinstance(a, ast.Starred)]
            kws = sorted(f"{k.arg}={self.norm(k.value).key()}" for k in n.keywords if k.arg)
            return f"{fn}({','.join(args + kws)})"
        return super().opaque(n)

    def norm(self, n: ast.AST) -> Poly:
        p = super().norm(n)
        if self.rewrite and isinstance(n, ast.Call):
            p = p.subst(self.rewrite) if all(e.denominator == 1 for m in p.terms for _, e in m) else p
        return p
