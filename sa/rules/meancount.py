"""R-MEANCOUNT — the normalising count of an ensemble mean equals the number of accumulated configurations.

A site is an in-place accumulation (`T += x`, `T -= x`, `T = T + x`, with T an array slot or a variable) that
executes inside a loop on paths on which an `_ensemble_mean` flag was tested true.  The *configuration loop* of the
site is the innermost enclosing loop across whose iterations the accumulated object persists: loops whose own
element is the accumulator (`for m, new in zip(measurements, new_measurements)`) or whose variable selects the
slot that is written enumerate the accumulators and are skipped; the first loop that is entered with the
accumulator already defined outside of it adds to the same object once per iteration.

Two forms are read:

* sum, then divide — `T += x` (x free of T).  After the configuration loop the same accumulator (same container,
  same access path) is divided in place exactly once, by a *count*: a variable that is 0 when the loop is
  entered and incremented by exactly one on every path through one iteration, directly in the body of the
  configuration loop (not in a nested loop, not in a branch) — or `len(<the sequence the loop iterates>)`.  The
  division may be skipped only where a test on the same count shows that it is at most one.
* running mean — `T += (x - T) / n` (recognised modulo ring axioms and temporaries).  Where n is read it must equal
  the 1-based iteration number: (initial value) + (increments executed in this iteration before the read) == 1 on
  every path, one increment per iteration, again directly in the body of the configuration loop; or n is `k + 1`
  for the `enumerate` counter k of the configuration loop.  No further division of the accumulator after the loop.

Everything else the analyser cannot read is an AnalysisError.  Nothing here depends on the names of locals.
"""
from __future__ import annotations

import ast
from typing import Optional

from ..cfg import DataFlow
from ..model import AnalysisError, call_name, norm_text, walk_no_nested
from ..terms import FlowNormalizer, Poly
from .pathfacts import necessary_facts

RULE = "R-MEANCOUNT"
MEAN_FLAGS = ("_ensemble_mean", "ensemble_mean")
TEXT = ("wherever an ensemble mean is formed by accumulating into the same array once per configuration (an in-place "
        "`+=` under a true `_ensemble_mean` test inside a loop; the configuration loop is the innermost loop across "
        "whose iterations the accumulated object persists), the normalising count equals the number of accumulated "
        "configurations.  Sum-then-divide: after the loop the same accumulator is divided in place exactly once by a "
        "counter that is 0 before the loop and incremented by exactly one on every path through an iteration, "
        "directly in the body of the configuration loop (or by len(<the iterated sequence>)); the division may be "
        "skipped only where a test on that count shows it is <= 1.  Running mean `m += (x - m) / n`: n equals the "
        "1-based iteration number where it is read, and nothing divides the accumulator again.  A count that advances "
        "per detector, twice per configuration, only in some iterations, from 1, or a missing division gives "
        "sum/N' with N' != N: not the mean of the independent per-configuration runs")


# ---------------------------------------------------------------------------------------------- small readers
def _full_slice(s: ast.AST) -> bool:
    if isinstance(s, ast.Slice):
        return s.lower is None and s.upper is None and s.step is None
    if isinstance(s, ast.Constant) and s.value is Ellipsis:
        return True
    if isinstance(s, ast.Tuple):
        return bool(s.elts) and all(_full_slice(e) for e in s.elts)
    return False


class _Step:
    """One step of an access path: an attribute, a subscript, or `element of` (an enumerating loop)."""

    def __init__(self, text: str, index: Optional[ast.AST] = None, at: int = -1):
        self.text, self.index, self.at = text, index, at


def _access(expr: ast.AST, at: int):
    """(root variable, [steps]) of `root.a[k].b[:]`; full slices are identity views and are dropped."""
    steps: list[_Step] = []
    e = expr
    while True:
        if isinstance(e, ast.Attribute):
            steps.append(_Step("." + e.attr))
            e = e.value
        elif isinstance(e, ast.Subscript):
            if not _full_slice(e.slice):
                steps.append(_Step("[" + norm_text(e.slice) + "]", e.slice, at))
            e = e.value
        else:
            break
    if not isinstance(e, ast.Name):
        return None
    return e.id, list(reversed(steps))


def _iter_source(tgt: ast.AST, it: ast.AST, var: str) -> Optional[ast.AST]:
    """The sequence whose element is bound to `var` by `for <tgt> in <it>` (through enumerate / zip)."""
    if isinstance(tgt, ast.Name):
        return it if tgt.id == var else None
    if isinstance(tgt, (ast.Tuple, ast.List)) and isinstance(it, ast.Call):
        cn = call_name(it)
        if cn == "enumerate" and len(tgt.elts) == 2 and it.args:
            return _iter_source(tgt.elts[1], it.args[0], var)
        if cn == "zip" and len(it.args) == len(tgt.elts) and not it.keywords:
            for e, a in zip(tgt.elts, it.args):
                r = _iter_source(e, a, var)
                if r is not None:
                    return r
    return None


def _is_sequence_value(df: DataFlow, at: int, e: ast.AST, depth: int = 0) -> bool:
    if isinstance(e, (ast.Tuple, ast.List, ast.ListComp, ast.Dict, ast.Set, ast.JoinedStr)):
        return True
    if isinstance(e, ast.Constant) and isinstance(e.value, (str, bytes)):
        return True
    if isinstance(e, ast.Call) and call_name(e) in ("tuple", "list"):
        return True
    if isinstance(e, ast.Name) and depth < 4:
        d = df.single_def(at, e.id)
        if d is not None and d.kind == "assign" and d.value is not None:
            return _is_sequence_value(df, d.node, d.value, depth + 1)
    return False


def _mean_fact(atom: ast.AST, truth: bool, fx=None, depth: int = 0) -> bool:
    """Does the fact say that an ensemble-mean flag is true?  (`fx` given: a flag held in a local is read through its
    single definition at the test.)"""
    if not truth:
        return False
    if isinstance(atom, ast.Attribute) and atom.attr in MEAN_FLAGS:
        return True
    if isinstance(atom, ast.Call) and call_name(atom) == "getattr" and len(atom.args) >= 2 and isinstance(
            atom.args[1], ast.Constant) and atom.args[1].value in MEAN_FLAGS:
        return True
    if isinstance(atom, ast.Call) and call_name(atom) == "bool" and len(atom.args) == 1:
        return _mean_fact(atom.args[0], truth, fx, depth)
    if isinstance(atom, ast.Name) and fx is not None and depth < 4:
        at = _test_node(fx, atom)
        d = fx.df.single_def(at, atom.id) if at is not None else None
        if d is not None and d.kind == "assign" and d.value is not None:
            return _mean_fact_at(fx, d.node, d.value, depth + 1)
    return False


def _mean_fact_at(fx, at: int, value: ast.AST, depth: int) -> bool:
    if isinstance(value, ast.Name):
        d = fx.df.single_def(at, value.id)
        if d is not None and d.kind == "assign" and d.value is not None and depth < 4:
            return _mean_fact_at(fx, d.node, d.value, depth + 1)
        return False
    return _mean_fact(value, True, None, depth)


class _Norm(FlowNormalizer):
    """FlowNormalizer that reads `a[:]` as `a` and remembers at which CFG node every atom name is read."""

    def __init__(self, df, node_idx: int):
        super().__init__(df, node_idx)
        self.read_at: dict[str, int] = {}
        self.dens: dict[str, Poly] = {}

    def norm(self, n: ast.AST) -> Poly:
        if isinstance(n, ast.Subscript) and _full_slice(n.slice):
            return self.norm(n.value)
        if isinstance(n, ast.BinOp) and isinstance(n.op, ast.Div):
            r = self.norm(n.right)
            if not r.is_monomial() and not r.is_zero():
                # a compound denominator is kept as one named atom whose value is remembered
                name = f"\u27e8{r.key()}\u27e9"
                self.dens[name] = r
                return self.norm(n.left) * Poly.atom(name).inverse()
        return super().norm(n)

    def atom(self, name: str) -> Poly:
        self.read_at.setdefault(name, self._at[-1])
        return super().atom(name)


# ---------------------------------------------------------------------------------------------- the analysis
class _Func:
    def __init__(self, f):
        self.f = f
        self.df = DataFlow(f.node)
        self.cfg = self.df.cfg
        self._body: dict[int, set[int]] = {}
        self._after: dict[int, set[int]] = {}

    def body(self, loop: int) -> set[int]:
        if loop not in self._body:
            self._body[loop] = self.cfg.loop_body_nodes(loop)
        return self._body[loop]

    def after(self, loop: int) -> set[int]:
        if loop in self._after:
            return self._after[loop]
        body = self.body(loop)
        out: set[int] = self._after.setdefault(loop, set())
        stack = [s for n in body | {loop} for s in self.cfg.nodes[n].succ if s not in body and s != loop]
        while stack:
            n = stack.pop()
            if n in out or n in body or n == loop:
                continue
            out.add(n)
            stack.extend(self.cfg.nodes[n].succ)
        return out

    # -------------------------------------------------------------------------- who is accumulated, in which loop
    def trace(self, at: int, root: str, steps: list[_Step]):
        """Follow the accumulated object outwards.  Returns (configuration loop or None, persistent variable,
        access path as text)."""
        df, cfg = self.df, self.cfg
        var, steps = root, list(steps)
        loops = list(cfg.nodes[at].loops)

        def follow_alias(limit: Optional[set[int]]) -> bool:
            """`var` has one strong definition `var = <access chain>` (inside `limit`, if given): step through it."""
            nonlocal var, steps, at
            rd = [d for d in df.reaching(at, var) if d.strong]
            if len(rd) == 1 and rd[0].kind == "assign" and rd[0].value is not None and (
                    limit is None or rd[0].node in limit):
                acc = _access(rd[0].value, rd[0].node)
                if acc is not None and not (acc[0] == var and not acc[1]):
                    var, steps, at = acc[0], acc[1] + steps, rd[0].node
                    return True
            return False

        while loops:
            loop = loops.pop()  # innermost first
            body = self.body(loop) | {loop}
            enumerates = False
            for _ in range(16):
                rd = [d for d in df.reaching(at, var) if d.strong]
                if not rd:
                    raise AnalysisError(f"{self.f.qualname}: no definition of the accumulated `{var}` found")
                if any(d.node not in body for d in rd):
                    break  # defined before the loop is entered: persists across its iterations
                if len(rd) == 1 and rd[0].kind == "for" and rd[0].node == loop:
                    st = cfg.nodes[loop].ast
                    src = _iter_source(st.target, st.iter, var)
                    acc = _access(src, loop) if src is not None else None
                    if acc is None:
                        raise AnalysisError(f"{self.f.qualname}: cannot tell which sequence `{var}` is an element of "
                                            f"in `for {norm_text(st.target)} in {norm_text(st.iter)[:50]}`")
                    var, steps, at = acc[0], acc[1] + [_Step("[*]")] + steps, loop
                    enumerates = True
                    break
                if not follow_alias(body):
                    raise AnalysisError(f"{self.f.qualname}: the accumulated `{var}` is rebound inside the loop by a "
                                        "construct that is not read")
            else:
                raise AnalysisError(f"{self.f.qualname}: alias chain of `{var}` too long")
            # a slot selected by the loop's own variable: the loop enumerates slots
            for s in steps:
                if s.index is not None and loop in df.backward_slice(s.at, s.index).def_nodes:
                    s.text, s.index = "[*]", None
                    enumerates = True
            if not enumerates:
                return loop, var, tuple(s.text for s in steps)
        for _ in range(16):
            if not follow_alias(None):
                break
        return None, var, tuple(s.text for s in steps)

    # -------------------------------------------------------------------------- the count
    def iteration_states(self, loop: int, inc_nodes: set[int], cap: int = 3):
        """Number of increments executed since the start of the iteration, on arrival at every body node, and at
        the end of an iteration (back edges)."""
        cfg, body = self.cfg, self.body(loop)
        arrive: dict[int, set[int]] = {n: set() for n in body}
        end: set[int] = set()
        work = []
        for s in cfg.nodes[loop].succ:
            if s in body:
                arrive[s].add(0)
                work.append((s, 0))
        while work:
            n, k = work.pop()
            k2 = min(cap, k + (1 if n in inc_nodes else 0))
            for s in cfg.nodes[n].succ:
                if s == loop:
                    end.add(k2)
                elif s in body and k2 not in arrive[s]:
                    arrive[s].add(k2)
                    work.append((s, k2))
        return arrive, end

    def _zero_path_accumulates(self, loop: int, inc_nodes: set[int]) -> bool:
        """is there a path through one iteration that executes an accumulation site and no increment?"""
        cfg, body = self.cfg, self.body(loop)
        acc = set(getattr(self, "acc_nodes", set()))
        if not acc:
            return True
        seen, work = set(), [(s_, False) for s_ in cfg.nodes[loop].succ if s_ in body]
        while work:
            n, hit = work.pop()
            if (n, hit) in seen or n in inc_nodes:
                continue
            seen.add((n, hit))
            hit = hit or n in acc
            for s_ in cfg.nodes[n].succ:
                if s_ == loop:
                    if hit:
                        return True
                elif s_ in body:
                    work.append((s_, hit))
        return False

    def name_chain(self, at: int, e: ast.AST):
        """Read a value through `t = c` temporaries and int()/float() casts: (node where it is read, expression)."""
        for _ in range(8):
            if isinstance(e, ast.Call) and call_name(e) in ("int", "float") and len(e.args) == 1 and not e.keywords:
                e = e.args[0]
                continue
            if isinstance(e, ast.Name):
                d = self.df.single_def(at, e.id)
                if d is not None and d.kind == "assign" and d.value is not None and (
                        isinstance(d.value, ast.Name) or (isinstance(d.value, ast.Call) and call_name(d.value) in (
                        "int", "float", "len"))):
                    at, e = d.node, d.value
                    continue
            break
        return at, e

    def counter(self, loop: int, read_at: int, cname: str, running: bool):
        """Decide whether variable `cname`, read at node `read_at`, is the number of configurations accumulated so
        far (running) / in total.  Returns None when it is, else a text that says why it is not."""
        df, cfg = self.df, self.cfg
        body = self.body(loop)
        defs = df.reaching(read_at, cname)
        if not defs:
            raise AnalysisError(f"{self.f.qualname}: the count `{cname}` has no definition in this function")
        inits = [d for d in defs if d.node not in body and d.node != loop]
        incs = [d for d in defs if d.node in body]
        if any(d.node == loop for d in defs):
            raise AnalysisError(f"{self.f.qualname}: the count `{cname}` is bound by the configuration loop itself; "
                                "cannot relate it to the iteration number")
        k0s = set()
        for d in inits:
            v = d.value
            if not (d.kind == "assign" and d.strong and isinstance(v, ast.Constant) and isinstance(v.value, int)
                    and not isinstance(v.value, bool)):
                raise AnalysisError(f"{self.f.qualname}: the count `{cname}` is not initialised with an integer "
                                    "constant before the configuration loop")
            k0s.add(v.value)
        if len(k0s) != 1:
            raise AnalysisError(f"{self.f.qualname}: the count `{cname}` has no unique initial value")
        k0 = k0s.pop()
        if not incs:
            return f"the count `{cname}` is never advanced inside the configuration loop (it stays {k0})"
        inc_nodes = set()
        for d in incs:
            st = cfg.nodes[d.node].ast
            step = None
            if isinstance(st, ast.AugAssign) and isinstance(st.target, ast.Name) and isinstance(st.op, (ast.Add, ast.Sub)):
                p = FlowNormalizer(df, d.node).norm(st.value).const_value()
                step = None if p is None else (p if isinstance(st.op, ast.Add) else -p)
            elif isinstance(st, ast.Assign) and len(st.targets) == 1 and isinstance(st.targets[0], ast.Name):
                nz = FlowNormalizer(df, d.node)
                nz.no_inline.add(cname)
                step = (nz.norm(st.value) - Poly.atom(cname)).const_value()
            if step is None:
                raise AnalysisError(f"{self.f.qualname}: `{norm_text(st)[:60]}` changes the count `{cname}` in a way "
                                    "that is not read")
            if step != 1:
                return f"`{norm_text(st)[:60]}` advances the count by {step}, not by one, per execution"
            inc_nodes.add(d.node)
        for n in sorted(inc_nodes):
            inner = cfg.nodes[n].loops[-1]
            if inner != loop:
                st = cfg.nodes[inner].ast
                what = norm_text(st.iter)[:50] if isinstance(st, ast.For) else norm_text(st.test)[:50]
                return (f"the count is advanced inside the nested loop over `{what}`, i.e. once per element of that "
                        "loop instead of once per configuration")
        arrive, end = self.iteration_states(loop, inc_nodes)
        if end != {1}:
            if end and min(end) == 0:
                if not self._zero_path_accumulates(loop, inc_nodes):
                    # e.g. the count advanced in the arm that accumulates only: right when the other arm cannot be
                    # taken by an ensemble, wrong when it stores the first configuration — not decided here
                    raise AnalysisError(f"{self.f.qualname}: the count `{cname}` is advanced on the paths that "
                                        "accumulate but not on every path through an iteration; whether the other "
                                        "iterations contribute to the mean is not decided")
                return ("some paths through an iteration of the configuration loop accumulate a configuration "
                        "without advancing the count")
            return f"the count is advanced {min(end) if end else '?'} times (or more) per configuration"
        if running:
            if read_at not in body:
                raise AnalysisError(f"{self.f.qualname}: the running count `{cname}` is read outside the loop")
            got = {k0 + s for s in arrive[read_at]}
            if got != {1}:
                return (f"in the first configuration the running count is {sorted(got)} where it is used (initial "
                        f"value {k0}, {sorted(arrive[read_at])} increment(s) before the use): it is not the 1-based "
                        "number of the configuration")
        else:
            if read_at in body or read_at == loop:
                raise AnalysisError(f"{self.f.qualname}: the divisor `{cname}` is read inside the configuration loop")
            if k0 != 0:
                return f"the count starts at {k0}, so after N configurations it is N + {k0}"
        return None


def _sites(fx: _Func):
    """[(cfg node, statement, target expression)] of in-place updates `T += v` / `T -= v` / `T = <binary expression>`
    that execute inside a loop on paths where an ensemble-mean flag was tested true."""
    f = fx.f
    if not any(isinstance(n, ast.Attribute) and n.attr in MEAN_FLAGS or isinstance(n, ast.Constant) and
               n.value in MEAN_FLAGS for n in walk_no_nested(f.node)):
        return []
    out = []
    for n in fx.cfg.nodes:
        st = n.ast
        if n.kind != "stmt" or not n.loops:
            continue
        if isinstance(st, ast.AugAssign) and isinstance(st.op, (ast.Add, ast.Sub)):
            tgt = st.target
        elif isinstance(st, ast.Assign) and len(st.targets) == 1 and isinstance(
                st.targets[0], (ast.Name, ast.Subscript, ast.Attribute)) and isinstance(st.value, ast.BinOp):
            tgt = st.targets[0]
        else:
            continue
        if not any(_mean_fact(a, t, fx) for a, t in necessary_facts(fx.cfg, n.idx, fx.df)):
            continue
        out.append((n.idx, st, tgt))
    return out


def check(ctx, repo, rule: str = RULE) -> int:
    """Examine every ensemble-mean accumulation of the package; returns the number of sites."""
    n_sites = 0
    for f in sorted(repo.all_functions(), key=lambda g: g.qualname):
        if not any(isinstance(n, ast.Attribute) and n.attr in MEAN_FLAGS for n in walk_no_nested(f.node)):
            continue
        if not any(isinstance(n, (ast.For, ast.While)) for n in walk_no_nested(f.node)):
            continue
        fx = _Func(f)
        k = 0
        for at, st, tgt in _sites(fx):
            if _examine(ctx, fx, at, st, tgt, k + 1, rule):
                k += 1
        n_sites += k
    return n_sites


def _examine(ctx, fx: _Func, at: int, st: ast.stmt, tgt: ast.AST, ordinal: int, rule: str) -> bool:
    fx.acc_nodes = {at}
    f, df, cfg = fx.f, fx.df, fx.cfg
    acc = _access(tgt, at)
    if acc is None:
        raise AnalysisError(f"{f.qualname}: accumulation target `{norm_text(tgt)[:50]}` is not rooted in a variable")
    root, steps = acc
    # ---- the added term: T_new = T + delta
    nz = _Norm(df, at)
    nz.no_inline.add(root)
    tpoly = nz.norm(tgt)
    if not (tpoly.is_monomial() and len(tpoly.atoms()) == 1 and list(tpoly.terms.values())[0] == 1):
        raise AnalysisError(f"{f.qualname}: cannot name the accumulator `{norm_text(tgt)[:50]}`")
    (tatom,) = tpoly.atoms()
    if isinstance(st, ast.AugAssign):
        if _is_sequence_value(df, at, st.value):
            return False  # sequence concatenation, not a numerical accumulation
        if isinstance(tgt, ast.Name):
            outside = [d for d in df.reaching(at, root) if d.strong]
            if outside and all(d.value is not None and _is_sequence_value(df, d.node, d.value) for d in outside):
                return False
        delta = nz.norm(st.value)
        if isinstance(st.op, ast.Sub):
            delta = -delta
    else:
        val = nz.norm(st.value)
        if tatom not in val.atoms():
            return False  # an ordinary assignment
        if all(any(a == tatom and e > 0 for a, e in m) for m in val.terms):
            return False  # a rescaling `T = T * c` / `T = T / c`, not an accumulation
        delta = val - tpoly
    if delta.const_value() is not None:
        return False  # a counter, not an accumulation of results
    construct = f"{f.qualname}:ensemble-mean accumulation #{ordinal}"
    where = f.loc(st)
    loop, var, path = fx.trace(at, root, steps)
    if loop is None:
        raise AnalysisError(f"{f.qualname}: `{norm_text(st)[:60]}` accumulates under an ensemble-mean test, but every "
                            "enclosing loop enumerates the accumulators: the loop over the configurations is not in "
                            "this function")
    lst = cfg.nodes[loop].ast
    loop_txt = norm_text(lst.iter)[:50] if isinstance(lst, ast.For) else norm_text(lst.test)[:50]
    accname = var + "".join(path)
    after = fx.after(loop)
    divisions = _divisions(fx, after, var, path)

    if tatom not in delta.atoms():
        # ------------------------------------------------------------ sum, then divide
        if not divisions:
            ctx.violation(rule, construct, where,
                          f"`{norm_text(st)[:70]}` adds every configuration of the loop over `{loop_txt}` into "
                          f"{accname}, but nothing divides {accname} by the number of configurations after that loop: "
                          "the result is the sum, N times the ensemble mean", key_detail="undivided")
            return True
        bad = None
        for dv_at, dv_st, divisor, dv_loop in divisions:
            if dv_loop is not None:
                bad = (f"`{norm_text(dv_st)[:60]}` divides {accname} inside a loop that does not enumerate the "
                       "accumulators: it is divided more than once", "repeated")
                break
        if bad is None and len(divisions) > 1:
            for a in divisions:
                for b in divisions:
                    if a is not b and cfg.paths_avoiding(a[0], b[0], set(cfg.nodes[a[0]].loops)):
                        bad = (f"{accname} is divided twice after the loop (`{norm_text(a[1])[:40]}` and "
                               f"`{norm_text(b[1])[:40]}`)", "twice")
        if bad is None:
            for dv_at, dv_st, divisor, _ in divisions:
                bad = _divisor_is_count(fx, loop, dv_at, divisor)
                if bad is None:
                    bad = _division_guards(fx, loop, at, dv_at, divisor)
                if bad is not None:
                    break
        ctx.check(bad is None, rule, construct, where,
                  f"sum over the loop `{loop_txt}` into {accname}; divided once after the loop by the number of its "
                  "iterations (a count that is 0 before the loop and advanced by one in every iteration, or the length "
                  "of the iterated sequence)",
                  f"{accname} sums the configurations of the loop over `{loop_txt}`, but {bad[0] if bad else ''}: the "
                  "result is not sum/N", key_detail=bad[1] if bad else "")
        return True

    # ---------------------------------------------------------------- running mean  T += (x - T) / n
    neg = {a for m in delta.terms for a, e in m if e < 0}
    if len(neg) != 1 or not all(dict(m).get(next(iter(neg))) == -1 for m in delta.terms):
        raise AnalysisError(f"{f.qualname}: `{norm_text(st)[:70]}` updates {accname} from its own value in a form that "
                            "is not a running mean `m += (x - m) / n`")
    (nname,) = neg
    weight = -delta.terms.get(tuple(sorted(((tatom, 1), (nname, -1)))), 0)
    rest = delta * Poly.atom(nname) + Poly.const(weight) * tpoly
    if weight != 1 or tatom in rest.atoms() or nname in rest.atoms():
        raise AnalysisError(f"{f.qualname}: `{norm_text(st)[:70]}` is not of the form m += (x - m) / n")
    bad = None
    if divisions:
        bad = (f"the running mean {accname} is divided again after the loop by `{norm_text(divisions[0][2])[:40]}`",
               "twice")
    elif nname.isidentifier():
        r = fx.counter(loop, nz.read_at.get(nname, at), nname, running=True)
        bad = None if r is None else (r, "count")
    else:
        k = None
        if isinstance(lst, ast.For) and isinstance(lst.iter, ast.Call) and call_name(lst.iter) == "enumerate" and \
                len(lst.iter.args) == 1 and not lst.iter.keywords and isinstance(lst.target, ast.Tuple) and \
                isinstance(lst.target.elts[0], ast.Name):
            k = lst.target.elts[0].id
        den = nz.dens.get(nname)
        if k is None or den is None or not den.atoms() <= {k} or nz.read_at.get(k, at) not in fx.body(loop) or \
                any(d.node != loop for d in df.reaching(nz.read_at.get(k, at), k)):
            raise AnalysisError(f"{f.qualname}: cannot relate the divisor {nname} of the running mean to the iteration "
                                "number of the configuration loop")
        if den != Poly.atom(k) + Poly.const(1):
            bad = (f"the divisor {den.key()} is not `{k} + 1`, the 1-based number of the configuration (`{k}` is the "
                   "enumerate counter of the configuration loop)", "count")
    ctx.check(bad is None, rule, construct, where,
              f"running mean over the loop `{loop_txt}` into {accname}; the divisor is the 1-based number of the "
              "configuration",
              f"{accname} is a running mean over the configurations of the loop over `{loop_txt}` "
              f"(`{norm_text(st)[:70]}`), but {bad[0] if bad else ''}: configuration c is not weighted with 1/c, the "
              "result is not the mean of the configurations", key_detail=bad[1] if bad else "")
    return True


def _divisions(fx: _Func, after: set[int], var: str, path: tuple):
    """In-place divisions of the accumulator (var, path) after the loop: [(node, stmt, divisor expr, loop or None)].
    A division of the accumulator in a form that is not read raises AnalysisError."""
    out = []
    for n in sorted(after):
        node = fx.cfg.nodes[n]
        st = node.ast
        if node.kind != "stmt" or st is None:
            continue
        cands = []  # (target/numerator expression, divisor or None when the form is not read)
        if isinstance(st, ast.AugAssign) and isinstance(st.op, (ast.Div, ast.FloorDiv)):
            cands.append((st.target, st.value if isinstance(st.op, ast.Div) else None))
        elif isinstance(st, ast.AugAssign) and isinstance(st.op, ast.Mult) and isinstance(st.value, ast.BinOp) and \
                isinstance(st.value.op, ast.Div):
            one = isinstance(st.value.left, ast.Constant) and st.value.left.value in (1, 1.0) and not isinstance(
                st.value.left.value, bool)
            cands.append((st.target, st.value.right if one else None))
        elif isinstance(st, ast.Assign) and len(st.targets) == 1 and isinstance(st.value, ast.BinOp) and isinstance(
                st.value.op, ast.Div):
            a, b = _access(st.targets[0], n), _access(st.value.left, n)
            same = a is not None and b is not None and a[0] == b[0] and [s.text for s in a[1]] == [s.text for s in b[1]]
            cands.append((st.value.left, st.value.right if same else None))
        else:
            for m in walk_no_nested(st):
                if isinstance(m, ast.BinOp) and isinstance(m.op, ast.Div):
                    cands.append((m.left, None))
                elif isinstance(m, ast.Call) and (call_name(m) or "").split(".")[-1] in ("divide", "true_divide") and m.args:
                    cands.append((m.args[0], None))
        for num, divisor in cands:
            acc = _access(num, n)
            if acc is None:
                continue
            try:
                dloop, dvar, dpath = fx.trace(n, acc[0], acc[1])
            except AnalysisError:
                if var in fx.df.backward_slice(n, num).visited:
                    raise  # it may be the accumulator that is divided here
                continue
            if (dvar, dpath) != (var, path):
                continue
            if divisor is None:
                raise AnalysisError(f"{fx.f.qualname}: `{norm_text(st)[:70]}` divides the accumulated {var}"
                                    f"{''.join(path)} in a form that is not read (expected an in-place division)")
            out.append((n, st, divisor, dloop))
    return out


def _divisor_is_count(fx: _Func, loop: int, dv_at: int, divisor: ast.AST):
    at, e = fx.name_chain(dv_at, divisor)
    lst = fx.cfg.nodes[loop].ast
    if isinstance(e, ast.Call) and call_name(e) == "len" and len(e.args) == 1:
        seq = lst.iter if isinstance(lst, ast.For) else None
        while isinstance(seq, ast.Call) and call_name(seq) == "enumerate" and seq.args:
            seq = seq.args[0]
        a, b = _access(e.args[0], at), (_access(seq, loop) if seq is not None else None)
        if a is not None and b is not None and a[0] == b[0] and [s.text for s in a[1]] == [s.text for s in b[1]]:
            ids = lambda where: {id(d) for d in fx.df.reaching(where, a[0])}
            if ids(at) == ids(loop):
                return None
        raise AnalysisError(f"{fx.f.qualname}: cannot relate `{norm_text(e)[:50]}` to the number of iterations of the "
                            "configuration loop")
    if isinstance(e, ast.Constant):
        return (f"the divisor is the constant {e.value!r}, not the number of configurations", "count")
    if not isinstance(e, ast.Name):
        raise AnalysisError(f"{fx.f.qualname}: the divisor `{norm_text(e)[:50]}` of the ensemble mean is neither a "
                            "counter nor the length of the iterated sequence")
    r = fx.counter(loop, at, e.id, running=False)
    return None if r is None else (f"the divisor `{norm_text(divisor)[:40]}` is not the number of configurations — " + r,
                                   "count")


def _division_guards(fx: _Func, loop: int, acc_at: int, dv_at: int, divisor: ast.AST):
    """The division may be skipped only where the count is known to be <= 1 (or where no mean is formed)."""
    _, cexpr = fx.name_chain(dv_at, divisor)
    acc_facts = {(norm_text(a), t) for a, t in necessary_facts(fx.cfg, acc_at, fx.df)}
    for atom, truth in necessary_facts(fx.cfg, dv_at, fx.df):
        if (norm_text(atom), truth) in acc_facts:
            continue
        if _mean_fact(atom, True, fx):
            if truth:
                continue
            return ("the division runs only where the ensemble-mean flag is false, the averaged arrays are never "
                    "divided", "guard")
        test = _test_node(fx, atom)
        if test is not None and test not in fx.after(loop):
            continue  # decided before / inside the loop: it guards the accumulation alike or is left to other rules
        skipped = _count_test(fx, dv_at if test is None else test, atom, truth, cexpr)
        if skipped is None:
            raise AnalysisError(f"{fx.f.qualname}: cannot read the guard `{norm_text(atom)[:60]}` of the division by the "
                                "number of configurations")
        if skipped > 1:
            return (f"the division is skipped unless `{norm_text(atom)[:40]}` is {'true' if truth else 'false'}, i.e. "
                    f"also for {skipped} configurations", "guard")
    return None


def _test_node(fx: _Func, atom: ast.AST) -> Optional[int]:
    for n in fx.cfg.nodes:
        if n.kind == "test" and any(m is atom for m in ast.walk(n.ast.test)):
            return n.idx
    return None


def _count_test(fx: _Func, at: int, atom: ast.AST, truth: bool, cexpr: ast.AST) -> Optional[int]:
    """`atom` (with truth value `truth` where the division runs) read as a test on the count: the largest count in
    0..7 for which the division is skipped; None when it is not a comparison of the count with a constant."""
    if not (isinstance(atom, ast.Compare) and len(atom.ops) == 1):
        return None
    l, r = atom.left, atom.comparators[0]
    op = type(atom.ops[0])
    flip = {ast.Gt: ast.Lt, ast.Lt: ast.Gt, ast.GtE: ast.LtE, ast.LtE: ast.GtE, ast.Eq: ast.Eq, ast.NotEq: ast.NotEq}
    if op not in flip:
        return None
    if isinstance(l, ast.Constant):
        l, r, op = r, l, flip[op]
    if not (isinstance(r, ast.Constant) and isinstance(r.value, (int, float)) and not isinstance(r.value, bool)):
        return None
    _, le = fx.name_chain(at, l)
    if norm_text(le) != norm_text(cexpr):
        return None
    ev = {ast.Gt: lambda c: c > r.value, ast.Lt: lambda c: c < r.value, ast.GtE: lambda c: c >= r.value,
          ast.LtE: lambda c: c <= r.value, ast.Eq: lambda c: c == r.value, ast.NotEq: lambda c: c != r.value}[op]
    skipped = [c for c in range(0, 8) if ev(c) != truth]
    return max(skipped) if skipped else 0
