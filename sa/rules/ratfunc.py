"""Rational-function terms with square roots — a decision procedure for closed-form identities.

`sa/terms.py` normalises into Laurent polynomials and turns the inverse / root of a sum into an
opaque atom keyed by its primitive part.  That is enough for commutativity, distribution and
temporaries, but it calls two algebraically equal closed forms different as soon as a factor is
moved into or out of a root or a denominator (`h c / sqrt(eE (eE + 2mc^2))` versus
`h c / (e sqrt(E (E + 2mc^2/e)))`).  For formula rules that would be a false alarm on a
behaviour-preserving refactoring, so this module decides equality in the field

    Q(atoms)[r_1 .. r_n] / (r_i^2 - radicand_i)

* `RF`        quotient of two `Poly` with non-negative exponents; equality by cross-multiplication.
* `Radicals`  table of square-root atoms (deduplicated by radicand equality).
* `decide_equal(a, b, rad)` -> "equal" | "different" | "undecided"
     1. reduce even powers of radicals, compare by cross-multiplication;
     2. otherwise compare the squares (radical-free when each side is a rational function times a
        monomial in radicals); unequal squares => different; equal squares => the two sides agree up
        to a sign that is constant on the (connected) positive orthant, which is fixed by evaluating
        the *normal forms* at three generic positive rational points;
     3. anything else is "undecided" (the caller raises AnalysisError).
* `TermEval`  AST -> RF evaluator: inlines single reaching definitions (DataFlow), module-level
  constants, and in-package functions with a single `return` (arguments substituted); canonicalises
  names through the module's imports (`units._e`, `from ase.units import _e as q` -> `ase.units._e`).
  A name with several reaching definitions, an unknown call or a non-constant exponent is outside
  the term language => AnalysisError, never a guess.
* function atoms: a call `f(x)` of a one-argument numpy / math function that is not part of the ring
  language (arctan, tan, sin, exp, abs ...) is carried as an opaque atom `f(<normal form of x>)`
  (`Radicals.apply`, deduplicated by equality of the argument).  Two terms with identical normal
  forms are equal whatever `f` is.  "different" is decided only on a theorem: when `f` is one of the
  elementary transcendental functions and its argument is a non-constant rational function of the
  other atoms, `f(x)` is transcendental over the field of rational functions, so a non-zero rational
  expression in ONE such atom is a non-zero function.  Everything else (two function atoms, nested
  ones, radicals next to them, an unknown `f`) is "undecided".  `linear_in` decides with the same
  theorem whether a term is <atom> times a factor that does not depend on <atom>.

Nothing here imports or executes analysed code; numeric evaluation is of the normal forms only.
"""
from __future__ import annotations

import ast
import math
import zlib
from fractions import Fraction
from typing import Callable, Optional

from ..cfg import DataFlow
from ..model import AnalysisError, ClassInfo, FuncInfo, ModuleInfo, Repo, dotted, norm_text, walk_no_nested
from ..terms import Poly

ONE = Poly.const(1)
PI = "π"
RAD = "√#"


def _mono_poly(atom: str, e) -> Poly:
    return Poly({((atom, Fraction(e)),): Fraction(1)})


class RF:
    """num/den with polynomial num, den (non-negative integer exponents)."""

    __slots__ = ("num", "den")

    def __init__(self, num: Poly, den: Poly = ONE):
        if den.is_zero():
            raise AnalysisError("term with a zero denominator")
        self.num, self.den = _cancel(num, den)

    @staticmethod
    def const(c) -> "RF":
        return RF(Poly.const(Fraction(c)))

    @staticmethod
    def atom(name: str) -> "RF":
        return RF(Poly.atom(name))

    def __add__(self, o: "RF") -> "RF":
        if self.den == o.den:
            return RF(self.num + o.num, self.den)
        return RF(self.num * o.den + o.num * self.den, self.den * o.den)

    def __neg__(self) -> "RF":
        return RF(-self.num, self.den)

    def __sub__(self, o: "RF") -> "RF":
        return self + (-o)

    def __mul__(self, o: "RF") -> "RF":
        return RF(self.num * o.num, self.den * o.den)

    def inverse(self) -> "RF":
        if self.num.is_zero():
            raise AnalysisError("division by a term that is identically zero")
        return RF(self.den, self.num)

    def __truediv__(self, o: "RF") -> "RF":
        return self * o.inverse()

    def pow_int(self, n: int) -> "RF":
        if n < 0:
            return self.inverse().pow_int(-n)
        if n > 16:
            raise AnalysisError("exponent too large for the term language")
        r = RF.const(1)
        for _ in range(n):
            r = r * self
        return r

    def equals(self, o: "RF") -> bool:
        return self.num * o.den == o.num * self.den

    def is_zero(self) -> bool:
        return self.num.is_zero()

    def atoms(self) -> set[str]:
        return self.num.atoms() | self.den.atoms()

    def const_value(self) -> Optional[Fraction]:
        a, b = self.num.const_value(), self.den.const_value()
        if a is None or b is None:
            return None
        return a / b

    def single_atom(self) -> Optional[str]:
        if self.den == ONE and len(self.num.terms) == 1:
            (m, c), = self.num.terms.items()
            if c == 1 and len(m) == 1 and m[0][1] == 1:
                return m[0][0]
        return None

    def key(self) -> str:
        k = self.num.key()
        k = k[2:] if k.startswith("1*") and " + " not in k else k
        if self.den == ONE:
            return k
        return f"({k})/({self.den.key()})"

    def __repr__(self) -> str:
        return f"RF<{self.key()}>"


def _cancel(num: Poly, den: Poly) -> tuple[Poly, Poly]:
    """Divide by the denominator's leading coefficient and by the common monomial factor."""
    if num.is_zero():
        return num, ONE
    terms = list(num.terms) + list(den.terms)
    common: dict[str, Fraction] = {}
    first = True
    for m in terms:
        d = dict(m)
        if first:
            common = dict(d)
            first = False
        else:
            common = {a: min(e, d[a]) for a, e in common.items() if a in d}
        if not common:
            break
    lead = den.terms[sorted(den.terms, key=lambda m: [(a, float(e)) for a, e in m])[0]]

    def div(p: Poly, c: Fraction) -> Poly:
        out = {}
        for m, v in p.terms.items():
            nm = tuple((a, e - common.get(a, 0)) for a, e in m)
            nm = tuple((a, e) for a, e in nm if e != 0)
            out[nm] = out.get(nm, Fraction(0)) + v / c
        return Poly(out)

    return div(num, lead), div(den, lead)


# one-argument functions that are transcendental over the rational functions when composed with a
# non-constant rational argument, with the numeric function used for sign evaluation of normal forms
TRANSCENDENTAL: dict[str, Callable[[float], float]] = {
    "arctan": math.atan, "tan": math.tan, "sin": math.sin, "cos": math.cos, "arcsin": math.asin,
    "arccos": math.acos, "exp": math.exp, "log": math.log, "sinh": math.sinh, "cosh": math.cosh,
    "tanh": math.tanh, "arcsinh": math.asinh, "arctanh": math.atanh, "expm1": math.expm1, "log1p": math.log1p,
    "sinc": lambda v: math.sin(math.pi * v) / (math.pi * v),
}
_OTHER_NUMERIC: dict[str, Callable[[float], float]] = {"abs": abs}
FUNCTION_ALIASES = {"atan": "arctan", "asin": "arcsin", "acos": "arccos", "asinh": "arcsinh", "atanh": "arctanh",
                    "absolute": "abs", "fabs": "abs"}
FUNCTION_MODULES = ("numpy.", "math.", "cmath.", "xp.", "cupy.", "scipy.special.")


class Radicals:
    def __init__(self) -> None:
        self.table: list[RF] = []
        self.funcs: dict[str, tuple[str, RF]] = {}

    # ---- function atoms f(<normal form>)
    def apply(self, name: str, arg: "RF") -> "RF":
        name = FUNCTION_ALIASES.get(name, name)
        arg = reduce_radicals(arg, self)
        for atom, (n2, a2) in self.funcs.items():
            if n2 == name and a2.equals(arg):
                return RF.atom(atom)
        atom = f"{name}({self.describe(arg)})"
        self.funcs[atom] = (name, arg)
        return RF.atom(atom)

    def is_function(self, atom: str) -> bool:
        return atom in self.funcs

    def function(self, atom: str) -> tuple[str, "RF"]:
        return self.funcs[atom]

    def function_atoms(self, x: "RF", deep: bool = True) -> set[str]:
        """Function atoms of x; with `deep` also those inside arguments and radicands."""
        out: set[str] = set()
        todo, seen = list(x.atoms()), set()
        while todo:
            a = todo.pop()
            if a in seen:
                continue
            seen.add(a)
            if self.is_function(a):
                out.add(a)
                if deep:
                    todo.extend(self.funcs[a][1].atoms())
            elif deep and self.is_radical(a):
                todo.extend(self.radicand(a).atoms())
        return out

    def deep_atoms(self, x: "RF") -> set[str]:
        """Plain atoms (neither radical nor function) of x, through radicands and function arguments."""
        out: set[str] = set()
        todo, seen = list(x.atoms()), set()
        while todo:
            a = todo.pop()
            if a in seen:
                continue
            seen.add(a)
            if self.is_function(a):
                todo.extend(self.funcs[a][1].atoms())
            elif self.is_radical(a):
                todo.extend(self.radicand(a).atoms())
            else:
                out.add(a)
        return out

    def sqrt(self, x: RF) -> RF:
        c = x.const_value()
        if c is not None and c >= 0:
            from ..terms import _frac_pow

            r = _frac_pow(c, Fraction(1, 2))
            if r is not None:
                return RF.const(r)
        for i, r in enumerate(self.table):
            if r.equals(x):
                return RF.atom(f"{RAD}{i}")
        self.table.append(x)
        return RF.atom(f"{RAD}{len(self.table) - 1}")

    @staticmethod
    def is_radical(atom: str) -> bool:
        return atom.startswith(RAD)

    def radicand(self, atom: str) -> RF:
        return self.table[int(atom[len(RAD):])]

    def has_radicals(self, x: RF) -> bool:
        return any(self.is_radical(a) for a in x.atoms())

    def describe(self, x: RF) -> str:
        """Readable text: radical atoms replaced by sqrt(<radicand>)."""
        s = x.key()
        for _ in range(4):
            changed = False
            for i in range(len(self.table) - 1, -1, -1):
                a = f"{RAD}{i}"
                if a in s:
                    s = s.replace(a, f"sqrt({self.table[i].key()})")
                    changed = True
            if not changed:
                break
        return s


def reduce_radicals(x: RF, rad: Radicals) -> RF:
    """r^(2k+j) -> radicand^k * r^j  (j in {0,1}), repeated until stable."""
    for _ in range(8):
        need = any(rad.is_radical(a) and e >= 2 for p in (x.num, x.den) for m in p.terms for a, e in m)
        if not need:
            return x

        def red(p: Poly) -> RF:
            out = RF.const(0)
            for mono, c in p.terms.items():
                t = RF.const(c)
                for a, e in mono:
                    if rad.is_radical(a):
                        if e.denominator != 1 or e < 0:
                            raise AnalysisError("radical with a non-integer power")
                        k, j = divmod(int(e), 2)
                        if k:
                            t = t * rad.radicand(a).pow_int(k)
                        if j:
                            t = t * RF.atom(a)
                    else:
                        t = t * RF(_mono_poly(a, e))
                out = out + t
            return out

        x = red(x.num) / red(x.den)
    raise AnalysisError("nested radicals do not reduce")


def _point(k: int) -> Callable[[str], float]:
    def val(atom: str) -> float:
        h = zlib.crc32(f"{k}:{atom}".encode())
        return 0.6 + (h % 9973) / 9973.0 * 1.7

    return val


def _eval_at(x: RF, rad: Radicals, val: Callable[[str], float], depth: int = 0) -> Optional[float]:
    if depth > 6:
        return None
    cache: dict[str, Optional[float]] = {}

    def atom_value(a: str) -> Optional[float]:
        if a not in cache:
            if rad.is_radical(a):
                v = _eval_at(rad.radicand(a), rad, val, depth + 1)
                cache[a] = math.sqrt(v) if v is not None and v > 0 else None
            elif a == PI:
                cache[a] = math.pi
            elif rad.is_function(a):
                name, arg = rad.function(a)
                fn = TRANSCENDENTAL.get(name) or _OTHER_NUMERIC.get(name)
                v = _eval_at(arg, rad, val, depth + 1) if fn is not None else None
                try:
                    cache[a] = fn(v) if v is not None else None  # type: ignore[misc]
                except (ValueError, OverflowError, ZeroDivisionError):
                    cache[a] = None
            else:
                cache[a] = val(a)
        return cache[a]

    def poly(p: Poly) -> Optional[float]:
        s = 0.0
        for m, c in p.terms.items():
            t = float(c)
            for a, e in m:
                v = atom_value(a)
                if v is None:
                    return None
                t *= v ** float(e)
            s += t
        return s

    n, d = poly(x.num), poly(x.den)
    if n is None or d is None or abs(d) < 1e-12:
        return None
    return n / d


def sign_on_positive_orthant(x: RF, rad: Radicals) -> Optional[int]:
    """Sign of the normal form at three generic positive points; None when they disagree or a
    radicand is not positive there."""
    signs = set()
    for k in range(3):
        v = _eval_at(x, rad, _point(k))
        if v is None or abs(v) < 1e-12:
            return None
        signs.add(1 if v > 0 else -1)
    return signs.pop() if len(signs) == 1 else None


def decide_equal(a: RF, b: RF, rad: Radicals) -> str:
    ra, rb = reduce_radicals(a, rad), reduce_radicals(b, rad)
    if ra.equals(rb):
        return "equal"
    if rad.function_atoms(ra) or rad.function_atoms(rb):
        return _decide_with_functions(ra, rb, rad)
    if not rad.has_radicals(ra) and not rad.has_radicals(rb):
        return "different"
    sa, sb = reduce_radicals(ra * ra, rad), reduce_radicals(rb * rb, rad)
    if rad.has_radicals(sa) or rad.has_radicals(sb):
        return "undecided"
    if not sa.equals(sb):
        return "different"
    s1, s2 = sign_on_positive_orthant(ra, rad), sign_on_positive_orthant(rb, rad)
    if s1 is None or s2 is None:
        return "undecided"
    return "equal" if s1 == s2 else "different"


def subst_rf(x: RF, mapping: dict[str, RF], rad: Radicals) -> RF:
    """x with plain atoms replaced (also inside radicands and function arguments)."""
    memo: dict[str, RF] = {}

    def atom_rf(a: str) -> RF:
        if a not in memo:
            if rad.is_function(a):
                name, arg = rad.function(a)
                memo[a] = rad.apply(name, subst_rf(arg, mapping, rad))
            elif rad.is_radical(a):
                memo[a] = rad.sqrt(subst_rf(rad.radicand(a), mapping, rad))
            else:
                memo[a] = mapping.get(a, RF.atom(a))
        return memo[a]

    def poly(p: Poly) -> RF:
        out = RF.const(0)
        for mono, c in p.terms.items():
            t = RF.const(c)
            for a, e in mono:
                if e.denominator != 1 or e < 0:
                    raise AnalysisError("term with a non-integer power")
                t = t * atom_rf(a).pow_int(int(e))
            out = out + t
        return out

    return poly(x.num) / poly(x.den)


def depends_on(x: RF, atom: str, rad: Radicals) -> bool:
    """Does the rational function x (no radicals, no function atoms) vary with `atom`?  A rational function that
    is invariant under atom -> 2·atom is constant in it (its zeros and poles would be scale invariant)."""
    if atom not in x.atoms():
        return False
    return not subst_rf(x, {atom: RF.const(2) * RF.atom(atom)}, rad).equals(x)


def _transcendental_atom(atom: str, rad: Radicals) -> bool:
    """`atom` = f(arg) with f elementary transcendental and arg a non-constant rational function of plain
    atoms: such a function is transcendental over the field of rational functions of the plain atoms."""
    name, arg = rad.function(atom)
    if name not in TRANSCENDENTAL or rad.has_radicals(arg) or rad.function_atoms(arg):
        return False
    return any(a != PI and depends_on(arg, a, rad) for a in arg.atoms())


def _decide_with_functions(ra: RF, rb: RF, rad: Radicals) -> str:
    d = ra - rb  # not identically zero as a formal expression (the caller compared the normal forms)
    top = rad.function_atoms(d, deep=False)
    if rad.has_radicals(d) or rad.function_atoms(d) != top:
        return "undecided"
    if not top:
        return "different"  # the function atoms cancel: a non-zero rational function of the plain atoms
    if len(top) == 1 and _transcendental_atom(next(iter(top)), rad):
        return "different"  # non-zero rational expression in one transcendental element
    return "undecided"


def linear_in(body: RF, atom: str, rad: Radicals) -> str:
    """Is `body` = atom · c with c independent of `atom`?  -> "linear" | "nonlinear" | "undecided".

    Homogeneity at one scale, body(2·atom) = 2·body(atom), is equivalent to linearity for rational functions and
    for rational functions with square roots (body/atom would be an algebraic function whose zeros, poles and
    branch points are invariant under scaling).  With a function atom the homogeneity identity relates two
    different function atoms and is not decided here; instead: if exactly one transcendental function atom whose
    argument varies with `atom` survives in the normal form of `body`, then body = atom · c would be an algebraic
    relation for a transcendental element, so `body` is not linear."""
    body = reduce_radicals(body, rad)
    two = RF.const(2)
    doubled = reduce_radicals(subst_rf(body, {atom: two * RF.atom(atom)}, rad), rad)
    if doubled.equals(two * body):
        return "linear"
    funcs = rad.function_atoms(body)
    if not funcs:
        res = decide_equal(doubled, two * body, rad)
        return {"equal": "linear", "different": "nonlinear"}.get(res, "undecided")
    top = rad.function_atoms(body, deep=False)
    if funcs != top or rad.has_radicals(body):
        return "undecided"
    varying = [t for t in top if atom in rad.deep_atoms(RF.atom(t))]
    if len(top) == 1 and len(varying) == 1 and _transcendental_atom(varying[0], rad):
        t = varying[0]
        arg = rad.function(t)[1]
        genuinely = not body.equals(RF(body.num.subst({t: Poly.atom(t) + Poly.const(1)}),
                                       body.den.subst({t: Poly.atom(t) + Poly.const(1)})))
        if depends_on(arg, atom, rad) and genuinely:
            return "nonlinear"
    return "undecided"


# ---------------------------------------------------------------------- AST -> RF
IDENTITY = {"float", "numpy.asarray", "numpy.array", "numpy.float64", "numpy.float32", "numpy.asanyarray"}
SQRT = {"numpy.sqrt", "math.sqrt", "cmath.sqrt", "numpy.lib.scimath.sqrt", "xp.sqrt"}
PI_NAMES = {"numpy.pi", "math.pi", "xp.pi", "scipy.pi"}


class _Frame:
    def __init__(self, module: ModuleInfo, func: Optional[FuncInfo], df: Optional[DataFlow], env: dict[str, RF]):
        self.module = module
        self.func = func
        self.df = df
        self.env = env
        self.bound: dict[str, RF] = {}


class TermEval:
    def __init__(self, repo: Repo, rad: Optional[Radicals] = None, opaque: Optional[set[str]] = None,
                 constants: Optional[Callable[["TermEval", str], Optional[RF]]] = None):
        self.repo = repo
        self.rad = rad or Radicals()
        self.opaque = opaque or set()
        self.constants = constants
        self._df: dict[int, DataFlow] = {}
        self._depth = 0

    # ------------------------------------------------------------------ entry points
    def dataflow(self, f: FuncInfo) -> DataFlow:
        if id(f.node) not in self._df:
            self._df[id(f.node)] = DataFlow(f.node)
        return self._df[id(f.node)]

    @staticmethod
    def single_return(f: FuncInfo) -> ast.Return:
        rets = [n for n in walk_no_nested(f.node) if isinstance(n, ast.Return) and n.value is not None]
        if len(rets) != 1:
            raise AnalysisError(f"{f.qualname}: expected exactly one `return <value>`, found {len(rets)}")
        return rets[0]

    def frame(self, f: FuncInfo, args: Optional[dict[str, RF]] = None) -> _Frame:
        return _Frame(f.module, f, self.dataflow(f), dict(args or {}))

    def eval_function(self, f: FuncInfo, args: Optional[dict[str, RF]] = None) -> RF:
        ret = self.single_return(f)
        fr = self.frame(f, args)
        return self.ev(ret.value, fr, fr.df.cfg.node_of(ret).idx)

    def atom(self, canonical: str) -> RF:
        if canonical in PI_NAMES:
            return RF.atom(PI)
        if self.constants is not None:
            r = self.constants(self, canonical)
            if r is not None:
                return r
        return RF.atom(canonical)

    # ------------------------------------------------------------------ names
    def canonical(self, module: ModuleInfo, name: str) -> str:
        head, _, rest = name.partition(".")
        if head in module.imports:
            return module.imports[head] + ("." + rest if rest else "")
        return name

    def _module_name(self, module: ModuleInfo, name: str) -> RF:
        """A name that is not local to the function: import, module constant, or free atom."""
        head, _, rest = name.partition(".")
        if not rest and head in module.assigns and head not in module.imports:
            return self._guarded(lambda: self.ev(module.assigns[head], _Frame(module, None, None, {}), -1))
        canon = self.canonical(module, name)
        # an in-package module constant reached through an import
        modname, _, attr = canon.rpartition(".")
        if modname in self.repo.modules and attr in self.repo.modules[modname].assigns:
            m2 = self.repo.modules[modname]
            return self._guarded(lambda: self.ev(m2.assigns[attr], _Frame(m2, None, None, {}), -1))
        return self.atom(canon)

    def _guarded(self, thunk):
        self._depth += 1
        if self._depth > 24:
            raise AnalysisError("term evaluation recursion too deep")
        try:
            return thunk()
        finally:
            self._depth -= 1

    def _name(self, name: str, fr: _Frame, at: int) -> RF:
        if name in fr.bound:
            return fr.bound[name]
        head = name.split(".")[0]
        if fr.df is None:
            return self._module_name(fr.module, name)
        sn = fr.df.selfname
        var = name
        if sn and head == sn and "." in name:
            var = ".".join(name.split(".")[:2])
        elif "." in name:
            var = head
        rd = fr.df.reaching(at, var)
        if not rd:
            if sn and head == sn:
                return RF.atom(name)
            return self._module_name(fr.module, name)
        if all(d.kind == "import" for d in rd):
            return self._module_name(_local_imports(fr), name)
        if var != name:
            # attribute of a local object: opaque atom (the object itself is not a term)
            if all(d.kind == "param" for d in rd):
                return RF.atom(name)
            raise AnalysisError(f"{fr.func.qualname}: attribute `{name}` of a locally assigned object is outside "
                                "the term language")
        if len(rd) == 1 and rd[0].kind == "param":
            return fr.env.get(name, RF.atom(name))
        d = fr.df.single_def(at, name)
        if d is None or d.kind not in ("assign", "walrus") or d.value is None:
            raise AnalysisError(f"{fr.func.qualname}: `{name}` has {len(rd)} reaching definitions "
                                f"({', '.join(sorted({x.kind for x in rd}))}); its value is not a single term")
        st = fr.df.cfg.nodes[d.node].ast
        if isinstance(st, ast.Assign) and not any(isinstance(t, ast.Name) and t.id == name or dotted(t) == name
                                                   for t in st.targets):
            if not (isinstance(st.targets[0], (ast.Tuple, ast.List)) and isinstance(st.value, (ast.Tuple, ast.List))):
                raise AnalysisError(f"{fr.func.qualname}: `{name}` is bound by unpacking")
        return self._guarded(lambda: self.ev(d.value, fr, d.node))

    # ------------------------------------------------------------------ expressions
    def ev(self, n: ast.AST, fr: _Frame, at: int) -> RF:
        if isinstance(n, ast.Constant):
            if isinstance(n.value, bool) or not isinstance(n.value, (int, float)):
                raise AnalysisError(f"constant {n.value!r} is not a number")
            return RF.const(Fraction(repr(n.value)) if isinstance(n.value, float) else n.value)
        if isinstance(n, ast.Name):
            return self._name(n.id, fr, at)
        if isinstance(n, ast.Attribute):
            d = dotted(n)
            if d is None:
                raise AnalysisError(f"attribute of a computed object `{norm_text(n)}` is outside the term language")
            return self._name(d, fr, at)
        if isinstance(n, ast.UnaryOp):
            if isinstance(n.op, ast.USub):
                return -self.ev(n.operand, fr, at)
            if isinstance(n.op, ast.UAdd):
                return self.ev(n.operand, fr, at)
            raise AnalysisError(f"operator in `{norm_text(n)}` is outside the term language")
        if isinstance(n, ast.BinOp):
            if isinstance(n.op, ast.Pow):
                return self._power(self.ev(n.left, fr, at), self.ev(n.right, fr, at), n)
            a, b = self.ev(n.left, fr, at), self.ev(n.right, fr, at)
            if isinstance(n.op, ast.Add):
                return a + b
            if isinstance(n.op, ast.Sub):
                return a - b
            if isinstance(n.op, ast.Mult):
                return a * b
            if isinstance(n.op, ast.Div):
                return a / b
            raise AnalysisError(f"operator in `{norm_text(n)}` is outside the term language")
        if isinstance(n, ast.Subscript):
            base = self.ev(n.value, fr, at).single_atom()
            idx = n.slice
            if isinstance(idx, ast.UnaryOp) and isinstance(idx.op, ast.USub) and isinstance(idx.operand, ast.Constant):
                idx = ast.Constant(value=-idx.operand.value)
            if base is None or not (isinstance(idx, ast.Constant) and isinstance(idx.value, int)):
                raise AnalysisError(f"subscript `{norm_text(n)}` is outside the term language")
            return RF.atom(f"{base}[{idx.value}]")
        if isinstance(n, ast.Call):
            return self._call(n, fr, at)
        raise AnalysisError(f"`{norm_text(n)[:60]}` ({type(n).__name__}) is outside the term language")

    def _power(self, base: RF, exp: RF, n: ast.AST) -> RF:
        e = exp.const_value()
        if e is None:
            raise AnalysisError(f"non-constant exponent in `{norm_text(n)}`")
        if e.denominator == 1:
            return base.pow_int(int(e))
        if e.denominator == 2:
            return self.rad.sqrt(base).pow_int(int(e.numerator))
        raise AnalysisError(f"exponent {e} in `{norm_text(n)}` is outside the term language")

    def call_target(self, n: ast.Call, fr: _Frame, at: int = -1):
        cn = dotted(n.func)
        if cn is None:
            return None, None
        mod = fr.module
        if fr.df is not None and at >= 0:
            rd = fr.df.reaching(at, cn.split(".")[0])
            if rd and all(d.kind == "import" for d in rd):
                mod = _local_imports(fr)
            elif rd:
                return cn, None
        canon = self.canonical(mod, cn)
        tgt = self.repo.resolve_name(mod, cn)
        return canon, tgt

    def _call(self, n: ast.Call, fr: _Frame, at: int) -> RF:
        canon, tgt = self.call_target(n, fr, at)
        if canon is None:
            raise AnalysisError(f"call `{norm_text(n)[:60]}` is outside the term language")
        if canon in IDENTITY and len(n.args) == 1 and not n.keywords:
            return self.ev(n.args[0], fr, at)
        if canon == "typing.cast" and len(n.args) == 2:
            return self.ev(n.args[1], fr, at)
        if canon in SQRT and len(n.args) == 1 and not n.keywords:
            return self.rad.sqrt(self.ev(n.args[0], fr, at))
        if isinstance(tgt, FuncInfo) and tgt.cls is None:
            if tgt.qualname in self.opaque:
                return RF.atom(self.opaque_key(tgt, n, fr, at))
            bound = self.bind(n, tgt, fr, at)
            return self._guarded(lambda: self.eval_function(tgt, bound))
        if tgt is None and len(n.args) == 1 and not n.keywords and not isinstance(n.args[0], ast.Starred) and (
                canon.startswith(FUNCTION_MODULES) or canon == "abs"):
            # a one-argument library function outside the ring language: opaque function atom f(<normal form>)
            return self.rad.apply(canon.rsplit(".", 1)[-1], self.ev(n.args[0], fr, at))
        raise AnalysisError(f"call to `{canon}` is outside the term language")

    def opaque_key(self, tgt: FuncInfo, n: ast.Call, fr: _Frame, at: int) -> str:
        parts = []
        for p, a in self.bind_exprs(n, tgt).items():
            try:
                parts.append(f"{p}={self.ev(a, fr, at).key()}")
            except AnalysisError:
                parts.append(f"{p}=‹{norm_text(a)}›")
        return f"{tgt.qualname}({','.join(parts)})"

    @staticmethod
    def bind_exprs(n: ast.Call, tgt: FuncInfo) -> dict[str, ast.expr]:
        if any(isinstance(a, ast.Starred) for a in n.args) or any(k.arg is None for k in n.keywords):
            raise AnalysisError(f"call to {tgt.qualname} with */** arguments")
        out: dict[str, ast.expr] = {}
        params = tgt.positional_params
        if len(n.args) > len(params):
            raise AnalysisError(f"call to {tgt.qualname} with too many positional arguments")
        for p, a in zip(params, n.args):
            out[p] = a
        for k in n.keywords:
            out[k.arg] = k.value
        return out

    def bind(self, n: ast.Call, tgt: FuncInfo, fr: _Frame, at: int) -> dict[str, RF]:
        out = {p: self.ev(a, fr, at) for p, a in self.bind_exprs(n, tgt).items()}
        for p, dflt in tgt.defaults().items():
            if p not in out:
                try:
                    out[p] = self.ev(dflt, _Frame(tgt.module, None, None, {}), -1)
                except AnalysisError:
                    pass
        return out


def _local_imports(fr: _Frame) -> ModuleInfo:
    """Module view extended by the function-level imports of the frame's function."""
    m = fr.module
    extra: dict[str, str] = {}
    for n in ast.walk(fr.func.node):
        if isinstance(n, ast.ImportFrom) and n.module and not n.level:
            for a in n.names:
                extra[a.asname or a.name] = f"{n.module}.{a.name}"
        elif isinstance(n, ast.Import):
            for a in n.names:
                extra[a.asname or a.name.split(".")[0]] = a.name if a.asname else a.name.split(".")[0]
    if not extra:
        return m
    m2 = ModuleInfo(m.name, m.path, m.relpath, m.tree, m.source, m.functions, m.classes, {**m.imports, **extra},
                    m.assigns)
    return m2


# ---------------------------------------------------------------------- typed attribute chains
def resolve_property_chain(repo: Repo, cls: ClassInfo, attrs: list[str], depth: int = 0):
    """Follow `self.a.b.c` through property getters whose body is a single `return`.

    Returns (FuncInfo of the final getter, its return expression).  The class of an intermediate
    `self.a` is taken from the return annotation of the property `a`."""
    if depth > 6 or not attrs:
        raise AnalysisError("property chain too deep")
    g = cls.find_method(attrs[0], "getter")
    if g is None or not g.is_property:
        raise AnalysisError(f"{cls.qualname}.{attrs[0]} is not a property")
    if len(attrs) == 1:
        ret = TermEval.single_return(g)
        d = dotted(ret.value)
        sn = g.positional_params[0] if g.positional_params else "self"
        if d and d.startswith(sn + ".") and not isinstance(ret.value, ast.Call):
            assert g.cls is not None
            return resolve_property_chain(repo, cls, d.split(".")[1:], depth + 1)
        return g, ret.value
    ann = g.node.returns
    if isinstance(ann, ast.Constant) and isinstance(ann.value, str):
        ann = ast.parse(ann.value, mode="eval").body
    nm = dotted(ann) if ann is not None else None
    t = repo.resolve_name(g.module, nm) if nm else None
    if not isinstance(t, ClassInfo):
        raise AnalysisError(f"cannot type `{cls.name}.{attrs[0]}` (return annotation {nm!r})")
    return resolve_property_chain(repo, t, attrs[1:], depth + 1)
