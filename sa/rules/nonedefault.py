"""R-NONEDEFAULT — an optional numeric parameter is defaulted with `is None`, never by truthiness.

`x = x or default`, `if not x: x = default`, `x if x else default` replace the legal value 0 / 0.0 (an empty window
ending at slice 0, an integration limit at 0 rad) by the default.  `sites(f, names)` returns the nodes of function `f`
where one of the parameters `names` is used as a truth value.
"""
from __future__ import annotations

import ast

from ..model import FuncInfo, walk_no_nested


def _is(n: ast.AST, names: set[str]) -> bool:
    """the parameter itself or a component of it (limits[0])"""
    while isinstance(n, ast.Subscript):
        n = n.value
    return isinstance(n, ast.Name) and n.id in names


def _truth(n: ast.AST, names: set[str]) -> bool:
    """the parameter read as a truth value, possibly negated"""
    while isinstance(n, ast.UnaryOp) and isinstance(n.op, ast.Not):
        n = n.operand
    return _is(n, names)


def sites(f: FuncInfo, names: set[str]) -> list[tuple[ast.AST, str]]:
    out = []
    for n in walk_no_nested(f.node):
        if isinstance(n, ast.BoolOp) and any(_truth(v, names) for v in n.values[:-1] if isinstance(n.op, ast.Or)):
            out.append((n, "or"))
        elif isinstance(n, ast.BoolOp) and isinstance(n.op, ast.And) and any(_truth(v, names) for v in n.values):
            out.append((n, "and"))
        elif isinstance(n, (ast.If, ast.While, ast.IfExp)):
            t = n.test
            if _is(t, names) or (isinstance(t, ast.UnaryOp) and isinstance(t.op, ast.Not) and _is(t.operand, names)):
                out.append((n, "test"))
    return out


def check(ctx, rule: str, f: FuncInfo, names: set[str], what: str) -> int:
    from ..model import norm_text

    present = names & set(f.params)
    if not present:
        return 0
    found = sites(f, present)
    ctx.check(not found, rule, f"{f.qualname}:{'/'.join(sorted(present))} defaulted with `is None`",
              f.loc(found[0][0]) if found else f.where,
              f"{sorted(present)} are never used as truth values",
              f"`{norm_text(found[0][0])[:70]}` uses the optional {what} as a truth value: the legal value 0 is "
              "replaced by the default" if found else "", key_detail="nonedefault")
    return 1
