"""Element-precise data dependence on top of `cfg.DataFlow` (used by C08..C11).

`DataFlow.backward_slice` treats the target of `for i, x in enumerate(X)` as depending on all of X and
an attribute store `obj.meta = v` as a (weak) redefinition of `obj`.  Two of the C10 rules need more
precision than that:

* the *counter* of `enumerate(X[, start])` depends on `start` only — not on the elements of X;
  the k-th target of `zip(A0, A1, ...)` depends on `Ak` only (recursively for nested targets);
* "the data of the yielded slice" must not be considered dependent on something that only flows
  into a bookkeeping attribute set after construction (`slic._exit_planes = ...`): the caller supplies
  `attr_filter(attr_name) -> bool` saying which attribute stores carry data.

`deps(df, node, expr)` returns the parameters / external names the value of `expr` at CFG node `node`
may depend on (may-dependence: union over reaching definitions).  Nothing is executed.
"""
from __future__ import annotations

import ast
from dataclasses import dataclass, field
from typing import Callable, Optional

from ..cfg import DataFlow, Def, uses_of
from ..model import call_name, dotted


@dataclass
class DepResult:
    params: set[str] = field(default_factory=set)
    external: set[str] = field(default_factory=set)
    visited: set[str] = field(default_factory=set)
    def_nodes: set[int] = field(default_factory=set)
    def_vars: set[tuple[int, str]] = field(default_factory=set)  # (CFG node, variable) of every followed definition
    calls: list[ast.Call] = field(default_factory=list)  # calls met while following definitions
    sources: list[tuple[int, ast.AST]] = field(default_factory=list)  # (CFG node, expression) contributing

    def depends_on(self, name: str) -> bool:
        return name in self.params or name in self.external

    def roots(self) -> set[str]:
        return self.params | self.external


def _names_in_target(t: ast.AST) -> set[str]:
    out = set()
    for n in ast.walk(t):
        if isinstance(n, ast.Name):
            out.add(n.id)
        elif isinstance(n, ast.Attribute):
            d = dotted(n)
            if d:
                out.add(d)
    return out


def element_sources(target: ast.AST, it: ast.AST, var: str) -> Optional[list[ast.AST]]:
    """Expressions the loop variable `var` (bound somewhere inside `target`) takes its value from when
    iterating `it`.  [] means "from nothing but the iteration count".  None = no refinement possible."""
    if isinstance(it, ast.Call):
        cn = call_name(it)
        if cn == "enumerate" and isinstance(target, (ast.Tuple, ast.List)) and len(target.elts) == 2 and it.args:
            counter, elem = target.elts
            start = [k.value for k in it.keywords if k.arg == "start"] + list(it.args[1:2])
            if var in _names_in_target(counter) and var not in _names_in_target(elem):
                return list(start)
            if var in _names_in_target(elem):
                r = element_sources(elem, it.args[0], var)
                return r if r is not None else [it.args[0]]
            return None
        if cn == "zip" and isinstance(target, (ast.Tuple, ast.List)) and len(target.elts) == len(it.args) and not any(
                isinstance(a, ast.Starred) for a in it.args):
            out: list[ast.AST] = []
            hit = False
            for t, a in zip(target.elts, it.args):
                if var in _names_in_target(t):
                    hit = True
                    r = element_sources(t, a, var)
                    out += r if r is not None else [a]
            return out if hit else None
    return None


class Deps:
    def __init__(self, df: DataFlow, attr_filter: Optional[Callable[[str], bool]] = None,
                 skip_def: Optional[Callable[[Def], bool]] = None):
        self.df = df
        self.attr_filter = attr_filter
        self.skip_def = skip_def

    # which expressions does definition `d` of `var` read?
    def _def_sources(self, d: Def, var: str) -> Optional[list[ast.AST]]:
        """None -> the definition is ignored (filtered)."""
        st = self.df.cfg.nodes[d.node].ast
        if self.skip_def is not None and self.skip_def(d):
            return None
        if d.kind == "for" and isinstance(st, ast.For):
            r = element_sources(st.target, st.iter, var)
            if r is not None:
                return r
            return [st.iter]
        if d.kind in ("store", "aug") and self.attr_filter is not None:
            tgt = None
            if isinstance(st, ast.Assign):
                for t in st.targets:
                    for e in ([t] if not isinstance(t, (ast.Tuple, ast.List)) else t.elts):
                        if isinstance(e, ast.Attribute) and _base_name(e) == var.split(".")[0]:
                            tgt = e
            elif isinstance(st, ast.AugAssign) and isinstance(st.target, ast.Attribute):
                tgt = st.target
            if tgt is not None and not self.attr_filter(tgt.attr):
                return None
        if d.value is None:
            return []
        return [d.value]

    def deps(self, node_idx: int, expr: ast.AST) -> DepResult:
        df = self.df
        res = DepResult()
        seen: set[tuple[int, str]] = set()
        work: list[tuple[int, str]] = [(node_idx, v) for v in uses_of(expr, df.selfname)]
        res.sources.append((node_idx, expr))
        for c in ast.walk(expr):
            if isinstance(c, ast.Call):
                res.calls.append(c)
        while work:
            at, var = work.pop()
            if (at, var) in seen:
                continue
            seen.add((at, var))
            res.visited.add(var)
            rd = df.reaching(at, var)
            if not rd:
                res.external.add(var)
                continue
            for d in rd:
                if d.kind == "param":
                    res.params.add(var)
                    continue
                srcs = self._def_sources(d, var)
                if srcs is None:
                    continue
                res.def_nodes.add(d.node)
                res.def_vars.add((d.node, var))
                for s in srcs:
                    res.sources.append((d.node, s))
                    for c in ast.walk(s):
                        if isinstance(c, ast.Call):
                            res.calls.append(c)
                    for u in uses_of(s, df.selfname):
                        work.append((d.node, u))
                if d.kind == "aug":
                    work.append((d.node, var))
                elif not d.strong:
                    work.append((d.node, var))
            if var.startswith((df.selfname or "\0") + ".") and not any(d.strong for d in rd):
                res.external.add(var)
        return res


def _base_name(e: ast.AST) -> Optional[str]:
    while isinstance(e, (ast.Attribute, ast.Subscript)):
        e = e.value
    return e.id if isinstance(e, ast.Name) else None


def enclosing_loops(func: ast.AST, stmt: ast.AST) -> list[ast.AST]:
    """For/While statements of `func` lexically enclosing `stmt` (outermost first), not crossing
    nested function definitions."""
    path: list[ast.AST] = []

    def rec(node: ast.AST, stack: list[ast.AST]) -> bool:
        if node is stmt:
            path.extend(stack)
            return True
        for child in ast.iter_child_nodes(node):
            if isinstance(child, (ast.FunctionDef, ast.AsyncFunctionDef, ast.Lambda, ast.ClassDef)) and child is not stmt:
                continue
            ns = stack + [node] if isinstance(node, (ast.For, ast.While)) else stack
            if rec(child, ns):
                return True
        return False

    rec(func, [])
    return path


def stmt_of(func: ast.AST, expr: ast.AST) -> Optional[ast.stmt]:
    """Innermost statement of `func` containing the expression node `expr`."""
    best = None
    for st in ast.walk(func):
        if isinstance(st, ast.stmt):
            for n in ast.walk(st):
                if n is expr:
                    if best is None or _contains(best, st):
                        best = st
                    break
    return best


def _contains(outer: ast.AST, inner: ast.AST) -> bool:
    return any(n is inner for n in ast.walk(outer))


def cfg_stmt_of(df: DataFlow, func: ast.AST, expr: ast.AST):
    """CFG node holding the evaluation of `expr` (the innermost statement that has a CFG node)."""
    cands = []
    for st in ast.walk(func):
        if isinstance(st, ast.stmt) and id(st) in df.cfg.stmt_node:
            if isinstance(st, (ast.If, ast.For, ast.While, ast.With, ast.Try)):
                heads = []
                if isinstance(st, ast.If):
                    heads = [st.test]
                elif isinstance(st, ast.For):
                    heads = [st.iter, st.target]
                elif isinstance(st, ast.While):
                    heads = [st.test]
                elif isinstance(st, ast.With):
                    heads = [i.context_expr for i in st.items]
                if any(_contains(h, expr) for h in heads):
                    cands.append(st)
            elif _contains(st, expr):
                cands.append(st)
    if not cands:
        return None
    # innermost = the one not containing any other candidate
    for c in cands:
        if not any(o is not c and _contains(c, o) for o in cands):
            return df.cfg.node_of(c)
    return df.cfg.node_of(cands[-1])
