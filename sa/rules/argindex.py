"""R-ARGINDEX — Ensemble.ensemble_blocks / generate_blocks address every partition argument by its own index range.

`_partition_args` returns one object array per group of ensemble axes (GridScan: two 1-d arrays; an array object:
one n-d array).  Both block enumerators flatten these groups into one index space:

  ensemble_blocks   da.blockwise(func, out_ind, arg_0, ind_0, arg_1, ind_1, ...) with ind_j the consecutive range
                    [Σ_{i<j} rank_i, Σ_{i≤j} rank_i) and out_ind all of them in order;
  generate_blocks   for every block multi-index I (np.ndindex over the concatenated shapes, paired with the product of
                    the per-axis (start, stop) ranges) yields  (I, slices, func(arg_0[I[ind_0]], arg_1[I[ind_1]], ...))
                    with slices[d] == slice(start_d[I_d], stop_d[I_d]).

The index arithmetic is pure python (accumulate, range, zip, tuple, a running offset).  It is executed with the
labelled-axis interpreter's python subset (sa/rules/axislayout.py) for a representative argument list of ranks (1, 2, 1)
with distinct block counts per axis; the dask call / the block function / the argument arrays are opaque objects whose
uses are recorded.  Any deviation (an argument addressed by another argument's indices, start and stop exchanged, a
dropped accumulation step) shows as a difference between the recorded and the expected addressing for that input.
"""
from __future__ import annotations

import itertools

from ..model import AnalysisError, FuncInfo
from . import axislayout as L
from .absint import DomainError

RANKS = (1, 2, 1)
COUNTS = ((2,), (3, 2), (4,))  # blocks per axis, grouped by argument
CHUNKS = ((5, 6), (1, 2, 3), (7, 8), (2, 2, 2, 3))  # validated chunks, one tuple per ensemble axis


class _Hooks(L.Hooks):
    def __init__(self, stop_at_blockwise: bool = False):
        self.blockwise = None
        self.partition_lazy = None
        self.stop = stop_at_blockwise

    def name(self, ident, interp):
        if ident in ("da", "dask", "itertools", "warnings"):
            return L.Obj(("module", ident))
        return NotImplemented

    def attr(self, base, attr, interp):
        if isinstance(base, L.Obj) and isinstance(base.tag, tuple) and base.tag[0] == "arg" and attr == "shape":
            return COUNTS[base.tag[1]]
        if isinstance(base, L.Obj) and base.tag == "array":
            if attr == "ndim":
                return len(MOB_CHUNKS)
            if attr == "chunks":
                return MOB_CHUNKS
        if isinstance(base, L.Obj) and isinstance(base.tag, tuple) and base.tag[0] == "axis" and attr == "numblocks":
            return (len(MOB_CHUNKS[base.tag[1]]),)
        if isinstance(base, L.Obj) and isinstance(base.tag, tuple) and base.tag[0] == "module":
            return L.Obj(("module", f"{base.tag[1]}.{attr}"))
        return NotImplemented

    def call(self, fname, args, kwargs, node, interp):
        short = fname.split(".")[-1]
        recv = args[0] if args else None
        is_self = isinstance(recv, L.Obj) and recv.tag == "self"
        if is_self and short == "_validate_ensemble_chunks":
            return CHUNKS
        if is_self and short == "_partition_args":
            b = dict(zip(("chunks", "lazy"), args[1:]))
            b.update(kwargs)
            self.partition_lazy = b.get("lazy", "default")
            return tuple(L.Obj(("arg", j)) for j in range(len(RANKS)))
        if is_self and short == "_from_partitioned_args":
            return L.Obj("block function")
        if short == "accumulate" and len(args) >= 1:
            seq = args[-1] if not (isinstance(recv, L.Obj) and len(args) == 2) else args[1]
            items = interp._iterate(seq, node)
            if not all(isinstance(x, int) and not isinstance(x, bool) for x in items):
                raise AnalysisError("accumulate over non-integers")
            return list(itertools.accumulate(items))
        if short == "interleave" and len(args) == 2:
            # abtem.core.utils.interleave(l1, l2): tuple(val for pair in zip(l1, l2) for val in pair)
            return tuple(v for pair in zip(interp._iterate(args[0], node), interp._iterate(args[1], node)) for v in pair)
        if short == "product" and isinstance(recv, L.Obj) and recv.tag == ("module", "itertools"):
            return [tuple(t) for t in itertools.product(*(interp._iterate(a, node) for a in args[1:]))]
        if short == "chunk_ranges":
            out = []
            for c in interp._iterate(args[-1], node):
                ends = list(itertools.accumulate(c))
                out.append(tuple((e - n, e) for e, n in zip(ends, c)))
            return tuple(out)
        if short == "blockwise" and isinstance(recv, L.Obj) and recv.tag == ("module", "da"):
            if self.blockwise is not None:
                raise AnalysisError("ensemble_blocks: more than one da.blockwise call")
            self.blockwise = (args[1:], kwargs)
            if self.stop:
                raise _Stop()
            return L.Obj("blocks")
        if short == "catch_warnings" or short == "filterwarnings":
            return None
        if fname == "__getitem__" and isinstance(recv, L.Obj) and isinstance(recv.tag, tuple) and recv.tag[0] == "arg":
            return ("item", recv.tag[1], args[1])
        if fname == "__call__" and isinstance(recv, L.Obj) and recv.tag == "block function":
            return ("block", tuple(args[1:]), tuple(sorted(kwargs)))
        return NotImplemented


_SKIP = object()
MOB_CHUNKS = ((3, 4), (5,))  # chunks of the 2-d array handed to multi_output_blockwise


class _Stop(Exception):
    pass


def check_multi_output(ctx, mob: FuncInfo, rule: str = "R-ARGINDEX") -> int:
    """multi_output_blockwise: symbols of the new (transform) axes come first, one consecutive range per argument
    array; the array's own axes follow; every per-axis metadata array is addressed by the symbol of its own axis."""
    P = mob.positional_params
    need = ("func", "array", "chunks", "array_axes", "new_axes", "out_metas", "drop_axes", "new_shapes")
    if tuple(P[:len(need)]) != need:
        raise AnalysisError(f"{mob.qualname}: parameters changed ({P})")
    hooks = _Hooks(stop_at_blockwise=True)
    it = L.LayoutInterp(hooks, {"unused": 2})
    nd = len(MOB_CHUNKS)
    new = tuple(L.Obj(("arg", j)) for j in range(len(RANKS)))
    env = {"func": L.Obj("block function"), "array": L.Obj("array"), "chunks": L.OPAQUE,
           "array_axes": tuple(L.Obj(("axis", j)) for j in range(nd)), "new_axes": new,
           "out_metas": (L.OPAQUE, L.OPAQUE), "drop_axes": ((), ()), "new_shapes": (L.OPAQUE, L.OPAQUE)}
    if mob.node.args.kwarg is not None:
        env[mob.node.args.kwarg.arg] = {}
    cname = f"{mob.qualname}:blockwise symbols"
    try:
        it.run(mob.body, env)
        raise AnalysisError(f"{mob.qualname}: no da.blockwise call was reached")
    except _Stop:
        pass
    except DomainError as e:
        ctx.violation(rule, cname, mob.loc(e.node) if e.node is not None else mob.where,
                      f"for a {nd}-d array and transform arguments of ranks {RANKS} the symbol bookkeeping fails: {e}",
                      key_detail="fails")
        return 1
    offs, total = _offsets()
    pos, kws = hooks.blockwise
    want = [L.Obj("block function"), tuple(range(total + nd)), L.Obj("array"), tuple(range(total, total + nd))]
    for j in range(nd):
        want += [L.Obj(("axis", j)), (total + j,)]
    for j, (a, b) in enumerate(offs):
        want += [new[j], tuple(range(a, b))]
    got = [tuple(x) if isinstance(x, list) else x for x in pos]
    # the (axis, symbol) pairs may be listed in any order: dask matches operands by symbols
    def pairs(seq):
        head, rest = seq[:4], seq[4:]
        return head, sorted(((_show(rest[i]), rest[i + 1]) for i in range(0, len(rest) - 1, 2)), key=repr), len(rest) % 2
    ctx.check(pairs(got) == pairs(want), rule, cname, mob.where,
              f"{nd}-d array, argument ranks {RANKS}: new-axis symbols [0, {total}) by argument, array symbols "
              f"[{total}, {total + nd}), axis metadata j on symbol {total}+j",
              f"for a {nd}-d array and transform arguments of ranks {RANKS} da.blockwise receives "
              f"({', '.join(_show(x) for x in got)[:400]}); expected ({', '.join(_show(x) for x in want)})",
              key_detail="symbols")
    return 1


def _offsets():
    offs, o = [], 0
    for r in RANKS:
        offs.append((o, o + r))
        o += r
    return offs, o


def check(ctx, eb: FuncInfo, gb: FuncInfo, rule: str = "R-ARGINDEX") -> int:
    offs, total = _offsets()
    n = 0
    # ------------------------------------------------------------------ ensemble_blocks
    hooks = _Hooks()
    it = L.LayoutInterp(hooks, {"unused": 2})
    env = {eb.positional_params[0]: L.Obj("self")}
    for p in eb.positional_params[1:]:
        env[p] = None
    cname = f"{eb.qualname}:blockwise indices"
    try:
        it.run(eb.body, env)
        failure = None
    except DomainError as e:
        failure = (e, e.node)
    except L.Raises as e:
        failure = (f"raises {e.name}", None)
    n += 1
    if failure is not None:
        ctx.violation(rule, cname, eb.loc(failure[1]) if failure[1] is not None else eb.where,
                      f"for partition arguments of ranks {RANKS} the index bookkeeping fails: {failure[0]}",
                      key_detail="fails")
    else:
        if hooks.blockwise is None:
            raise AnalysisError(f"{eb.qualname}: no da.blockwise call was reached")
        pos, kws = hooks.blockwise
        want = [L.Obj("block function"), tuple(range(total))]
        for j, (a, b) in enumerate(offs):
            want += [L.Obj(("arg", j)), tuple(range(a, b))]
        got = [tuple(x) if isinstance(x, list) else x for x in pos]
        ctx.check(got == want, rule, cname, eb.where,
                  f"ranks {RANKS}: argument j gets the indices [Σ_(i<j) rank_i, Σ_(i≤j) rank_i), output = all {total}",
                  f"for partition arguments of ranks {RANKS} da.blockwise receives "
                  f"({', '.join(_show(x) for x in got)}); expected (func, {tuple(range(total))}, "
                  + ", ".join(f"arg{j}, {tuple(range(a, b))}" for j, (a, b) in enumerate(offs))
                  + "): every argument must be addressed by its own consecutive output indices", key_detail="indices")
    ctx.check(hooks.partition_lazy is True or hooks.partition_lazy == "default", rule, f"{eb.qualname}:mode", eb.where,
              "the lazy enumerator partitions with lazy=True",
              f"ensemble_blocks (the lazy enumerator) calls _partition_args with lazy={hooks.partition_lazy!r}",
              key_detail="mode")
    # ------------------------------------------------------------------ generate_blocks
    hooks = _Hooks()
    it = L.LayoutInterp(hooks, {"unused": 2})
    env = {gb.positional_params[0]: L.Obj("self")}
    for p in gb.positional_params[1:]:
        env[p] = None
    cname = f"{gb.qualname}:block addressing"
    n += 1
    try:
        it.run(gb.body, env)
    except DomainError as e:
        ctx.violation(rule, cname, gb.loc(e.node) if e.node is not None else gb.where,
                      f"for partition arguments with block counts {COUNTS} the enumeration fails: {e}",
                      key_detail="fails")
        return n
    except L.Raises as e:
        ctx.violation(rule, cname, gb.where, f"for partition arguments with block counts {COUNTS} the enumeration "
                      f"raises {e.name}", key_detail="fails")
        return n
    ctx.check(hooks.partition_lazy is False, rule, f"{gb.qualname}:mode", gb.where,
              "the eager enumerator partitions with lazy=False",
              f"generate_blocks (the eager enumerator) calls _partition_args with lazy={hooks.partition_lazy!r}",
              key_detail="mode")
    flat_counts = tuple(c for grp in COUNTS for c in grp)
    ranges = []
    for c in CHUNKS:
        ends = list(itertools.accumulate(c))
        ranges.append([(e - k, e) for e, k in zip(ends, c)])
    want = []
    for I in itertools.product(*(range(c) for c in flat_counts)):
        sl = tuple(slice(*ranges[d][I[d]]) for d in range(total))
        blk = ("block", tuple(("item", j, tuple(I[a:b])) for j, (a, b) in enumerate(offs)), ())
        want.append((tuple(I), sl, blk))
    got = [tuple(y) if isinstance(y, (list, tuple)) else y for y in it.yields]
    if len(got) != len(want):
        ctx.violation(rule, cname, gb.where, f"block counts {COUNTS}: {len(got)} blocks are generated, expected "
                      f"{len(want)} (one per combination of per-axis blocks)", key_detail="count")
        return n
    bad = next((k for k, (g, w) in enumerate(zip(got, want)) if _norm(g) != _norm(w)), None)
    ctx.check(bad is None, rule, cname, gb.where,
              f"block counts {COUNTS}: every block I is built from arg_j[I[own indices]] with slices (start, stop) of "
              f"its own chunks ({len(want)} blocks)",
              "" if bad is None else
              f"block counts {COUNTS}, chunks {CHUNKS}: block #{bad} is generated as {_show(got[bad])[:260]}; expected "
              f"{_show(want[bad])[:260]}", key_detail="addressing")
    return n


def _norm(x):
    if isinstance(x, (list, tuple)):
        return tuple(_norm(y) for y in x)
    if isinstance(x, slice):
        return ("slice", x.start, x.stop, x.step)
    return x


def _show(x) -> str:
    if isinstance(x, L.Obj):
        t = x.tag
        if isinstance(t, tuple) and t[0] in ("arg", "axis"):
            return f"{t[0]}{t[1]}"
        return "func" if t == "block function" else str(t)
    if isinstance(x, (list, tuple)):
        if len(x) == 3 and x[0] == "item":
            return f"arg{x[1]}[{x[2]}]"
        if len(x) == 3 and x[0] == "block":
            return "func(" + ", ".join(_show(a) for a in x[1]) + ")"
        return "(" + ", ".join(_show(y) for y in x) + ")"
    return repr(x)
