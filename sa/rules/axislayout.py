"""Labelled-axis interpretation of array-assembly code (which array axis carries which quantity).

Shape analysis (sa/rules/shapes.py) knows how long every axis is; it cannot tell an (nx, ny, 2) array whose last
axis holds (x, y) from one whose middle axis does, nor outer(w0, w1) from outer(w1, w0).  This module executes the
numpy *assembly* subset used by the anchored functions — meshgrid, stack, expand_dims, outer, reshape(-1), `.T`,
`a[..., i]`, broadcasting arithmetic, and the pure-python index arithmetic that feeds them (range, list, tuple, del,
len, +) — over *labelled arrays*:

    LA(axes, val)    axes  tuple of axis labels; "1" is a broadcast axis of length one, "C" the component axis
                     val   the element value as a term (sa.terms.Poly) in per-axis atoms; a tuple of terms, one per
                           component, when the array has a component axis

Every label stands for an axis of a distinct length (`sizes`, pairwise different), so "numpy would refuse to
broadcast" and "two different quantities meet on one axis" coincide: both are a `DomainError`, i.e. a genuine
layout fault for the representative input.  The python-level control flow (ranks, number of components) is
executed concretely for the instantiation the caller chooses; everything the interpreter does not model raises
`AnalysisError` (the code moved out of reach) — it never guesses.

The caller supplies `Hooks`: values of free names / attributes of opaque objects (`self.start`, `d.values`), and
models of the calls that *produce* labelled vectors (np.linspace over the scan's parameters, spatial_frequencies,
complex_exponential).  Exponentials are kept as exp(term): products add exponents, so exp(a)·exp(b) and exp(a + b)
are the same value (`canon`).
"""
from __future__ import annotations

import ast
from dataclasses import dataclass
from fractions import Fraction
from typing import Any, Optional

from ..model import AnalysisError, dotted, norm_text, strip_docstring
from ..terms import Poly
from .absint import DomainError

COMP = "C"
ONE = "1"


@dataclass(frozen=True)
class LA:
    axes: tuple
    val: Any  # Poly | tuple[Poly, ...]

    @property
    def rank(self) -> int:
        return len(self.axes)

    def describe(self) -> str:
        return describe(self)


@dataclass(frozen=True)
class Sc:
    """A symbolic scalar (one component of a parameter, a constant like pi)."""
    poly: Poly


@dataclass(frozen=True)
class Obj:
    """An opaque object; attributes are resolved by the caller's hooks."""
    tag: Any


class _Marker:
    def __init__(self, n):
        self.n = n

    def __repr__(self):
        return self.n


MOD = _Marker("<array module>")
OPAQUE = _Marker("<opaque>")


class Raises(Exception):
    """A hook models a call that raises the named exception (e.g. an abstract method)."""

    def __init__(self, name: str):
        super().__init__(name)
        self.name = name


class Hooks:
    def name(self, ident: str, interp: "LayoutInterp"):
        return NotImplemented

    def attr(self, base, attr: str, interp: "LayoutInterp"):
        return NotImplemented

    def call(self, fname: str, args: list, kwargs: dict, node: ast.Call, interp: "LayoutInterp"):
        return NotImplemented


def _key(p) -> str:
    return " + ".join(t[2:] if t.startswith("1*") else t for t in p.key().split(" + "))


def describe(v) -> str:
    if isinstance(v, LA):
        val = "(" + ", ".join(_key(p) for p in v.val) + ")" if isinstance(v.val, tuple) else _key(v.val)
        return f"axes ({', '.join(v.axes)}) holding {val}"
    if isinstance(v, Sc):
        return f"scalar {_key(v.poly)}"
    if isinstance(v, (tuple, list)):
        return "[" + ", ".join(describe(x) for x in v) + "]"
    return repr(v)


class LayoutInterp:
    def __init__(self, hooks: Hooks, sizes: dict[str, int]):
        self.hooks = hooks
        self.sizes = dict(sizes)
        if len(set(self.sizes.values())) != len(self.sizes) or 1 in self.sizes.values():
            raise ValueError("axis sizes must be pairwise different and > 1")
        self.exp_atoms: dict[str, Poly] = {}
        self.depth = 0
        self.yields: list = []

    # ------------------------------------------------------------------ sizes / labels
    def size(self, a: LA, i: int) -> int:
        lab = a.axes[i]
        if lab == ONE:
            return 1
        if lab == COMP:
            return len(a.val)
        return self.sizes[lab]

    def shape(self, a: LA) -> tuple:
        return tuple(self.size(a, i) for i in range(a.rank))

    def label_of_size(self, n: int, node=None) -> str:
        if n == 1:
            return ONE
        for lab, s in self.sizes.items():
            if s == n:
                return lab
        raise AnalysisError(f"layout interpreter: an axis of length {n} is none of the labelled axes")

    def flat_label(self, axes: tuple) -> str:
        lab = "flat(" + ",".join(axes) + ")"
        if lab not in self.sizes:
            n = 1
            for a in axes:
                n *= 1 if a == ONE else self.sizes[a]
            if n in self.sizes.values():
                raise AnalysisError("layout interpreter: flattened length collides with a labelled axis")
            self.sizes[lab] = n
        return lab

    # ------------------------------------------------------------------ exponentials
    def exp(self, a):
        def one(p: Poly) -> Poly:
            name = f"E⟨{p.key()}⟩"
            self.exp_atoms[name] = p
            return Poly.atom(name)

        if isinstance(a, LA):
            return LA(a.axes, tuple(one(p) for p in a.val) if isinstance(a.val, tuple) else one(a.val))
        if isinstance(a, Sc):
            return Sc(one(a.poly))
        raise AnalysisError("layout interpreter: exponential of a non-array")

    def canon(self, p: Poly):
        """Normal form of a value: products of exponentials become one exponential of the summed exponent."""
        if isinstance(p, tuple):
            return tuple(self.canon(x) for x in p)
        if len(p.terms) == 1:
            (mono, coeff), = p.terms.items()
            if mono and all(a in self.exp_atoms for a, _ in mono):
                total = Poly()
                for a, e in mono:
                    total = total + self.exp_atoms[a] * Poly.const(e)
                return ("exp", coeff, total.key())
        return ("poly", p.key())

    def same(self, a, b) -> bool:
        if isinstance(a, LA) and isinstance(b, LA):
            return a.axes == b.axes and self.canon(a.val) == self.canon(b.val)
        return False

    # ------------------------------------------------------------------ arithmetic
    @staticmethod
    def _num_poly(v) -> Optional[Poly]:
        if isinstance(v, bool):
            return None
        if isinstance(v, int):
            return Poly.const(v)
        if isinstance(v, float):
            return Poly.const(Fraction(v).limit_denominator(10 ** 9))
        if isinstance(v, Sc):
            return v.poly
        return None

    @staticmethod
    def _op(op: ast.operator, x: Poly, y: Poly, node) -> Poly:
        if isinstance(op, ast.Add):
            return x + y
        if isinstance(op, ast.Sub):
            return x - y
        if isinstance(op, ast.Mult):
            return x * y
        if isinstance(op, ast.Div):
            if y.is_zero():
                raise DomainError("division by zero", node)
            return x * y.inverse()
        raise AnalysisError(f"layout interpreter: operator {type(op).__name__} on arrays")

    def broadcast_axes(self, a: tuple, b: tuple, node=None) -> tuple:
        out = []
        ra, rb = list(reversed(a)), list(reversed(b))
        for i in range(max(len(ra), len(rb))):
            x = ra[i] if i < len(ra) else ONE
            y = rb[i] if i < len(rb) else ONE
            if x == y or y == ONE:
                out.append(x)
            elif x == ONE:
                out.append(y)
            else:
                raise DomainError(f"operands do not line up: axis `{x}` of ({', '.join(a)}) meets axis `{y}` of "
                                  f"({', '.join(b)})", node)
        return tuple(reversed(out))

    def binop(self, op: ast.operator, a, b, node):
        pa, pb = self._num_poly(a), self._num_poly(b)
        if isinstance(a, LA) or isinstance(b, LA):
            la = a if isinstance(a, LA) else None
            lb = b if isinstance(b, LA) else None
            if la is None:
                if pa is None:
                    raise AnalysisError(f"layout interpreter: array combined with {describe(a)}")
                la = LA((), pa)
            if lb is None:
                if pb is None:
                    raise AnalysisError(f"layout interpreter: array combined with {describe(b)}")
                lb = LA((), pb)
            axes = self.broadcast_axes(la.axes, lb.axes, node)
            ta, tb = isinstance(la.val, tuple), isinstance(lb.val, tuple)
            if ta and tb:
                if len(la.val) != len(lb.val):
                    raise DomainError(f"component axes of different lengths ({len(la.val)} and {len(lb.val)})", node)
                val = tuple(self._op(op, x, y, node) for x, y in zip(la.val, lb.val))
            elif ta:
                val = tuple(self._op(op, x, lb.val, node) for x in la.val)
            elif tb:
                val = tuple(self._op(op, la.val, y, node) for y in lb.val)
            else:
                val = self._op(op, la.val, lb.val, node)
            return LA(axes, val)
        if isinstance(a, (int, float)) and isinstance(b, (int, float)) and not isinstance(a, bool) and not isinstance(b, bool):
            try:
                if isinstance(op, ast.Add):
                    return a + b
                if isinstance(op, ast.Sub):
                    return a - b
                if isinstance(op, ast.Mult):
                    return a * b
                if isinstance(op, ast.Div):
                    return a / b
                if isinstance(op, ast.FloorDiv):
                    return a // b
                if isinstance(op, ast.Mod):
                    return a % b
                if isinstance(op, ast.Pow):
                    return a ** b
            except ZeroDivisionError:
                raise DomainError("division by zero", node)
        if isinstance(a, (tuple, list)) and isinstance(b, (tuple, list)) and isinstance(op, ast.Add):
            if type(a) is not type(b):
                raise DomainError(f"can only concatenate {type(a).__name__} to {type(a).__name__}", node)
            return a + b
        if isinstance(a, (tuple, list)) and isinstance(b, int) and not isinstance(b, bool) and isinstance(op, ast.Mult):
            return a * b
        if isinstance(b, (tuple, list)) and isinstance(a, int) and not isinstance(a, bool) and isinstance(op, ast.Mult):
            return b * a
        if isinstance(a, (tuple, list)) or isinstance(b, (tuple, list)):
            raise DomainError(f"unsupported operand types for {type(op).__name__}: {type(a).__name__} and "
                              f"{type(b).__name__}", node)
        if pa is not None and pb is not None:
            return Sc(self._op(op, pa, pb, node))
        raise AnalysisError(f"layout interpreter: cannot combine {describe(a)} and {describe(b)}")

    # ------------------------------------------------------------------ array operations
    @staticmethod
    def _norm_axis(ax, rank: int, node, what: str) -> int:
        if not isinstance(ax, int) or isinstance(ax, bool):
            raise AnalysisError(f"layout interpreter: {what} axis is not a concrete integer")
        if not -rank <= ax < rank:
            raise DomainError(f"{what}: axis {ax} is out of bounds for an array of dimension {rank}", node)
        return ax % rank

    def expand_dims(self, a: LA, axis, node) -> LA:
        axs = list(axis) if isinstance(axis, (tuple, list)) else [axis]
        out_rank = a.rank + len(axs)
        pos = [self._norm_axis(x, out_rank, node, "expand_dims") for x in axs]
        if len(set(pos)) != len(pos):
            raise DomainError("expand_dims: repeated axis", node)
        it = iter(a.axes)
        return LA(tuple(ONE if i in pos else next(it) for i in range(out_rank)), a.val)

    def stack(self, seq, axis, node) -> LA:
        items = list(seq)
        if not items or not all(isinstance(x, LA) for x in items):
            raise AnalysisError("layout interpreter: stack of something that is not a sequence of arrays")
        if any(isinstance(x.val, tuple) for x in items):
            raise AnalysisError("layout interpreter: stacking arrays that already have a component axis")
        if len({x.axes for x in items}) != 1:
            raise DomainError("stack: all input arrays must have the same shape; got "
                              + " / ".join("(" + ", ".join(x.axes) + ")" for x in items), node)
        r = items[0].rank
        p = self._norm_axis(axis, r + 1, node, "stack")
        axes = items[0].axes[:p] + (COMP,) + items[0].axes[p:]
        return LA(axes, tuple(x.val for x in items))

    def meshgrid(self, arrays, indexing: str, node) -> list:
        arrs = list(arrays)
        if not all(isinstance(x, LA) and x.rank == 1 and not isinstance(x.val, tuple) for x in arrs):
            raise AnalysisError("layout interpreter: meshgrid of something that is not a list of vectors")
        if indexing not in ("ij", "xy"):
            raise DomainError(f"meshgrid: indexing={indexing!r}", node)
        labs = [x.axes[0] for x in arrs]
        if indexing == "xy" and len(labs) >= 2:
            labs[0], labs[1] = labs[1], labs[0]
        return [LA(tuple(labs), x.val) for x in arrs]

    def flatten(self, a: LA) -> LA:
        if isinstance(a.val, tuple):
            raise AnalysisError("layout interpreter: flattening an array with a component axis")
        if a.rank == 1:
            return a
        if a.rank == 0:
            return LA((ONE,), a.val)
        return LA((self.flat_label(a.axes),), a.val)

    def transpose(self, a: LA, axes=None, node=None) -> LA:
        if axes is None:
            return LA(tuple(reversed(a.axes)), a.val)
        axes = [self._norm_axis(x, a.rank, node, "transpose") for x in axes]
        if sorted(axes) != list(range(a.rank)):
            raise DomainError("transpose: axes don't match array", node)
        return LA(tuple(a.axes[i] for i in axes), a.val)

    def to_array(self, v, node) -> LA:
        if isinstance(v, LA):
            return v
        if isinstance(v, (tuple, list)):
            if v and all(isinstance(x, LA) for x in v):
                return self.stack(v, 0, node)
            ps = [self._num_poly(x) for x in v]
            if v and all(p is not None for p in ps):
                return LA((COMP,), tuple(ps))
        p = self._num_poly(v)
        if p is not None:
            return LA((), p)
        raise AnalysisError(f"layout interpreter: cannot make an array of {describe(v)}")

    def index(self, a: LA, idx, node):
        items = list(idx) if isinstance(idx, tuple) else [idx]
        n_real = sum(1 for x in items if x is not None and x is not Ellipsis)
        if n_real > a.rank:
            raise DomainError(f"too many indices for an array of dimension {a.rank}", node)
        if sum(1 for x in items if x is Ellipsis) > 1:
            raise DomainError("an index can only have a single ellipsis", node)
        if Ellipsis in items:
            k = items.index(Ellipsis)
            items = items[:k] + [slice(None)] * (a.rank - n_real) + items[k + 1:]
        else:
            items = items + [slice(None)] * (a.rank - n_real)
        axes, val, src = [], a.val, 0
        for it in items:
            if it is None:
                axes.append(ONE)
                continue
            lab = a.axes[src]
            if isinstance(it, slice):
                if not (it.start is None and it.stop is None and it.step is None):
                    raise AnalysisError("layout interpreter: partial slices of arrays are not modelled")
                axes.append(lab)
            elif isinstance(it, int) and not isinstance(it, bool):
                n = self.size(a, src)
                if not -n <= it < n:
                    raise DomainError(f"index {it} is out of bounds for axis `{lab}` with size {n}", node)
                if lab == COMP:
                    val = val[it]
            else:
                raise AnalysisError(f"layout interpreter: index {describe(it)}")
            src += 1
        return LA(tuple(axes), val)

    # ------------------------------------------------------------------ expressions
    def truth(self, v, node) -> bool:
        if isinstance(v, (bool, int, float, str, tuple, list)) or v is None:
            return bool(v)
        raise AnalysisError(f"layout interpreter: truth of `{norm_text(node)[:60]}` is not decidable")

    def eval(self, n: ast.AST, env: dict):
        if isinstance(n, ast.Constant):
            return n.value
        if isinstance(n, ast.Name):
            if n.id in env:
                return env[n.id]
            if n.id in ("np", "numpy", "xp"):
                return MOD
            v = self.hooks.name(n.id, self)
            if v is NotImplemented and n.id in ("object", "int", "float", "complex", "bool", "str"):
                return OPAQUE  # a type used as a value (dtype=...)
            if v is NotImplemented:
                raise AnalysisError(f"layout interpreter: free name `{n.id}`")
            return v
        if isinstance(n, (ast.Tuple, ast.List)):
            out = []
            for e in n.elts:
                if isinstance(e, ast.Starred):
                    out.extend(self._iterate(self.eval(e.value, env), e))
                else:
                    out.append(self.eval(e, env))
            return tuple(out) if isinstance(n, ast.Tuple) else out
        if isinstance(n, ast.Attribute):
            base = self.eval(n.value, env)
            return self._attr(base, n.attr, n)
        if isinstance(n, ast.UnaryOp):
            v = self.eval(n.operand, env)
            if isinstance(n.op, ast.Not):
                return not self.truth(v, n.operand)
            if isinstance(n.op, ast.USub):
                if isinstance(v, (int, float)) and not isinstance(v, bool):
                    return -v
                return self.binop(ast.Mult(), -1, v, n)
            if isinstance(n.op, ast.UAdd):
                return v
            raise AnalysisError("layout interpreter: unary operator")
        if isinstance(n, ast.BinOp):
            return self.binop(n.op, self.eval(n.left, env), self.eval(n.right, env), n)
        if isinstance(n, ast.BoolOp):
            if isinstance(n.op, ast.And):
                v = True
                for e in n.values:
                    v = self.eval(e, env)
                    if not self.truth(v, e):
                        return v
                return v
            v = False
            for e in n.values:
                v = self.eval(e, env)
                if self.truth(v, e):
                    return v
            return v
        if isinstance(n, ast.Compare):
            left = self.eval(n.left, env)
            res = True
            for op, c in zip(n.ops, n.comparators):
                right = self.eval(c, env)
                res = res and self._compare(op, left, right, n)
                left = right
            return res
        if isinstance(n, ast.IfExp):
            return self.eval(n.body if self.truth(self.eval(n.test, env), n.test) else n.orelse, env)
        if isinstance(n, ast.Subscript):
            base = self.eval(n.value, env)
            return self._subscript(base, self._index_value(n.slice, env), n)
        if isinstance(n, (ast.ListComp, ast.GeneratorExp)):
            out: list = []
            self._comprehend(n.generators, 0, n.elt, dict(env), out)
            return out
        if isinstance(n, ast.Call):
            return self._call(n, env)
        if isinstance(n, ast.Dict):
            if any(k is None for k in n.keys):
                raise AnalysisError("layout interpreter: dict display with ** expansion")
            return {self._hashable(self.eval(k, env), k): self.eval(v, env) for k, v in zip(n.keys, n.values)}
        if isinstance(n, ast.DictComp):
            pairs: list = []
            self._comprehend(n.generators, 0, ast.Tuple(elts=[n.key, n.value], ctx=ast.Load()), dict(env), pairs)
            return {self._hashable(k, n.key): v for k, v in pairs}
        if isinstance(n, ast.Starred):
            raise AnalysisError("layout interpreter: starred expression outside a call or display")
        raise AnalysisError(f"layout interpreter: expression {type(n).__name__} is not modelled")

    @staticmethod
    def _hashable(k, node):
        if isinstance(k, (int, str, float, bool, tuple)) or k is None:
            return k
        raise AnalysisError(f"layout interpreter: dict key `{norm_text(node)[:40]}` is not a concrete value")

    def _compare(self, op, a, b, node) -> bool:
        if isinstance(op, (ast.Is, ast.IsNot)):
            if a is None or b is None:
                r = a is b
            elif isinstance(a, (bool,)) and isinstance(b, bool):
                r = a is b
            else:
                raise AnalysisError("layout interpreter: identity test of two non-None values")
            return r if isinstance(op, ast.Is) else not r
        concrete = (int, float, str, bool, tuple, list, type(None))
        if not (isinstance(a, concrete) and isinstance(b, concrete)):
            raise AnalysisError(f"layout interpreter: comparison `{norm_text(node)[:60]}` is not decidable")
        try:
            if isinstance(op, ast.Eq):
                return a == b
            if isinstance(op, ast.NotEq):
                return a != b
            if isinstance(op, ast.Lt):
                return a < b
            if isinstance(op, ast.LtE):
                return a <= b
            if isinstance(op, ast.Gt):
                return a > b
            if isinstance(op, ast.GtE):
                return a >= b
            if isinstance(op, ast.In):
                return a in b
            if isinstance(op, ast.NotIn):
                return a not in b
        except TypeError as e:
            raise DomainError(str(e), node)
        raise AnalysisError("layout interpreter: comparison operator")

    def _index_value(self, s: ast.AST, env: dict):
        if isinstance(s, ast.Slice):
            return slice(*(None if x is None else self.eval(x, env) for x in (s.lower, s.upper, s.step)))
        if isinstance(s, ast.Tuple):
            return tuple(self._index_value(e, env) for e in s.elts)
        return self.eval(s, env)

    def _subscript(self, base, idx, node):
        if isinstance(base, (tuple, list)):
            if isinstance(idx, slice):
                if not all(x is None or (isinstance(x, int) and not isinstance(x, bool)) for x in
                           (idx.start, idx.stop, idx.step)):
                    raise AnalysisError("layout interpreter: sequence sliced with non-integer bounds")
                return base[idx]
            if isinstance(idx, int) and not isinstance(idx, bool):
                if not -len(base) <= idx < len(base):
                    raise DomainError(f"index {idx} out of range for a sequence of length {len(base)}", node)
                return base[idx]
            if isinstance(idx, (tuple, list, Obj, LA, str, float)) or idx is None:
                raise DomainError(f"{type(base).__name__} indices must be integers or slices, not {describe(idx)[:40]}", node)
            raise AnalysisError(f"layout interpreter: sequence indexed with {describe(idx)}")
        if isinstance(base, LA):
            return self.index(base, idx, node)
        v = self.hooks.call("__getitem__", [base, idx], {}, node, self)
        if v is NotImplemented:
            raise AnalysisError(f"layout interpreter: subscript of {describe(base)}")
        return v

    def _attr(self, base, attr: str, node):
        if isinstance(base, LA):
            if attr == "shape":
                return self.shape(base)
            if attr == "T":
                return self.transpose(base)
            if attr == "ndim":
                return base.rank
            if attr == "size":
                n = 1
                for s in self.shape(base):
                    n *= s
                return n
            raise AnalysisError(f"layout interpreter: array attribute .{attr}")
        if base is MOD:
            if attr == "pi":
                return Sc(Poly.atom("π"))
            if attr == "newaxis":
                return None
            return ("modfunc", attr)
        v = self.hooks.attr(base, attr, self)
        if v is NotImplemented:
            raise AnalysisError(f"layout interpreter: attribute .{attr} of {describe(base)}")
        return v

    def _iterate(self, v, node) -> list:
        if isinstance(v, (tuple, list)):
            return list(v)
        if isinstance(v, range):
            return list(v)
        if isinstance(v, LA) and v.rank >= 1:
            if v.axes[0] == COMP:
                return [LA(v.axes[1:], p) for p in v.val]
            raise AnalysisError("layout interpreter: iterating over a data axis")
        raise AnalysisError(f"layout interpreter: cannot iterate over {describe(v)}")

    def _comprehend(self, gens, k: int, elt, env: dict, out: list) -> None:
        if k == len(gens):
            out.append(self.eval(elt, env))
            return
        g = gens[k]
        for item in self._iterate(self.eval(g.iter, env), g.iter):
            e2 = dict(env)
            self._bind(g.target, item, e2)
            if all(self.truth(self.eval(c, e2), c) for c in g.ifs):
                self._comprehend(gens, k + 1, elt, e2, out)

    def _bind(self, target: ast.AST, value, env: dict) -> None:
        if isinstance(target, ast.Name):
            env[target.id] = value
        elif isinstance(target, (ast.Tuple, ast.List)):
            items = self._iterate(value, target)
            if len(items) != len(target.elts):
                raise DomainError(f"cannot unpack {len(items)} values into {len(target.elts)} targets", target)
            for t, v in zip(target.elts, items):
                self._bind(t, v, env)
        elif isinstance(target, ast.Subscript):
            base = self.eval(target.value, env)
            idx = self._index_value(target.slice, env)
            if isinstance(base, list) and isinstance(idx, int) and not isinstance(idx, bool):
                if not -len(base) <= idx < len(base):
                    raise DomainError(f"list assignment index {idx} out of range", target)
                base[idx] = value
            else:
                raise AnalysisError(f"layout interpreter: store into `{norm_text(target)[:50]}`")
        elif isinstance(target, ast.Attribute):
            raise AnalysisError(f"layout interpreter: store into `{norm_text(target)[:50]}`")
        else:
            raise AnalysisError("layout interpreter: assignment target")

    # ------------------------------------------------------------------ calls
    def _call(self, n: ast.Call, env: dict):
        args: list = []
        for a in n.args:
            if isinstance(a, ast.Starred):
                args.extend(self._iterate(self.eval(a.value, env), a))
            else:
                args.append(self.eval(a, env))
        kwargs = {}
        for k in n.keywords:
            if k.arg is None:
                extra = self.eval(k.value, env)
                if not isinstance(extra, dict) or not all(isinstance(x, str) for x in extra):
                    raise AnalysisError("layout interpreter: **kwargs in a call")
                kwargs.update(extra)
                continue
            kwargs[k.arg] = self.eval(k.value, env)
        f = n.func
        if isinstance(f, ast.Name) and f.id in env:
            r = self.hooks.call("__call__", [env[f.id]] + args, kwargs, n, self)
            if r is NotImplemented:
                raise AnalysisError(f"layout interpreter: call of the local `{f.id}` is not modelled")
            return r
        if isinstance(f, ast.Name) and f.id not in env:
            r = self._builtin(f.id, args, kwargs, n)
            if r is not NotImplemented:
                return r
            r = self.hooks.call(f.id, args, kwargs, n, self)
            if r is NotImplemented:
                raise AnalysisError(f"layout interpreter: call of `{f.id}` is not modelled")
            return r
        if isinstance(f, ast.Attribute):
            base = self.eval(f.value, env)
            if base is MOD or (isinstance(base, tuple) and len(base) == 2 and base[0] == "modfunc"):
                name = f.attr if base is MOD else f"{base[1]}.{f.attr}"
                r = self._numpy(name, args, kwargs, n)
                if r is NotImplemented:
                    r = self.hooks.call("np." + name, args, kwargs, n, self)
                if r is NotImplemented:
                    raise AnalysisError(f"layout interpreter: numpy function `{name}` is not modelled")
                return r
            if isinstance(base, LA):
                r = self._method(base, f.attr, args, kwargs, n)
                if r is NotImplemented:
                    raise AnalysisError(f"layout interpreter: array method `.{f.attr}` is not modelled")
                return r
            if isinstance(base, list):
                if f.attr == "append" and len(args) == 1:
                    base.append(args[0])
                    return None
                if f.attr == "index" and len(args) == 1:
                    return base.index(args[0])
                if f.attr == "copy" and not args:
                    return list(base)
            r = self.hooks.call(f"{dotted(f) or '?.' + f.attr}", [base] + args, kwargs, n, self)
            if r is NotImplemented:
                raise AnalysisError(f"layout interpreter: call of `{norm_text(f)[:50]}` is not modelled")
            return r
        callee = self.eval(f, env)
        r = self.hooks.call("__call__", [callee] + args, kwargs, n, self)
        if r is NotImplemented:
            raise AnalysisError(f"layout interpreter: call of `{norm_text(f)[:50]}` is not modelled")
        return r

    def _builtin(self, name: str, args: list, kwargs: dict, node):
        if name == "len" and len(args) == 1:
            v = args[0]
            if isinstance(v, (tuple, list, range)):
                return len(v)
            if isinstance(v, LA):
                if v.rank == 0:
                    raise DomainError("len() of unsized object", node)
                return self.size(v, 0)
            return NotImplemented
        if name == "range" and 1 <= len(args) <= 3:
            if not all(isinstance(a, int) and not isinstance(a, bool) for a in args):
                raise AnalysisError("layout interpreter: range() of a non-concrete integer")
            return list(range(*args))
        if name in ("list", "tuple") and len(args) <= 1:
            items = self._iterate(args[0], node) if args else []
            return list(items) if name == "list" else tuple(items)
        if name == "zip":
            seqs = [self._iterate(a, node) for a in args]
            return [tuple(t) for t in zip(*seqs)]
        if name == "enumerate" and len(args) == 1:
            return [(i, x) for i, x in enumerate(self._iterate(args[0], node))]
        if name == "reversed" and len(args) == 1:
            return list(reversed(self._iterate(args[0], node)))
        if name == "sum" and len(args) == 1:
            items = self._iterate(args[0], node)
            if all(isinstance(x, int) and not isinstance(x, bool) for x in items):
                return sum(items)
            return NotImplemented
        if name == "sum" and len(args) == 2 and isinstance(args[1], tuple):
            out = args[1]
            for x in self._iterate(args[0], node):
                if not isinstance(x, tuple):
                    raise DomainError("can only concatenate tuple to tuple", node)
                out = out + x
            return out
        if name == "slice" and 1 <= len(args) <= 3 and not kwargs:
            return slice(*args)
        if name in ("all", "any") and len(args) == 1:
            items = [self.truth(x, node) for x in self._iterate(args[0], node)]
            return all(items) if name == "all" else any(items)
        if name in ("int", "float") and len(args) == 1 and isinstance(args[0], (int, float)):
            return int(args[0]) if name == "int" else float(args[0])
        if name in ("int", "float") and len(args) == 1 and isinstance(args[0], Sc):
            return args[0]
        if name == "isinstance" and len(args) == 2:
            return NotImplemented
        return NotImplemented

    def _numpy(self, name: str, args: list, kwargs: dict, node):
        if name in ("array", "asarray", "ascontiguousarray", "asanyarray") and len(args) >= 1:
            if isinstance(args[0], (tuple, list)) and not args[0]:
                return OPAQUE  # an empty prototype (dask `meta`)
            return self.to_array(args[0], node)
        if name == "ndindex" and args:
            import itertools

            shp = args[0] if len(args) == 1 and isinstance(args[0], (tuple, list)) else tuple(args)
            if not all(isinstance(x, int) and not isinstance(x, bool) for x in shp):
                raise AnalysisError("layout interpreter: ndindex over a non-concrete shape")
            return [tuple(t) for t in itertools.product(*(range(x) for x in shp))]
        if name == "stack" and args:
            axis = args[1] if len(args) > 1 else kwargs.get("axis", 0)
            return self.stack(self._iterate(args[0], node), axis, node)
        if name == "column_stack" and len(args) == 1:
            items = self._iterate(args[0], node)
            if all(isinstance(x, LA) and x.rank == 1 for x in items):
                return self.stack(items, 1, node)
            return NotImplemented
        if name == "meshgrid":
            if kwargs.get("sparse"):
                return NotImplemented
            return self.meshgrid(args, kwargs.get("indexing", "xy"), node)
        if name == "expand_dims" and len(args) + len([k for k in kwargs if k == "axis"]) == 2:
            a = self.to_array(args[0], node)
            return self.expand_dims(a, args[1] if len(args) > 1 else kwargs["axis"], node)
        if name == "reshape" and len(args) == 2:
            return self._reshape(self.to_array(args[0], node), args[1], node)
        if name in ("ravel",) and len(args) == 1:
            return self.flatten(self.to_array(args[0], node))
        if name == "outer" and len(args) == 2:
            a, b = self.flatten(self.to_array(args[0], node)), self.flatten(self.to_array(args[1], node))
            return LA(a.axes + b.axes, a.val * b.val)
        if name == "multiply.outer" and len(args) == 2:
            a, b = self.to_array(args[0], node), self.to_array(args[1], node)
            if isinstance(a.val, tuple) or isinstance(b.val, tuple):
                return NotImplemented
            return LA(a.axes + b.axes, a.val * b.val)
        if name == "transpose" and args:
            ax = args[1] if len(args) > 1 else kwargs.get("axes")
            return self.transpose(self.to_array(args[0], node), ax, node)
        if name in ("multiply", "add", "subtract", "divide", "true_divide") and len(args) == 2:
            op = {"multiply": ast.Mult, "add": ast.Add, "subtract": ast.Sub, "divide": ast.Div,
                  "true_divide": ast.Div}[name]()
            return self.binop(op, args[0], args[1], node)
        if name == "negative" and len(args) == 1:
            return self.binop(ast.Mult(), -1, args[0], node)
        if name in ("ones", "ones_like"):
            if name == "ones_like" and isinstance(args[0], LA):
                return LA(args[0].axes, Poly.const(1))
            shp = args[0] if args else kwargs.get("shape")
            shp = (shp,) if isinstance(shp, int) else shp
            if isinstance(shp, (tuple, list)) and all(isinstance(x, int) and not isinstance(x, bool) for x in shp):
                return LA(tuple(self.label_of_size(x, node) for x in shp), Poly.const(1))
            return NotImplemented
        if name == "exp" and len(args) == 1:
            return self.exp(args[0])
        return NotImplemented

    def _reshape(self, a: LA, shape, node):
        shp = tuple(shape) if isinstance(shape, (tuple, list)) else (shape,)
        if shp == (-1,):
            return self.flatten(a)
        if all(isinstance(x, int) for x in shp) and -1 not in shp and tuple(shp) == self.shape(a):
            return a
        raise AnalysisError("layout interpreter: reshape other than (-1,) is not modelled")

    def _method(self, a: LA, name: str, args: list, kwargs: dict, node):
        if name in ("astype", "copy", "conj", "conjugate", "get", "compute", "view"):
            return a
        if name in ("ravel", "flatten") and not args:
            return self.flatten(a)
        if name == "reshape":
            return self._reshape(a, args[0] if len(args) == 1 else tuple(args), node)
        if name == "transpose":
            return self.transpose(a, (args[0] if len(args) == 1 and isinstance(args[0], (tuple, list)) else
                                      tuple(args)) if args else None, node)
        return NotImplemented

    # ------------------------------------------------------------------ statements
    def run(self, body: list, env: dict):
        """-> ('return', value) | ('raise', node) | ('fall', None)."""
        if self.depth > 6:
            raise AnalysisError("layout interpreter: call depth")
        self.depth += 1
        try:
            return self._exec(strip_docstring(list(body)), env)
        finally:
            self.depth -= 1

    def _exec(self, stmts: list, env: dict):
        for st in stmts:
            r = self._stmt(st, env)
            if r is not None:
                return r
        return None

    def _stmt(self, st: ast.stmt, env: dict):
        if isinstance(st, ast.Return):
            return ("return", self.eval(st.value, env) if st.value is not None else None)
        if isinstance(st, ast.Raise):
            exc = st.exc.func if isinstance(st.exc, ast.Call) else st.exc
            name = dotted(exc) if exc is not None else None
            if name:
                raise Raises(name.split(".")[-1])
            return ("raise", st)
        if isinstance(st, ast.If):
            branch = st.body if self.truth(self.eval(st.test, env), st.test) else st.orelse
            return self._exec(branch, env)
        if isinstance(st, ast.Assign):
            v = self.eval(st.value, env)
            for t in st.targets:
                self._bind(t, v, env)
            return None
        if isinstance(st, ast.AnnAssign):
            if st.value is not None:
                self._bind(st.target, self.eval(st.value, env), env)
            return None
        if isinstance(st, ast.AugAssign):
            load = ast.copy_location(_as_load(st.target), st.target)
            cur = self.eval(load, env)
            val = self.eval(st.value, env)
            if isinstance(cur, LA):
                res = self.binop(st.op, cur, val, st)
                if res.axes != cur.axes:
                    raise DomainError(f"in-place update of ({', '.join(cur.axes)}) with an operand that broadcasts to "
                                      f"({', '.join(res.axes)})", st)
            else:
                res = self.binop(st.op, cur, val, st)
            self._bind(st.target, res, env)
            return None
        if isinstance(st, ast.For):
            if st.orelse:
                raise AnalysisError("layout interpreter: for/else")
            for item in self._iterate(self.eval(st.iter, env), st.iter):
                self._bind(st.target, item, env)
                r = self._exec(st.body, env)
                if r is not None:
                    return r
            return None
        if isinstance(st, ast.Expr):
            if isinstance(st.value, ast.Constant):
                return None
            if isinstance(st.value, ast.Yield):
                self.yields.append(self.eval(st.value.value, env) if st.value.value is not None else None)
                return None
            try:
                self.eval(st.value, env)
            except AnalysisError:
                # a bare call the interpreter cannot model (validation, logging): it binds nothing
                if not isinstance(st.value, ast.Call):
                    raise
            return None
        if isinstance(st, ast.Assert):
            try:
                ok = self.truth(self.eval(st.test, env), st.test)
            except AnalysisError:
                return None
            if not ok:
                raise DomainError(f"`assert {norm_text(st.test)[:70]}` fails", st)
            return None
        if isinstance(st, ast.Delete):
            for t in st.targets:
                if isinstance(t, ast.Subscript):
                    base = self.eval(t.value, env)
                    idx = self._index_value(t.slice, env)
                    if isinstance(base, list) and isinstance(idx, int) and not isinstance(idx, bool):
                        if not -len(base) <= idx < len(base):
                            raise DomainError(f"list assignment index {idx} out of range", st)
                        del base[idx]
                        continue
                raise AnalysisError(f"layout interpreter: `{norm_text(st)[:50]}`")
            return None
        if isinstance(st, ast.Try):
            try:
                r = self._exec(st.body, env)
            except Raises as e:
                for h in st.handlers:
                    names = []
                    if h.type is None:
                        names = [e.name]
                    elif isinstance(h.type, ast.Tuple):
                        names = [(dotted(x) or "").split(".")[-1] for x in h.type.elts]
                    else:
                        names = [(dotted(h.type) or "").split(".")[-1]]
                    if e.name in names or "Exception" in names or "BaseException" in names:
                        r = self._exec(h.body, env)
                        break
                else:
                    raise
            else:
                if r is None and st.orelse:
                    r = self._exec(st.orelse, env)
            if st.finalbody:
                r2 = self._exec(st.finalbody, env)
                r = r2 if r2 is not None else r
            return r
        if isinstance(st, ast.With):
            return self._exec(st.body, env)
        if isinstance(st, (ast.Pass, ast.Import, ast.ImportFrom)):
            return None
        raise AnalysisError(f"layout interpreter: statement {type(st).__name__} is not modelled")


def _as_load(t: ast.AST) -> ast.AST:
    import copy

    c = copy.deepcopy(t)
    for x in ast.walk(c):
        if hasattr(x, "ctx"):
            x.ctx = ast.Load()
    return c
