"""E6 — lazy/eager twin comparator (R-TWIN).

A *twin* is an `if <lazy>: ... else: ...` statement whose lazy arm wraps a function in a dask call
and whose eager arm calls the same function directly:

  wrap form    da.map_blocks(f, x, *a, **kw) | x.map_blocks(f, *a, **kw) | map_overlap | dask.delayed(f)(*a, **kw)
               vs   f(x, *a, **kw)
  module form  da.F(*a, **kw) | getattr(da, name)(*a, **kw)   vs   xp.F(*a, **kw) | np.F | getattr(xp, name)(...)

Both arms must apply the same function to the same arguments: after binding positional arguments to
the callee's parameter names, every parameter must receive term-equal values in both arms, modulo
 * keywords that only dask understands (chunks, meta, dtype, drop_axis, new_axis, depth, boundary, ...),
   when they appear in the lazy arm only;
 * the array handle (`.array`, `._array`, `._lazy_array`, `._eager_array`, `da.from_array(x, ...)`,
   `x.rechunk(...)` are the same data);
 * a property and its backing attribute (`self.p` == `self._p` when `p` is `return self._p`);
 * a parameter omitted in one arm and passed its declared default in the other.
A difference means lazy and eager evaluation compute different things for some input.
"""
from __future__ import annotations

import ast
import copy
from typing import Optional

from ..model import ClassInfo, FuncInfo, Repo, call_name, dotted, norm_text, walk_no_nested
from ..terms import Normalizer

DASK_ONLY = {"chunks", "meta", "dtype", "drop_axis", "new_axis", "split_every", "depth", "boundary", "align_arrays",
             "concatenate", "adjust_chunks", "name", "token", "trim", "allow_rechunk", "enforce_ndim", "pure",
             "nout", "traverse"}
ARRAY_ATTRS = {"_lazy_array", "_eager_array", "_array", "array"}
EAGER_MODULES = {"xp", "np", "cp", "numpy", "cupy"}
WRAPPERS = {"map_blocks", "map_overlap"}


# callee names that only box values into object arrays (no computation): partition loops are
# compared by R-SAMESLICE instead
CONTAINER_HELPERS = {"_wrap_with_array", "wrap_args"}

# (function, callee, parameter) -> reason.  One line of reason per exception.
EXCEPTIONS = {
    ("abtem.waves.WavesBuilder._build_validated", "self._calculate_array", "waves_builder"):
        "the lazy arm maps over self.ensemble_blocks(...), i.e. partitioned copies of self; that the rebuilt "
        "builders equal the original is rule R-RECON",
    ("abtem.measurements.DiffractionPatterns.index_diffraction_spots", "self._index_diffraction_spots",
     "orientation_matrices"):
        "the lazy arm prepends broadcast axes and wraps the same matrices in a dask array so that blockwise can "
        "align them with the pattern chunks",
}


def lazy_polarity(test: ast.expr) -> Optional[bool]:
    """True: the if-body is the lazy arm; False: the else-body is; None: not a lazy/eager switch."""
    if isinstance(test, ast.UnaryOp) and isinstance(test.op, ast.Not):
        p = lazy_polarity(test.operand)
        return None if p is None else not p
    if isinstance(test, ast.Name) and test.id == "lazy":
        return True
    if isinstance(test, ast.Attribute) and test.attr == "is_lazy":
        return True
    if isinstance(test, ast.Call) and call_name(test) == "any" and "is_lazy" in ast.unparse(test):
        return True
    return None


class _Canon(ast.NodeTransformer):
    """Canonicalise data handles and property/backing-attribute pairs before term normalisation."""

    def __init__(self, cls: Optional[ClassInfo], local: dict[str, ast.expr]):
        self.cls = cls
        self.local = local
        self._stack: list[str] = []

    def visit_Attribute(self, node: ast.Attribute):
        self.generic_visit(node)
        if node.attr in ARRAY_ATTRS:
            return ast.Attribute(value=node.value, attr="array", ctx=ast.Load())
        if self.cls is not None and isinstance(node.value, ast.Name) and node.value.id == "self":
            f = self.cls.find_method(node.attr)
            if f is not None and f.is_property:
                body = f.body
                if len(body) == 1 and isinstance(body[0], ast.Return) and isinstance(body[0].value, ast.Attribute) \
                        and isinstance(body[0].value.value, ast.Name) and body[0].value.value.id == "self":
                    return ast.Attribute(value=node.value, attr=body[0].value.attr, ctx=ast.Load())
        return node

    def visit_Call(self, node: ast.Call):
        self.generic_visit(node)
        cn = call_name(node)
        if cn in ("da.from_array", "dask.array.from_array", "da.asarray") and node.args:
            return node.args[0]
        if isinstance(node.func, ast.Attribute) and node.func.attr in ("rechunk", "persist", "compute") and \
                not node.args:
            return node.func.value
        if isinstance(node.func, ast.Attribute) and node.func.attr in ("rechunk",):
            return node.func.value
        if cn in ("dask.delayed", "delayed") and len(node.args) == 1 and not node.keywords:
            return node.args[0]  # delayed(x) as an argument is x
        return node

    def visit_Name(self, node: ast.Name):
        if isinstance(node.ctx, ast.Load) and node.id in self.local and node.id not in self._stack:
            self._stack.append(node.id)
            try:
                return self.visit(copy.deepcopy(self.local[node.id]))
            finally:
                self._stack.pop()
        return node


UNKNOWN = "\0unknown"


def _assigned_names(st: ast.stmt) -> set[str]:
    out = set()
    for n in ast.walk(st):
        tgts = []
        if isinstance(n, ast.Assign):
            tgts = n.targets
        elif isinstance(n, (ast.AugAssign, ast.AnnAssign, ast.For)):
            tgts = [n.target]
        elif isinstance(n, ast.With):
            tgts = [i.optional_vars for i in n.items if i.optional_vars is not None]
        for t in tgts:
            for e in ast.walk(t):
                if isinstance(e, ast.Name):
                    out.add(e.id)
    return out


def _calls_with_env(body: list[ast.stmt], cls, env: Optional[dict] = None):
    """Yield (call, env-at-that-statement) for every call in `body`, tracking plain local
    assignments sequentially (an assignment's RHS is substituted with the environment before it).
    Names reassigned inside a nested block are unknown after the block."""
    env = dict(env or {})
    for st in body:
        if isinstance(st, (ast.If, ast.For, ast.While, ast.With, ast.Try)):
            header = []
            if isinstance(st, ast.If):
                header = [st.test]
            elif isinstance(st, ast.For):
                header = [st.iter]
            elif isinstance(st, ast.While):
                header = [st.test]
            for h in header:
                for n in walk_no_nested(h):
                    if isinstance(n, ast.Call):
                        yield n, env
            inner_env = dict(env)
            if isinstance(st, ast.For):
                for nm in _assigned_names(ast.Expr(value=st.target)) | {e.id for e in ast.walk(st.target)
                                                                        if isinstance(e, ast.Name)}:
                    inner_env.pop(nm, None)
            for fld in ("body", "orelse", "finalbody"):
                yield from _calls_with_env(getattr(st, fld, []) or [], cls, inner_env)
            for h in getattr(st, "handlers", []) or []:
                yield from _calls_with_env(h.body, cls, inner_env)
            for nm in _assigned_names(st):
                env[nm] = ast.Name(id=UNKNOWN + nm, ctx=ast.Load())
            continue
        for n in walk_no_nested(st):
            if isinstance(n, ast.Call):
                yield n, env
        if isinstance(st, ast.Assign) and len(st.targets) == 1 and isinstance(st.targets[0], ast.Name):
            val = _Canon(cls, env).visit(copy.deepcopy(st.value))
            env = dict(env)
            env[st.targets[0].id] = val
        else:
            for nm in _assigned_names(st):
                env = dict(env)
                env[nm] = ast.Name(id=UNKNOWN + nm, ctx=ast.Load())


def _key(expr: ast.expr, cls: Optional[ClassInfo], local: dict[str, ast.expr], self_ref: Optional[str] = None) -> str:
    # a local that is (re)defined from itself (array = array.map_blocks...) must not be inlined into itself
    e = _Canon(cls, local).visit(copy.deepcopy(expr))
    ast.fix_missing_locations(e)
    return Normalizer().norm(e).key()


def _callee_key(expr: ast.expr, cls, local) -> str:
    return ast.unparse(_Canon(cls, {}).visit(copy.deepcopy(expr)))


def _resolve_callee(repo: Repo, f: FuncInfo, expr: ast.expr):
    """-> (FuncInfo or None, skip_self)"""
    d = dotted(expr)
    if d is None:
        return None, False
    if d.startswith("self.") and d.count(".") == 1 and f.cls is not None:
        m = f.cls.find_method(d.split(".")[1])
        if m is not None:
            static = any(x in ("staticmethod",) for x in m.decorators)
            return m, not static
        return None, False
    t = repo.resolve_name(f.module, d)
    if isinstance(t, FuncInfo):
        return t, False
    return None, False


def _bind(callee: Optional[FuncInfo], skip_self: bool, args: list[ast.expr], kws: dict[str, ast.expr]):
    """-> dict param-or-position -> expr"""
    out: dict[str, ast.expr] = {}
    names: list[str] = []
    if callee is not None:
        names = callee.positional_params[1:] if skip_self else callee.positional_params
    for i, a in enumerate(args):
        if isinstance(a, ast.Starred):
            out[f"*{i}"] = a.value
        elif i < len(names):
            out[names[i]] = a
        else:
            out[f"#{i}"] = a
    for k, v in kws.items():
        out[k] = v
    return out


def _wrapped_calls(body: list[ast.stmt], cls):
    """Dask-wrapped calls in a lazy arm: yields (call, callee expr, positional args, keywords, form, env)."""
    for n, env in _calls_with_env(body, cls):
        kws = {k.arg: k.value for k in n.keywords if k.arg}
        if isinstance(n.func, ast.Attribute) and n.func.attr in WRAPPERS and n.args:
            recv = dotted(n.func.value)
            if recv in ("da", "dask.array"):
                yield n, n.args[0], list(n.args[1:]), kws, "wrap", env
            else:
                yield n, n.args[0], [n.func.value] + list(n.args[1:]), kws, "wrap", env
        elif isinstance(n.func, ast.Call) and call_name(n.func) in ("dask.delayed", "delayed") and n.func.args:
            yield n, n.func.args[0], list(n.args), kws, "delayed", env
        elif isinstance(n.func, ast.Attribute) and dotted(n.func.value) in ("da", "dask.array") and \
                n.func.attr not in ("from_array", "from_delayed", "core", "asarray"):
            yield n, n.func, list(n.args), kws, "module", env
        elif isinstance(n.func, ast.Call) and call_name(n.func) == "getattr" and len(n.func.args) == 2 and \
                dotted(n.func.args[0]) in ("da", "dask.array"):
            yield n, n.func, list(n.args), kws, "getattr", env


def _eager_candidates(body: list[ast.stmt], cls):
    yield from _calls_with_env(body, cls)


def _module_func_name(expr: ast.expr) -> Optional[tuple[str, str]]:
    """xp.F / da.F -> (module, F);   getattr(xp, name) -> (module, <name expr text>)."""
    if isinstance(expr, ast.Attribute):
        m = dotted(expr.value)
        if m:
            return m, expr.attr
    if isinstance(expr, ast.Call) and call_name(expr) == "getattr" and len(expr.args) == 2:
        m = dotted(expr.args[0])
        if m:
            return m, "getattr:" + ast.unparse(expr.args[1])
    return None


def find_twin_sites(f: FuncInfo):
    for node in walk_no_nested(f.node):
        if isinstance(node, ast.If) and node.orelse:
            pol = lazy_polarity(node.test)
            if pol is None:
                continue
            lazy_arm, eager_arm = (node.body, node.orelse) if pol else (node.orelse, node.body)
            yield node, lazy_arm, eager_arm


def check_function(ctx, f: FuncInfo, rule: str = "R-TWIN") -> tuple[int, int]:
    """Compare every twin in `f`.  Returns (#twins compared, #sites without a direct twin)."""
    repo: Repo = ctx.repo
    compared = 0
    untwinned = 0
    for site, lazy_arm, eager_arm in find_twin_sites(f):
        wrapped = list(_wrapped_calls(lazy_arm, f.cls))
        if not wrapped:
            continue
        eager_calls = list(_eager_candidates(eager_arm, f.cls))
        matched_here = 0
        for call, callee, largs, lkws, form, llocal in wrapped:
            if dotted(callee) in CONTAINER_HELPERS:
                continue
            partner = None
            if form in ("wrap", "delayed"):
                ck = _callee_key(callee, f.cls, {})
                cands = [(c, e) for c, e in eager_calls if _callee_key(c.func, f.cls, {}) == ck]
                if len(cands) == 1:
                    partner, elocal = cands[0]
            else:
                mf = _module_func_name(callee)
                if mf is None:
                    continue
                cands = []
                for c, e in eager_calls:
                    emf = _module_func_name(c.func)
                    if emf and (emf[0] in EAGER_MODULES or emf[0].startswith("xp")) and emf[1] == mf[1]:
                        cands.append((c, e))
                if len(cands) == 1:
                    partner, elocal = cands[0]
            if partner is None:
                continue
            matched_here += 1
            compared += 1
            cname = ast.unparse(callee) if form in ("wrap", "delayed") else (
                _module_func_name(callee) or ("", "?"))[1]
            construct = f"{f.qualname}:{cname}"
            target, skip_self = (None, False)
            if form in ("wrap", "delayed"):
                target, skip_self = _resolve_callee(repo, f, callee)
            eargs = list(partner.args)
            ekws = {k.arg: k.value for k in partner.keywords if k.arg}
            # a local that the lazy arm redefines from itself (array = array.map_blocks(..)) is not inlined
            lb = _bind(target, skip_self, largs, lkws)
            eb = _bind(target, skip_self, eargs, ekws)
            defaults = target.defaults() if target is not None else {}
            diffs = []
            if target is None:
                # unresolved callee (numpy/scipy): a value passed positionally in one arm and by keyword in the
                # other cannot be bound to a name; pair such leftovers by value
                lonly = {p: v for p, v in lb.items() if p not in eb and p not in DASK_ONLY}
                eonly = {p: v for p, v in eb.items() if p not in lb}
                if lonly and eonly and len(lonly) == len(eonly) and (
                        all(p.startswith("#") for p in lonly) != all(p.startswith("#") for p in eonly)):
                    lk = sorted(_key(v, f.cls, llocal) for v in lonly.values())
                    ek = sorted(_key(v, f.cls, elocal) for v in eonly.values())
                    if lk == ek:
                        for p in lonly:
                            lb.pop(p)
                        for p in eonly:
                            eb.pop(p)
            for p in sorted(set(lb) | set(eb)):
                lv, ev = lb.get(p), eb.get(p)
                if (f.qualname, cname, p) in EXCEPTIONS:
                    ctx.info(rule, f"{construct}:{p}", f.loc(call), "excepted: " + EXCEPTIONS[(f.qualname, cname, p)])
                    continue
                if lv is not None and ev is None:
                    if p in DASK_ONLY:
                        continue
                    if p in defaults and _key(lv, f.cls, llocal) == _key(defaults[p], None, {}):
                        continue
                    diffs.append((p, f"passed only in the lazy arm ({norm_text(lv)[:60]})"))
                elif ev is not None and lv is None:
                    if p in defaults and _key(ev, f.cls, elocal) == _key(defaults[p], None, {}):
                        continue
                    diffs.append((p, f"passed only in the eager arm ({norm_text(ev)[:60]})"))
                else:
                    lk, ek = _key(lv, f.cls, llocal), _key(ev, f.cls, elocal)
                    if UNKNOWN in lk or UNKNOWN in ek:
                        ctx.info(rule, f"{construct}:{p}", f.loc(call),
                                 "argument depends on a conditionally reassigned local — not compared")
                        continue
                    if lk != ek:
                        diffs.append((p, f"lazy arm passes {norm_text(lv)[:60]} but eager arm passes {norm_text(ev)[:60]}"))
            if not diffs:
                ctx.ok(rule, construct, f.loc(site),
                       f"lazy ({form}) and eager arms apply {cname} to the same {len(set(lb) | set(eb))} arguments")
            for p, why in diffs:
                ctx.violation(rule, construct, f.loc(call),
                              f"argument `{p}` of {cname} differs between the lazy and eager arms: {why}",
                              key_detail=p)
        if matched_here == 0:
            untwinned += 1
            ctx.info(rule, f"{f.qualname}:if {norm_text(site.test)[:40]}", f.loc(site),
                     "lazy arm uses dask but has no direct call twin in the eager arm (partition loop / mode switch)")
    return compared, untwinned


def check_package(ctx, rule: str = "R-TWIN", modules: Optional[set[str]] = None) -> int:
    n = 0
    for f in ctx.repo.all_functions():
        if modules is not None and f.module.name not in modules:
            continue
        c, _ = check_function(ctx, f, rule)
        n += c
    return n
