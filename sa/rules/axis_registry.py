"""R-REGISTRY — every AxisMetadata subclass of the package can be rebuilt from its dict form.

The writer (`axis_to_dict` / `AxisMetadata.to_dict`) stores the *class name* under a key; the reader
(`axis_from_dict` / `AxisMetadata.from_dict`) looks that name up in some namespace and calls the
class with the remaining items.  Serialisation round-trips for every axis type only if

  (registry)  each class C with AxisMetadata in its MRO — wherever in the package it is defined —
              is found under `C.__name__` in the namespace the reader consults, and the object found
              is C itself;
  (type key)  the key written, the key read and the key stripped before `cls(**rest)` are the same
              literal, and no axis class has a dataclass field of that name.

The namespace is derived from the reader's code (`globals()[..]` -> module-level names of the
reader's module; `<dict literal>[..]`; `getattr(<module>, ..)`), not assumed.  A reader the analyser
cannot interpret is an AnalysisError.  Shared by C30 and C35.
"""
from __future__ import annotations

import ast
from dataclasses import dataclass
from typing import Callable, Optional

from ..model import AnalysisError, ClassInfo, FuncInfo, ModuleInfo, Repo, dotted, norm_text, walk_no_nested

AXES_MOD = "abtem.core.axes"
BASE = "AxisMetadata"


@dataclass
class Reader:
    func: FuncInfo
    type_key: str
    strip_keys: set[str]
    namespace: str  # description
    lookup: Callable[[str], object]  # name -> resolved object or None


def axis_classes(repo: Repo) -> list[ClassInfo]:
    base = repo.cls(AXES_MOD, BASE)
    out = repo.subclasses(base, strict=False)
    if len(out) < 2:
        raise AnalysisError("AxisMetadata has no subclasses: class hierarchy not recognised")
    return sorted(out, key=lambda c: c.qualname)


def dataclass_fields(c: ClassInfo) -> dict[str, ClassInfo]:
    """field name -> class that first declares it (annotations through the MRO, ClassVar excluded)."""
    out: dict[str, ClassInfo] = {}
    for k in reversed(c.mro()):
        for name, ann in k.annotations.items():
            if "ClassVar" in ast.unparse(ann):
                continue
            out.setdefault(name, k)
    return out


def _module_namespace(repo: Repo, m: ModuleInfo) -> Callable[[str], object]:
    def lookup(name: str):
        if name in m.classes:
            return m.classes[name]
        if name in m.functions:
            return m.functions[name]
        if name in m.imports:
            return repo.resolve_name(m, name) or ("external", m.imports[name])
        if name in m.assigns:
            return ("assign", name)
        return None

    return lookup


def _const_key_read(e: ast.AST, dname: str) -> Optional[str]:
    """`d["type"]` / `d.get("type")` / `d.pop("type")` -> "type"."""
    if isinstance(e, ast.Subscript) and isinstance(e.value, ast.Name) and e.value.id == dname and \
            isinstance(e.slice, ast.Constant) and isinstance(e.slice.value, str):
        return e.slice.value
    if isinstance(e, ast.Call) and isinstance(e.func, ast.Attribute) and e.func.attr in ("get", "pop") and \
            isinstance(e.func.value, ast.Name) and e.func.value.id == dname and e.args and \
            isinstance(e.args[0], ast.Constant) and isinstance(e.args[0].value, str):
        return e.args[0].value
    return None


def analyse_reader(repo: Repo, f: FuncInfo) -> Reader:
    params = [p for p in f.positional_params if p not in ("self", "cls")]
    if not params:
        raise AnalysisError(f"{f.qualname}: no dict parameter")
    d = params[0]
    # local names bound to the type key read
    key_names: dict[str, str] = {}
    for st in walk_no_nested(f.node):
        if isinstance(st, ast.Assign) and len(st.targets) == 1 and isinstance(st.targets[0], ast.Name):
            k = _const_key_read(st.value, d)
            if k is not None:
                key_names[st.targets[0].id] = k

    def key_of(e: ast.AST) -> Optional[str]:
        k = _const_key_read(e, d)
        if k is None and isinstance(e, ast.Name):
            k = key_names.get(e.id)
        return k

    found = []
    for n in walk_no_nested(f.node):
        if isinstance(n, ast.Subscript) and key_of(n.slice) is not None and not (
                isinstance(n.value, ast.Name) and n.value.id == d):
            found.append((n.value, key_of(n.slice), n))
        elif isinstance(n, ast.Call) and dotted(n.func) == "getattr" and len(n.args) >= 2 and key_of(n.args[1]):
            found.append((ast.Call(func=ast.Name(id="getattr", ctx=ast.Load()), args=[n.args[0]], keywords=[]),
                          key_of(n.args[1]), n))
        elif isinstance(n, ast.Call) and isinstance(n.func, ast.Attribute) and n.func.attr == "get" and n.args and \
                key_of(n.args[0]) is not None and not (isinstance(n.func.value, ast.Name) and n.func.value.id == d):
            found.append((n.func.value, key_of(n.args[0]), n))
    if len(found) != 1:
        raise AnalysisError(f"{f.qualname}: expected exactly one class lookup keyed by the stored type name, "
                            f"found {len(found)}")
    container, type_key, _ = found[0]
    m = f.module
    if isinstance(container, ast.Call) and dotted(container.func) == "globals" and not container.args:
        ns, lookup = f"module-level names of {m.name} (globals())", _module_namespace(repo, m)
    elif isinstance(container, ast.Call) and dotted(container.func) == "getattr":
        t = repo.resolve_name(m, dotted(container.args[0]) or "")
        if not isinstance(t, ModuleInfo):
            raise AnalysisError(f"{f.qualname}: getattr target `{norm_text(container.args[0])}` is not a package module")
        ns, lookup = f"attributes of module {t.name}", _module_namespace(repo, t)
    elif isinstance(container, ast.Name) and container.id in m.assigns and isinstance(m.assigns[container.id], ast.Dict):
        table = m.assigns[container.id]
        entries: dict[str, object] = {}
        for k, v in zip(table.keys, table.values):
            if not (isinstance(k, ast.Constant) and isinstance(k.value, str)):
                raise AnalysisError(f"{m.name}.{container.id}: registry key is not a string literal")
            entries[k.value] = repo.resolve_name(m, dotted(v) or "")
        ns, lookup = f"registry dict {m.name}.{container.id}", entries.get
    else:
        raise AnalysisError(f"{f.qualname}: cannot interpret the class lookup `{norm_text(found[0][2])}`")
    # keys stripped before the constructor call
    strip: set[str] = set()
    for n in walk_no_nested(f.node):
        if isinstance(n, (ast.DictComp, ast.GeneratorExp, ast.ListComp)):
            for g in n.generators:
                for cond in g.ifs:
                    if isinstance(cond, ast.Compare) and len(cond.ops) == 1 and isinstance(cond.ops[0], ast.NotEq):
                        for x in (cond.left, cond.comparators[0]):
                            if isinstance(x, ast.Constant) and isinstance(x.value, str):
                                strip.add(x.value)
                    if isinstance(cond, ast.Compare) and len(cond.ops) == 1 and isinstance(cond.ops[0], ast.NotIn):
                        c = cond.comparators[0]
                        if isinstance(c, (ast.Tuple, ast.List, ast.Set)):
                            strip |= {e.value for e in c.elts if isinstance(e, ast.Constant)}
        if isinstance(n, ast.Call) and isinstance(n.func, ast.Attribute) and n.func.attr == "pop" and \
                isinstance(n.func.value, ast.Name) and n.func.value.id == d and n.args and \
                isinstance(n.args[0], ast.Constant):
            strip.add(n.args[0].value)
        if isinstance(n, ast.Delete):
            for t in n.targets:
                k = _const_key_read(t, d)
                if k:
                    strip.add(k)
    return Reader(f, type_key, strip, ns, lookup)


def analyse_writer(f: FuncInfo) -> str:
    """Key under which the writer stores `<obj>.__class__.__name__` / `type(obj).__name__`."""
    keys = []
    for st in walk_no_nested(f.node):
        if isinstance(st, ast.Assign) and len(st.targets) == 1 and isinstance(st.targets[0], ast.Subscript) and \
                isinstance(st.targets[0].slice, ast.Constant) and isinstance(st.value, ast.Attribute) and \
                st.value.attr == "__name__":
            src = st.value.value
            is_cls = (isinstance(src, ast.Attribute) and src.attr == "__class__") or (
                isinstance(src, ast.Call) and dotted(src.func) == "type")
            if is_cls:
                keys.append(st.targets[0].slice.value)
    if len(keys) != 1:
        raise AnalysisError(f"{f.qualname}: expected one store of the class name, found {len(keys)}")
    return keys[0]


def check_registry(ctx, readers: list[Reader], rule: str = "R-REGISTRY") -> int:
    repo = ctx.repo
    classes = axis_classes(repo)
    n = 0
    for r in readers:
        for c in classes:
            got = r.lookup(c.name)
            n += 1
            if got is c:
                ctx.ok(rule, f"{c.qualname}", c.where, f"{r.func.short} finds {c.name} in {r.namespace}")
            elif got is None:
                ctx.violation(rule, f"{c.qualname}", c.where,
                              f"{c.name} (defined in {c.module.relpath}) is not among the {r.namespace}: "
                              f"{r.func.qualname} raises KeyError/AttributeError for the dict written for this axis "
                              f"type, so it cannot be loaded back", key_detail=r.func.short)
            else:
                what = got.qualname if isinstance(got, (ClassInfo, FuncInfo)) else str(got)
                ctx.violation(rule, f"{c.qualname}", c.where,
                              f"the name {c.name} resolves to {what} in the {r.namespace}, not to {c.qualname}",
                              key_detail=r.func.short)
    return n


def resolve_delegates(repo, writers: list[FuncInfo]) -> list[FuncInfo]:
    """A writer whose body is `return <other writer>(self)` is the other writer: analyse that one once."""
    out: list[FuncInfo] = []
    for w in writers:
        body = [st for st in w.node.body if not (isinstance(st, ast.Expr) and isinstance(st.value, ast.Constant))]
        tgt = w
        if len(body) == 1 and isinstance(body[0], ast.Return) and isinstance(body[0].value, ast.Call) and \
                len(body[0].value.args) == 1 and not body[0].value.keywords and w.positional_params and \
                dotted(body[0].value.args[0]) == w.positional_params[0]:
            t = repo.resolve_name(w.module, dotted(body[0].value.func) or "")
            if isinstance(t, FuncInfo):
                tgt = t
        if all(tgt is not o for o in out):
            out.append(tgt)
    return out


def check_type_key(ctx, writers: list[FuncInfo], readers: list[Reader], rule: str = "R-TYPEKEY") -> None:
    repo = ctx.repo
    classes = axis_classes(repo)
    writers = resolve_delegates(repo, writers)
    wkeys = {w.qualname: analyse_writer(w) for w in writers}
    for r in readers:
        for wq, wk in wkeys.items():
            same = wk == r.type_key and r.type_key in r.strip_keys
            ctx.check(same, rule, f"{wq} -> {r.func.qualname}", r.func.where,
                      f"class name written, read and stripped under the same key {wk!r}",
                      f"writer stores the class name under {wk!r}; reader looks it up under {r.type_key!r} and strips "
                      f"{sorted(r.strip_keys)} before calling the class", key_detail="key")
    keys = set(wkeys.values())
    clash = [(c, k) for c in classes for k in keys if k in dataclass_fields(c)]
    ctx.check(not clash, rule, f"{AXES_MOD}:no-field-named-{'/'.join(sorted(keys))}", repo.module(AXES_MOD).relpath,
              f"no axis class has a field called {sorted(keys)} ({len(classes)} classes)",
              "; ".join(f"{c.qualname} has a field {k!r} that the class-name entry overwrites" for c, k in clash),
              key_detail="clash")
