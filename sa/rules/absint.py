"""Path-enumerating abstract interpreter skeleton for small, loop-free, structured functions.

`PathInterp(domain).run(body, env)` executes a statement list over an abstract domain and returns one
`PathResult` per syntactic path (if/else forks when the domain cannot decide a test).  It supports
Assign / AnnAssign / AugAssign / If / Return / Raise / Expr / Pass / Assert; anything else (loops, try,
with) raises AnalysisError — the caller's anchor has moved out of reach.

A domain provides
    eval(expr, env)            -> abstract value   (may raise DomainError => path result kind 'error')
    truth(test, env)           -> True / False / None (None = undecided, both arms are explored)
    assign(target, value, env) -> None             (binds names; non-name targets may be ignored)
    augassign(stmt, env)       -> None
"""
from __future__ import annotations

import ast
from dataclasses import dataclass, field
from typing import Any, Optional

from ..model import AnalysisError, strip_docstring


class DomainError(Exception):
    """The abstract execution itself fails (e.g. reduction over a non-existent axis)."""

    def __init__(self, msg: str, node: Optional[ast.AST] = None):
        super().__init__(msg)
        self.node = node


@dataclass
class PathResult:
    kind: str  # return | raise | fall | error
    value: Any
    trace: list  # [(test expr, taken bool)]
    env: dict
    node: Optional[ast.AST] = None
    message: str = ""


class PathInterp:
    def __init__(self, domain, max_paths: int = 128):
        self.domain = domain
        self.max_paths = max_paths
        self.results: list[PathResult] = []

    def run(self, body: list[ast.stmt], env: dict) -> list[PathResult]:
        self.results = []
        self._exec(strip_docstring(list(body)), dict(env), [])
        return self.results

    def _emit(self, r: PathResult) -> None:
        if len(self.results) >= self.max_paths:
            raise AnalysisError("abstract interpreter: too many paths")
        self.results.append(r)

    def _exec(self, stmts: list[ast.stmt], env: dict, trace: list) -> None:
        d = self.domain
        for i, st in enumerate(stmts):
            try:
                if isinstance(st, ast.Return):
                    v = d.eval(st.value, env) if st.value is not None else None
                    self._emit(PathResult("return", v, trace, env, st))
                    return
                if isinstance(st, ast.Raise):
                    self._emit(PathResult("raise", None, trace, env, st))
                    return
                if isinstance(st, ast.If):
                    t = d.truth(st.test, env)
                    rest = stmts[i + 1:]
                    if t is None or t is True:
                        self._exec(list(st.body) + rest, dict(env), trace + [(st.test, True)])
                    if t is None or t is False:
                        self._exec(list(st.orelse) + rest, dict(env), trace + [(st.test, False)])
                    return
                if isinstance(st, ast.Assign):
                    v = d.eval(st.value, env)
                    for tg in st.targets:
                        d.assign(tg, v, env)
                elif isinstance(st, ast.AnnAssign):
                    if st.value is not None:
                        d.assign(st.target, d.eval(st.value, env), env)
                elif isinstance(st, ast.AugAssign):
                    d.augassign(st, env)
                elif isinstance(st, ast.Expr):
                    if not isinstance(st.value, ast.Constant):
                        d.eval(st.value, env)
                elif isinstance(st, (ast.Pass, ast.Assert, ast.Import, ast.ImportFrom)):
                    pass
                else:
                    raise AnalysisError(f"abstract interpreter: unsupported statement {type(st).__name__} "
                                        f"at line {st.lineno}")
            except DomainError as e:
                self._emit(PathResult("error", None, trace, env, e.node or st, str(e)))
                return
        self._emit(PathResult("fall", None, trace, env, None))


def none_test(test: ast.expr):
    """`X is None` -> (X, True); `X is not None` -> (X, False); else None."""
    if isinstance(test, ast.Compare) and len(test.ops) == 1 and isinstance(test.comparators[0], ast.Constant) \
            and test.comparators[0].value is None:
        if isinstance(test.ops[0], ast.Is):
            return test.left, True
        if isinstance(test.ops[0], ast.IsNot):
            return test.left, False
    return None


def three_valued(test: ast.expr, leaf) -> Optional[bool]:
    """Kleene evaluation of not/and/or over `leaf(expr) -> True/False/None`."""
    if isinstance(test, ast.UnaryOp) and isinstance(test.op, ast.Not):
        v = three_valued(test.operand, leaf)
        return None if v is None else (not v)
    if isinstance(test, ast.BoolOp):
        vals = [three_valued(v, leaf) for v in test.values]
        if isinstance(test.op, ast.And):
            if any(v is False for v in vals):
                return False
            return True if all(v is True for v in vals) else None
        if any(v is True for v in vals):
            return True
        return False if all(v is False for v in vals) else None
    return leaf(test)


class NotConst(Exception):
    pass


def const_eval(e: ast.AST, env: dict):
    """Evaluate an expression over python constants: literals, names/dotted names bound in `env`
    (keys are names or dotted names), str.lower/upper/strip, ==, !=, in, not in, not/and/or, tuples/lists/sets."""
    if isinstance(e, ast.Constant):
        return e.value
    if isinstance(e, (ast.Name, ast.Attribute)):
        from ..model import dotted

        d = dotted(e)
        if d is not None and d in env:
            return env[d]
        raise NotConst(d or ast.unparse(e))
    if isinstance(e, (ast.Tuple, ast.List, ast.Set)):
        return tuple(const_eval(x, env) for x in e.elts)
    if isinstance(e, ast.Call) and isinstance(e.func, ast.Attribute) and e.func.attr in ("lower", "upper", "strip") \
            and not e.args and not e.keywords:
        v = const_eval(e.func.value, env)
        if not isinstance(v, str):
            raise NotConst("method on non-string")
        return getattr(v, e.func.attr)()
    if isinstance(e, ast.UnaryOp) and isinstance(e.op, ast.Not):
        return not const_eval(e.operand, env)
    if isinstance(e, ast.BoolOp):
        vals = [const_eval(v, env) for v in e.values]
        return all(vals) if isinstance(e.op, ast.And) else any(vals)
    if isinstance(e, ast.Compare):
        left = const_eval(e.left, env)
        res = True
        for op, c in zip(e.ops, e.comparators):
            right = const_eval(c, env)
            if isinstance(op, ast.Eq):
                r = left == right
            elif isinstance(op, ast.NotEq):
                r = left != right
            elif isinstance(op, ast.In):
                r = left in right
            elif isinstance(op, ast.NotIn):
                r = left not in right
            elif isinstance(op, ast.Is):
                r = left is right
            elif isinstance(op, ast.IsNot):
                r = left is not right
            else:
                raise NotConst("compare")
            res = res and r
            left = right
        return res
    raise NotConst(type(e).__name__)
