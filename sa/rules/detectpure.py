"""Detection is pure — nothing reached from a detector writes the array of the waves it is handed.

`multislice_and_detect` hands the SAME wave object to the detectors at every exit plane and then keeps propagating
it.  The wave recorded at a later exit plane equals the truncated simulation only if detection left the array of the
waves untouched.  Starting from `<detector>._calculate_new_array(self, waves)` (what `detect` -> `apply` ->
`waves.apply_transform(self)` evaluates) the analysis follows the wave object W and its array R (`W.array`,
`W._array`, `W._eager_array`, `W._lazy_array`, views of those) path-sensitively through the methods of the wave
class and the package functions that receive them, and examines every in-place site:

    x op= ..   x[..] = ..   f(.., out=x)   x.fill(..)/sort/put/...   with x possibly R
    g(.., x, .., <overwrite flag>=e)          with x possibly R and e not provably false on that path

The overwrite flag (a parameter named overwrite_x / in_place / overwrite — the contract C38 proves for the FFT
layer: the array argument is written iff the flag is true) is evaluated in three-valued logic under the facts of
the path: branch outcomes on names and comparisons, boolean locals bound to them, and the flag values the callers
passed.  A name or a comparison nothing is known about may be true.  A value is no longer R after arithmetic, a
copy, `astype`, an allocator; it stays R through views and through package functions whose return value can be
their argument.

Nothing here looks at local variable names or texts of the analysed program.
"""
from __future__ import annotations

import ast
from typing import Optional

from ..cfg import forward_states
from ..model import AnalysisError, FuncInfo, dotted, last_attr, norm_text, walk_no_nested
from .arrayown import ALLOCATORS, FRESH_METHODS, VIEW_FUNCS, VIEW_METHODS, Ownership
from .inplace import MUTATORS
from .pathfacts import atoms_of

FLAG_NAMES = ("overwrite_x", "in_place", "overwrite")
ARRAY_ATTRS = ("array", "_array", "_eager_array", "_lazy_array")
VIEW_ATTRS = ("T", "real", "imag", "flat")
NP_ROOTS = ("np", "xp", "cp", "numpy", "cupy", "da", "dask", "scipy", "math")
MAPPERS = ("map_blocks", "blockwise", "map_overlap")
R, W = "R", "W"


def _names(e: ast.AST) -> set[str]:
    return {n.id for n in ast.walk(e) if isinstance(n, ast.Name)}


class State:
    __slots__ = ("own", "facts", "eq")

    def __init__(self, own, facts, eq):
        self.own, self.facts, self.eq = own, facts, eq

    def freeze(self):
        return (tuple(sorted(self.own.items())), tuple(sorted(self.facts.items())), tuple(sorted(self.eq.items())))

    @staticmethod
    def thaw(t) -> "State":
        return State(dict(t[0]), dict(t[1]), dict(t[2]))


class Finding:
    def __init__(self, func: FuncInfo, node: ast.AST, kind: str, text: str, why: str, chain: tuple[str, ...]):
        self.func, self.node, self.kind, self.text, self.why, self.chain = func, node, kind, text, why, chain


class Purity:
    def __init__(self, repo, receiver_cls, depth: int = 8, boundary: tuple = ()):
        self.repo, self.rcls, self.depth, self.boundary = repo, receiver_cls, depth, boundary
        self.own = Ownership(repo)
        self.findings: dict[tuple, Finding] = {}
        self.examined: dict[tuple, tuple] = {}
        self._memo: dict[tuple, set] = {}
        self._active: set[tuple] = set()
        self._keynames: dict[str, set[str]] = {}
        self.external: set[str] = set()

    # ------------------------------------------------------------------ three-valued conditions
    def _key(self, e: ast.expr) -> Optional[str]:
        if isinstance(e, (ast.Name, ast.Compare, ast.Attribute)):
            k = norm_text(e)
            self._keynames.setdefault(k, _names(e))
            return k
        return None

    def truth(self, e: ast.expr, s: State, f: FuncInfo) -> Optional[bool]:
        """True / False when decided on this path, None when the value is free.  Unreadable -> AnalysisError."""
        if isinstance(e, ast.Constant):
            return bool(e.value)
        if isinstance(e, ast.UnaryOp) and isinstance(e.op, ast.Not):
            t = self.truth(e.operand, s, f)
            return None if t is None else not t
        if isinstance(e, ast.BoolOp):
            vals = [self.truth(v, s, f) for v in e.values]
            if isinstance(e.op, ast.And):
                return False if False in vals else (True if all(v is True for v in vals) else None)
            return True if True in vals else (False if all(v is False for v in vals) else None)
        if isinstance(e, ast.IfExp):
            t = self.truth(e.test, s, f)
            a, b = self.truth(e.body, s, f), self.truth(e.orelse, s, f)
            return a if t is True else b if t is False else (a if a == b else None)
        k = self._key(e)
        if k is not None:
            if k in s.facts:
                return s.facts[k]
            if k in s.eq and s.eq[k] in s.facts:
                return s.facts[s.eq[k]]
            return None
        raise AnalysisError(f"{f.qualname}: overwrite flag `{norm_text(e)[:50]}` is not a boolean combination of "
                            "names, comparisons and constants")

    def _learn(self, s: State, test: ast.expr, truth: bool) -> bool:
        """Refine the facts with the outcome of a test; False when the outcome contradicts the path."""
        for atom, tv in atoms_of(test, truth):
            if isinstance(atom, ast.Constant):
                if bool(atom.value) != tv:
                    return False
                continue
            k = self._key(atom)
            if k is None:
                continue
            keys = {k}
            if k in s.eq:
                keys.add(s.eq[k])
            keys |= {v for v, t in s.eq.items() if t in keys}
            for kk in keys:
                if s.facts.get(kk, tv) != tv:
                    return False
                s.facts[kk] = tv
        return True

    def _kill(self, s: State, name: str) -> None:
        s.own.pop(name, None)
        for k in [k for k in s.facts if name in self._keynames.get(k, {k})]:
            del s.facts[k]
        for k in [k for k, v in s.eq.items() if k == name or name in self._keynames.get(v, {v})]:
            del s.eq[k]

    # ------------------------------------------------------------------ classes of expressions
    def cls_of(self, e: ast.AST, s: State, f: FuncInfo, chain, node) -> Optional[str]:
        if isinstance(e, ast.Name):
            return s.own.get(e.id)
        if isinstance(e, ast.Attribute):
            b = self.cls_of(e.value, s, f, chain, node)
            if b == W and e.attr in ARRAY_ATTRS:
                return R
            if b == R and e.attr in VIEW_ATTRS:
                return R
            return None
        if isinstance(e, ast.Subscript):
            return self.cls_of(e.value, s, f, chain, node)
        if isinstance(e, ast.IfExp):
            a, b = self.cls_of(e.body, s, f, chain, node), self.cls_of(e.orelse, s, f, chain, node)
            return a or b
        if isinstance(e, ast.NamedExpr):
            return self.cls_of(e.value, s, f, chain, node)
        if isinstance(e, ast.Call):
            return self._call(e, s, f, chain, node)
        return None

    def _bind(self, call: ast.Call, target: FuncInfo, skip_self: bool, extra_first=None) -> dict[str, ast.expr]:
        params = list(target.positional_params)
        if skip_self and params:
            params = params[1:]
        args = list(call.args)
        if extra_first is not None:
            args = args[extra_first:]
        out: dict[str, ast.expr] = {}
        for p, a in zip(params, args):
            if isinstance(a, ast.Starred):
                break
            out[p] = a
        for k in call.keywords:
            if k.arg and k.arg in target.params:
                out[k.arg] = k.value
        return out

    def _targets(self, f: FuncInfo, e: ast.Call, s: State, chain, node):
        """(callee, skip_self, receiver class or None, offset of the first real argument)."""
        fn = dotted(e.func)
        if isinstance(e.func, ast.Attribute):
            recv = self.cls_of(e.func.value, s, f, chain, node)
            if recv == W and (e.func.attr in self.boundary or e.func.attr == "__class__"):
                return []  # the hand-off back to the detector / a constructor call
            if recv == W:
                m = self.rcls.find_method(e.func.attr)
                if m is None:
                    raise AnalysisError(f"{f.qualname}: `{norm_text(e)[:50]}` calls a method the wave class does not have")
                static = "staticmethod" in m.decorators
                return [(m, not static, None if static else W, None)]
            root = (fn or "").split(".")[0]
            if root in NP_ROOTS:
                if e.func.attr in MAPPERS and e.args:
                    inner = ast.Call(func=e.args[0], args=e.args[1:], keywords=e.keywords)
                    ast.copy_location(inner, e)
                    return self._targets(f, inner, s, chain, node)
                return []
        cands, skip = self.own.candidates(f, e)
        if fn is not None and fn.startswith("self.") and f.cls is not None and cands:
            recv = s.own.get(f.positional_params[0]) if f.positional_params else None
            return [(c, skip and "staticmethod" not in c.decorators,
                     recv if "staticmethod" not in c.decorators else None, None) for c in cands]
        if isinstance(e.func, ast.Attribute) and not (fn or "").startswith("self."):
            return []  # a method of some other object: only its arguments matter, decided by the caller below
        return [(c, False, None, None) for c in cands]

    def _call(self, e: ast.Call, s: State, f: FuncInfo, chain, node) -> Optional[str]:
        name = last_attr(e)
        fn = dotted(e.func)
        root = (fn or "").split(".")[0]
        argcls = [(a, self.cls_of(a, s, f, chain, node)) for a in e.args if not isinstance(a, ast.Starred)]
        argcls += [(k.value, self.cls_of(k.value, s, f, chain, node)) for k in e.keywords if k.arg not in (None, "out")]
        recv = self.cls_of(e.func.value, s, f, chain, node) if isinstance(e.func, ast.Attribute) else None
        if recv == R:
            if name in VIEW_METHODS:
                return R
            if name == "astype":
                c = next((k.value for k in e.keywords if k.arg == "copy"), None)
                return R if isinstance(c, ast.Constant) and c.value is False else None
            return None
        if recv is None and not any(c for _a, c in argcls):
            return None  # nothing of the waves goes in
        if root in NP_ROOTS and name not in MAPPERS:
            if name in VIEW_FUNCS and e.args:
                return self.cls_of(e.args[0], s, f, chain, node)
            return None
        if name in VIEW_FUNCS and e.args and isinstance(e.func, ast.Name):
            return self.cls_of(e.args[0], s, f, chain, node)
        if recv != W and (name in ALLOCATORS or (isinstance(e.func, ast.Attribute) and name in FRESH_METHODS)):
            return None
        mapper_call = e
        if name in MAPPERS and e.args:
            mapper_call = ast.Call(func=e.args[0], args=e.args[1:], keywords=e.keywords)
            ast.copy_location(mapper_call, e)
        targets = self._targets(f, e, s, chain, node)
        if not targets:
            if recv == W:
                return None
            if any(c == R for _a, c in argcls) and not self._is_builtin(f, e):
                # not a function of the package (a compiled kernel object, a library routine): like numpy, it is
                # taken to write only through out=; listed as evidence
                self.external.add(f"{f.qualname}: {norm_text(e.func)[:40]}")
            return None
        result: Optional[str] = None
        for target, skip_self, rcv, _off in targets:
            b = self._bind(mapper_call, target, skip_self)
            own0: dict[str, str] = {}
            facts0: dict[str, bool] = {}
            if rcv is not None and target.positional_params:
                own0[target.positional_params[0]] = rcv
            flags = [p for p in target.params if p in FLAG_NAMES]
            for p, a in b.items():
                c = self.cls_of(a, s, f, chain, node)
                if c:
                    own0[p] = c
            rparams = [p for p, c in own0.items() if c == R]
            if flags and rparams:
                for fl in flags:
                    a = b.get(fl, target.defaults().get(fl))
                    if a is None:
                        raise AnalysisError(f"{target.qualname}: flag {fl} without a default")
                    t = self.truth(a, s, f)
                    key = (f.qualname, target.name, "flag")
                    txt = f"{target.name}(<array of the detected waves>, {fl}=..)"
                    self.examined.setdefault(key, (f, e, txt))
                    if t is not False:
                        how = "is true" if t is True else (
                            "can be true on the path where the array is still the one the wave object holds" +
                            (f" ({self._describe(s)})" if self._describe(s) else ""))
                        self._find(f, e, "flag", txt, f"`{fl}={norm_text(a)}` {how}", chain)
                continue_into = False  # contract of C38: the callee writes its array iff the flag is true
                if not continue_into:
                    ret = self._returns_alias(target, rparams)
                    result = result or (R if ret else None)
                    continue
            # boolean / flag-like parameters the caller decides
            for p, a in b.items():
                if p in own0:
                    continue
                try:
                    t = self.truth(a, s, f)
                except AnalysisError:
                    t = None
                if t is not None and isinstance(a, (ast.Constant, ast.Name, ast.BoolOp, ast.UnaryOp)):
                    facts0[p] = t
            for p, d in target.defaults().items():
                if p not in b and p not in own0 and isinstance(d, ast.Constant) and isinstance(d.value, bool):
                    facts0[p] = d.value
            if not own0:
                continue
            rets = self.analyse(target, own0, facts0, chain + (f.qualname,))
            if W in rets:
                result = result or W
            if R in rets:
                result = R
        return result

    def _is_builtin(self, f: FuncInfo, e: ast.Call) -> bool:
        return isinstance(e.func, ast.Name) and e.func.id in ("len", "isinstance", "type", "float", "int", "tuple", "id",
                                                              "hasattr", "getattr", "print", "str", "repr", "list",
                                                              "get_array_module", "copy", "deepcopy")

    def _returns_alias(self, target: FuncInfo, rparams: list[str]) -> bool:
        for r in self.own._returns(target):
            rn = self.own.df_of(target).cfg.node_of(r).idx
            cl = self.own.classify_expr(target, rn, r.value)
            if any(f"PARAM:{p}" in cl for p in rparams):
                return True
        return False

    def _describe(self, s: State) -> str:
        return ", ".join(f"{k} is {'true' if v else 'false'}" for k, v in sorted(s.facts.items()))[:120]

    def _find(self, f: FuncInfo, node: ast.AST, kind: str, text: str, why: str, chain) -> None:
        key = (f.qualname, kind, text)
        if key not in self.findings:
            self.findings[key] = Finding(f, node, kind, text, why, chain)

    # ------------------------------------------------------------------ one function
    def analyse(self, f: FuncInfo, own0: dict[str, str], facts0: dict[str, bool], chain: tuple = ()) -> set:
        key = (id(f.node), tuple(sorted(own0.items())), tuple(sorted(facts0.items())))
        if key in self._memo:
            return self._memo[key]
        if key in self._active:
            return set()
        if len(chain) > self.depth:
            raise AnalysisError(f"{f.qualname}: call chain from the detectors deeper than {self.depth}")
        self._active.add(key)
        try:
            cfg = self.own.df_of(f).cfg
            for k in facts0:
                self._keynames.setdefault(k, {k})
            init = State(dict(own0), dict(facts0), {}).freeze()
            rets: set = set()
            done: set = set()

            def transfer(node, st, label, succ):
                s = State.thaw(st)
                first = (node.idx, st) not in done
                done.add((node.idx, st))
                a = node.ast
                if node.kind == "test" and isinstance(a, ast.If):
                    if first:
                        self._effects(a.test, s, f, chain, a)
                    if label in ("T", "F") and not self._learn(s, a.test, label == "T"):
                        return None
                    return s.freeze()
                if node.kind == "loop":
                    if isinstance(a, ast.For):
                        if first:
                            self._effects(a.iter, s, f, chain, a)
                        if label == "T":
                            c = self.cls_of(a.iter, s, f, chain, a)
                            for n in _names(a.target):
                                self._kill(s, n)
                                if c == R:
                                    s.own[n] = R
                    elif isinstance(a, ast.While) and label in ("T", "F"):
                        if not self._learn(s, a.test, label == "T"):
                            return None
                    return s.freeze()
                if node.kind != "stmt" or a is None or label == "X":
                    return st
                if isinstance(a, (ast.FunctionDef, ast.AsyncFunctionDef, ast.ClassDef)):
                    return st
                self._stmt(a, s, f, chain, first, rets)
                return s.freeze()

            forward_states(cfg, init, transfer, max_states=256)
            self._memo[key] = rets
            return rets
        finally:
            self._active.discard(key)

    def _effects(self, e: ast.AST, s: State, f: FuncInfo, chain, stmt) -> None:
        """Evaluate the calls inside an expression for their effects (in-place sites inside callees)."""
        for c in walk_no_nested(e):
            if isinstance(c, ast.Call):
                self._site_call(c, s, f, chain)
        self._outer_calls(e, s, f, chain, stmt)

    def _outer_calls(self, e, s, f, chain, stmt) -> None:
        if isinstance(e, ast.Call):
            self._call(e, s, f, chain, stmt)  # evaluates the nested calls through its arguments
            return
        if isinstance(e, (ast.Lambda, ast.GeneratorExp, ast.ListComp, ast.DictComp, ast.SetComp)):
            return
        for c in ast.iter_child_nodes(e):
            if isinstance(c, ast.expr):
                self._outer_calls(c, s, f, chain, stmt)

    def _site_call(self, c: ast.Call, s: State, f: FuncInfo, chain) -> None:
        for k in c.keywords:
            if k.arg == "out" and any(self.cls_of(x, s, f, chain, c) == R for x in ([k.value] + (
                    list(k.value.elts) if isinstance(k.value, ast.Tuple) else []))):
                self._find(f, c, "out", f"{last_attr(c)}(.., out=<array of the detected waves>)",
                           f"`{norm_text(c)[:70]}` writes its result into the array the wave object holds", chain)
        if isinstance(c.func, ast.Attribute) and c.func.attr in MUTATORS and \
                self.cls_of(c.func.value, s, f, chain, c) == R:
            self._find(f, c, "method", f"<array of the detected waves>.{c.func.attr}(..)",
                       f"`{norm_text(c)[:70]}` modifies the array the wave object holds", chain)

    def _stmt(self, a: ast.stmt, s: State, f: FuncInfo, chain, first: bool, rets: set) -> None:
        # 1. in-place sites and calls (effects)
        for sub in ast.iter_child_nodes(a):
            if isinstance(sub, ast.expr) and not (isinstance(a, (ast.Assign, ast.AugAssign, ast.AnnAssign)) and (
                    sub in getattr(a, "targets", []) or sub is getattr(a, "target", None))):
                for c in walk_no_nested(sub):
                    if isinstance(c, ast.Call):
                        self._site_call(c, s, f, chain)
        value = getattr(a, "value", None)
        vcls = None
        if isinstance(value, ast.expr):
            if isinstance(value, ast.Call):
                vcls = self._call(value, s, f, chain, a)
            else:
                vcls = self.cls_of(value, s, f, chain, a)
                if not isinstance(value, (ast.Name, ast.Attribute, ast.Subscript, ast.IfExp, ast.NamedExpr)):
                    self._outer_calls(value, s, f, chain, a)
        if isinstance(a, ast.AugAssign):
            t = a.target
            base = t
            while isinstance(base, ast.Subscript):
                base = base.value
            c = self.cls_of(base, s, f, chain, a)
            if c == R:
                self._find(f, a, "augassign", f"<array of the detected waves> {type(a.op).__name__}= ..",
                           f"`{norm_text(a)[:70]}` modifies the array the wave object holds in place", chain)
            return
        if isinstance(a, ast.Assign):
            for t in a.targets:
                for tt in (t.elts if isinstance(t, (ast.Tuple, ast.List)) else [t]):
                    if isinstance(tt, ast.Subscript):
                        base = tt
                        while isinstance(base, ast.Subscript):
                            base = base.value
                        if self.cls_of(base, s, f, chain, a) == R:
                            self._find(f, a, "store", "<array of the detected waves>[..] = ..",
                                       f"`{norm_text(a)[:70]}` stores into the array the wave object holds", chain)
                    elif isinstance(tt, ast.Attribute) and tt.attr in ARRAY_ATTRS and \
                            self.cls_of(tt.value, s, f, chain, a) == W:
                        self._find(f, a, "rebind", "<detected waves>.array = ..",
                                   f"`{norm_text(a)[:70]}` replaces the array of the wave object handed to the "
                                   "detector", chain)
            # 2. bindings
            single = len(a.targets) == 1 and isinstance(a.targets[0], ast.Name)
            for t in a.targets:
                for n in [x for x in ast.walk(t) if isinstance(x, ast.Name) and isinstance(x.ctx, ast.Store)]:
                    tv = None
                    k = None
                    if single:
                        try:
                            tv = self.truth(value, s, f)
                        except AnalysisError:
                            tv = None
                        k = self._key(value) if not isinstance(value, ast.Attribute) else None
                        if k is not None and n.id in self._keynames.get(k, set()):
                            k = None
                    self._kill(s, n.id)
                    self._keynames.setdefault(n.id, {n.id})
                    if single:
                        if vcls:
                            s.own[n.id] = vcls
                        if tv is not None and isinstance(value, (ast.Constant, ast.Name, ast.BoolOp, ast.UnaryOp,
                                                                 ast.Compare)):
                            s.facts[n.id] = tv
                        elif k is not None:
                            s.eq[n.id] = k
                    elif vcls == R or (isinstance(value, ast.Tuple) and any(
                            self.cls_of(x, s, f, chain, a) == R for x in value.elts)):
                        s.own[n.id] = R
            return
        if isinstance(a, ast.AnnAssign) and isinstance(a.target, ast.Name):
            self._kill(s, a.target.id)
            if vcls:
                s.own[a.target.id] = vcls
            return
        if isinstance(a, ast.Return) and value is not None:
            if vcls:
                rets.add(vcls)
            elif isinstance(value, ast.Tuple):
                for x in value.elts:
                    c = self.cls_of(x, s, f, chain, a)
                    if c:
                        rets.add(c)
