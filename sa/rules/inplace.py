"""In-place write sites of a function and the ownership class of the buffer each one writes.

`sites(df)` lists every statement that modifies an array in place:
    x += ..   x[..] = ..   x[..] += ..   f(.., out=x)   x.fill(..) / x.sort() / x.put(..) / x.itemset(..) / x.resize(..)
as (cfg node index, statement, root variable name, short text).  `classes(own, f, site)` gives the ownership
classes (sa/rules/arrayown.py) of the root variable just before the statement: FRESH, PARAM:<p>, ITER, ATTR:<a>,
CLOSURE:<n>, READONLY, UNKNOWN.  A rule then states which classes may be written at which sites.
"""
from __future__ import annotations

import ast

from ..model import norm_text, walk_no_nested

MUTATORS = ("fill", "sort", "put", "itemset", "resize", "partition")


def _root(t: ast.AST):
    depth = 0
    while isinstance(t, (ast.Subscript, ast.Attribute)):
        t, depth = t.value, depth + 1
    return (t.id if isinstance(t, ast.Name) else None), depth


def sites(df) -> list[tuple[int, ast.stmt, str, str, str]]:
    """(node idx, stmt, root name, kind, text); kind in augassign | store | out | method."""
    out = []
    for node in df.cfg.nodes:
        st = node.ast
        if st is None or node.kind != "stmt":
            continue
        if isinstance(st, ast.AugAssign):
            r, _ = _root(st.target)
            if r is not None:
                out.append((node.idx, st, r, "augassign", norm_text(st)[:70]))
        if isinstance(st, ast.Assign):
            for t in st.targets:
                for tt in (t.elts if isinstance(t, (ast.Tuple, ast.List)) else [t]):
                    if isinstance(tt, ast.Subscript):
                        r, _ = _root(tt)
                        if r is not None:
                            out.append((node.idx, st, r, "store", norm_text(st)[:70]))
        for c in walk_no_nested(st):
            if isinstance(c, ast.Call):
                for k in c.keywords:
                    if k.arg == "out":
                        for nm in (x for x in ast.walk(k.value) if isinstance(x, ast.Name)):
                            out.append((node.idx, st, nm.id, "out", norm_text(c)[:70]))
                if isinstance(c.func, ast.Attribute) and c.func.attr in MUTATORS:
                    r, _ = _root(c.func.value)
                    if r is not None:
                        out.append((node.idx, st, r, "method", norm_text(c)[:70]))
    return out


def classes(own, f, site) -> set[str]:
    idx, _st, name, _kind, _text = site
    return own.classify(f, idx, name)
