"""R-CACHEKEY — package-wide rule for caches that outlive a call, complementing C11's R-MEMOKEY.

Recognised cache stores (in any function or method):
  dict cache    D[K] = V   where D is a module-level dict, a class-level dict attribute (shared by all
                instances) or an instance dict (`self._tables[key] = ...`), looked up in the same function by
                `D[K]` under try/except KeyError, `K in D`, `K not in D` or `D.get(K)`
  global slot   `global G` ... G = (k, v)  with an earlier `return G[...]` guarded by a comparison on G
  instance slot `if K == self._key: return self._value` ... `self._value = V; self._key = K` in one method

Rules
  (1) every parameter that flows into the cached value V flows into the key K, at *component precision*: a key
      that only contains `p[0]` does not cover a value computed from `p`, `p[1]` or `min(p)`;
  (2) for caches shared between instances (module-level, class-level, global) every `self` attribute that the
      value depends on — directly or through the self-methods that compute it — must be part of the key too;
  (3) a guard that compares the key with a tolerance (`isclose` / `allclose`) conflates distinct inputs: it is a
      violation when the cached value depends on that input.
Breaking any of them makes a result depend on what the object or process computed before.
"""
from __future__ import annotations

import ast
import copy
from typing import Optional

from ..cfg import DataFlow
from ..model import ClassInfo, FuncInfo, Repo, call_name, dotted, norm_text, walk_no_nested

WHOLE = "*"


def _module_dicts(f: FuncInfo) -> set[str]:
    out = set()
    for name, val in f.module.assigns.items():
        if isinstance(val, ast.Dict) or (isinstance(val, ast.Call) and call_name(val) in ("dict", "OrderedDict",
                                                                                          "collections.OrderedDict")):
            out.add(name)
    return out


def _class_dicts(c: Optional[ClassInfo]) -> set[str]:
    out = set()
    if c is None:
        return out
    for k in c.mro():
        for name, val in k.class_attrs.items():
            if isinstance(val, ast.Dict) or (isinstance(val, ast.Call) and call_name(val) in ("dict",)):
                out.add(name)
    return out


class _Inliner(ast.NodeTransformer):
    """Inline single plain local definitions (flow-insensitively, depth-limited)."""

    def __init__(self, f: FuncInfo):
        self.assigns: dict[str, list[ast.expr]] = {}
        for st in walk_no_nested(f.node):
            if isinstance(st, ast.Assign):
                for t in st.targets:
                    if isinstance(t, ast.Name):
                        self.assigns.setdefault(t.id, []).append(st.value)
                    elif isinstance(t, ast.Tuple) and isinstance(st.value, ast.Tuple) and len(t.elts) == len(
                            st.value.elts):
                        for a, b in zip(t.elts, st.value.elts):
                            if isinstance(a, ast.Name):
                                self.assigns.setdefault(a.id, []).append(b)
                    elif isinstance(t, ast.Tuple):
                        for a in t.elts:
                            if isinstance(a, ast.Name):
                                self.assigns.setdefault(a.id, []).append(st.value)
            elif isinstance(st, (ast.AugAssign, ast.For, ast.AnnAssign)):
                tg = st.target
                for a in ast.walk(tg):
                    if isinstance(a, ast.Name):
                        self.assigns.setdefault(a.id, []).append(getattr(st, "value", None) or getattr(st, "iter", None))
        self.params = set(f.params)
        self.stack: list[str] = []

    def visit_Name(self, node: ast.Name):
        if isinstance(node.ctx, ast.Load) and node.id not in self.params and node.id not in self.stack:
            defs = [d for d in self.assigns.get(node.id, []) if d is not None]
            if len(defs) == 1 and len(self.stack) < 6:
                self.stack.append(node.id)
                try:
                    return self.visit(copy.deepcopy(defs[0]))
                finally:
                    self.stack.pop()
            if len(defs) > 1 and len(self.stack) < 6:
                # several definitions: union of all of them (wrapped in a tuple)
                self.stack.append(node.id)
                try:
                    return ast.Tuple(elts=[self.visit(copy.deepcopy(d)) for d in defs], ctx=ast.Load())
                finally:
                    self.stack.pop()
        return node


def _occurrences(e: ast.AST, params: set[str]) -> dict[str, set]:
    """param -> set of components used: constant subscripts, attribute names ('.a') or WHOLE."""
    out: dict[str, set] = {}

    def visit(n: ast.AST, ctx_comp=None):
        if isinstance(n, ast.Name) and n.id in params:
            out.setdefault(n.id, set()).add(ctx_comp if ctx_comp is not None else WHOLE)
            return
        if isinstance(n, ast.Subscript) and isinstance(n.slice, ast.Constant) and isinstance(n.slice.value, int):
            inner = n.value
            # look through pure wrappers: np.atleast_1d(p)[0], tuple(p)[0], np.asarray(p)[0]
            while isinstance(inner, ast.Call) and (call_name(inner) or "").split(".")[-1] in (
                    "atleast_1d", "tuple", "list", "asarray", "array") and len(inner.args) == 1:
                inner = inner.args[0]
            if isinstance(inner, ast.Name) and inner.id in params:
                out.setdefault(inner.id, set()).add(n.slice.value)
                return
        if isinstance(n, ast.Attribute) and isinstance(n.value, ast.Name) and n.value.id in params and \
                n.value.id != "self":
            # x._valid_gpts is x.gpts after the "is it defined" check; x._gpts is its backing field
            attr = n.attr[len("_valid_"):] if n.attr.startswith("_valid_") else n.attr.lstrip("_")
            out.setdefault(n.value.id, set()).add("." + attr)
            return
        for c in ast.iter_child_nodes(n):
            visit(c)

    visit(e)
    return out


def _self_attrs(f: FuncInfo, e: ast.AST, depth: int = 0, seen: Optional[set] = None) -> set[str]:
    """self attributes an expression depends on, following self-method calls (depth-limited)."""
    seen = seen if seen is not None else set()
    out: set[str] = set()
    for n in ast.walk(e):
        if isinstance(n, ast.Attribute) and isinstance(n.value, ast.Name) and n.value.id == "self":
            g = f.cls.find_method(n.attr) if f.cls is not None else None
            if g is not None and depth < 3 and id(g) not in seen:
                seen.add(id(g))
                for st in g.body:
                    out |= _self_attrs(g, st, depth + 1, seen)
            elif g is None:
                out.add(n.attr)
    return out


class CacheSite:
    def __init__(self, f, kind, owner, cache_name, key, value, store):
        self.f, self.kind, self.owner, self.cache_name = f, kind, owner, cache_name
        self.key, self.value, self.store = key, value, store


def find_sites(repo: Repo, modules: Optional[set[str]] = None) -> list[CacheSite]:
    sites: list[CacheSite] = []
    for f in repo.all_functions():
        if modules is not None and f.module.name not in modules:
            continue
        mdicts = _module_dicts(f)
        cdicts = _class_dicts(f.cls)
        globals_ = {n for st in walk_no_nested(f.node) if isinstance(st, ast.Global) for n in st.names}
        lookups: dict[str, list[ast.AST]] = {}
        for n in walk_no_nested(f.node):
            if isinstance(n, ast.Subscript) and isinstance(n.ctx, ast.Load):
                d = dotted(n.value)
                if d:
                    lookups.setdefault(d, []).append(n)
            elif isinstance(n, ast.Compare) and len(n.ops) == 1 and isinstance(n.ops[0], (ast.In, ast.NotIn)):
                d = dotted(n.comparators[0])
                if d:
                    lookups.setdefault(d, []).append(n)
            elif isinstance(n, ast.Call) and isinstance(n.func, ast.Attribute) and n.func.attr == "get":
                d = dotted(n.func.value)
                if d:
                    lookups.setdefault(d, []).append(n)
        for st in walk_no_nested(f.node):
            if isinstance(st, ast.Assign) and len(st.targets) == 1 and isinstance(st.targets[0], ast.Subscript):
                t = st.targets[0]
                d = dotted(t.value)
                if d is None:
                    continue
                base = d.split(".")[-1]
                # the lookup may go through a property exposing the same dict (self.tables vs self._tables)
                if d not in lookups and not any(k.split(".")[-1].lstrip("_") == base.lstrip("_") for k in lookups):
                    continue
                if d in mdicts:
                    owner = "module"
                elif d.startswith(("self.", "cls.")) and d.count(".") == 1 and base in cdicts:
                    owner = "class"
                elif f.cls is not None and d.split(".")[0] in {c.name for c in f.cls.mro()} and base in cdicts:
                    owner = "class"
                elif d.startswith("self.") and d.count(".") == 1:
                    # instance dict: must look like a cache (assigned {} in a constructor of the class)
                    inits = repo.init_chain(f.cls) if f.cls is not None else []
                    is_cache = False
                    for g in inits:
                        for s2 in ast.walk(g.node):
                            if isinstance(s2, (ast.Assign, ast.AnnAssign)):
                                tg = s2.targets if isinstance(s2, ast.Assign) else [s2.target]
                                if any(dotted(x) == d for x in tg) and isinstance(s2.value, ast.Dict) and \
                                        not s2.value.keys:
                                    is_cache = True
                    if not is_cache:
                        continue
                    owner = "instance"
                else:
                    continue
                sites.append(CacheSite(f, "dict", owner, d, t.slice, st.value, st))
        # instance slot pair:  if K == self._key: return self._value  ...  self._value = V; self._key = K
        if f.cls is not None:
            for i_ in walk_no_nested(f.node):
                if not (isinstance(i_, ast.If) and isinstance(i_.test, ast.Compare) and len(i_.test.ops) == 1
                        and isinstance(i_.test.ops[0], ast.Eq)):
                    continue
                sides = [i_.test.left, i_.test.comparators[0]]
                kattr = next((dotted(x) for x in sides if (dotted(x) or "").startswith("self.")
                              and (dotted(x) or "").count(".") == 1), None)
                rets_ = [r for r in i_.body if isinstance(r, ast.Return) and r.value is not None]
                vattr = dotted(rets_[0].value) if rets_ else None
                if kattr is None or vattr is None or not vattr.startswith("self.") or vattr.count(".") != 1:
                    continue
                kst = [st for st in walk_no_nested(f.node) if isinstance(st, ast.Assign)
                       and any(dotted(t) == kattr for t in st.targets)]
                vst = [st for st in walk_no_nested(f.node) if isinstance(st, ast.Assign)
                       and any(dotted(t) == vattr for t in st.targets)]
                if len(kst) == 1 and len(vst) == 1:
                    sites.append(CacheSite(f, "islot", "instance", vattr, kst[0].value, vst[0].value, vst[0]))
        for g in globals_:
            stores = [st for st in walk_no_nested(f.node) if isinstance(st, ast.Assign)
                      and any(isinstance(t, ast.Name) and t.id == g for t in st.targets)]
            reads = [r for r in walk_no_nested(f.node) if isinstance(r, ast.Return) and r.value is not None]
            if stores and reads:
                for st in stores:
                    if isinstance(st.value, ast.Tuple) and len(st.value.elts) == 2:
                        sites.append(CacheSite(f, "slot", "module", g, st.value.elts[0], st.value.elts[1], st))
    return sites


def check(ctx, rule: str = "R-CACHEKEY", modules: Optional[set[str]] = None) -> int:
    repo: Repo = ctx.repo
    n = 0
    for s in find_sites(repo, modules):
        f = s.f
        params = set(f.params) - {"self", "cls"}
        inl = _Inliner(f)
        key_e = inl.visit(copy.deepcopy(s.key))
        inl2 = _Inliner(f)
        val_e = inl2.visit(copy.deepcopy(s.value))
        kocc, vocc = _occurrences(key_e, params), _occurrences(val_e, params)
        construct = f"{f.qualname}:{s.cache_name}"
        n += 1
        problems = []
        for p, comps in sorted(vocc.items()):
            kc = kocc.get(p, set())
            if WHOLE in kc:
                continue
            if not kc:
                problems.append((p, f"`{p}` flows into the cached value but not into the key"))
                continue
            missing = {c for c in comps if c != WHOLE and c not in kc}
            if {0, 1} <= kc and not missing:
                continue  # both components of a 2-vector are in the key
            if WHOLE in comps or missing:
                used = ", ".join(f"{p}{'' if c == WHOLE else ('[' + str(c) + ']' if isinstance(c, int) else c)}"
                                 for c in sorted(comps, key=str))
                have = ", ".join(f"{p}[{c}]" if isinstance(c, int) else f"{p}{c}" for c in sorted(kc, key=str))
                problems.append((p, f"the cached value depends on {used} but the key only contains {have}"))
        if s.owner in ("module", "class") and f.cls is not None:
            vs = _self_attrs(f, s.value) | _self_attrs(f, val_e)
            ks = _self_attrs(f, key_e)
            cache_base = s.cache_name.split(".")[-1]
            miss = sorted(a for a in vs - ks if a != cache_base and not a.startswith("__"))
            if miss:
                problems.append(("self", f"the cache `{s.cache_name}` is shared by all instances but the cached value "
                                         f"depends on self.{', self.'.join(miss)}, which the key does not contain"))
        # tolerance guards
        for c in walk_no_nested(f.node):
            if isinstance(c, ast.Call) and (call_name(c) or "").split(".")[-1] in ("isclose", "allclose"):
                involved = {x.id for a in c.args for x in ast.walk(a) if isinstance(x, ast.Name)}
                refers_cache = s.cache_name.split(".")[-1] in involved or any(
                    x in involved for x, defs in inl.assigns.items()
                    if any(d is not None and s.cache_name.split(".")[-1] in {y.id for y in ast.walk(d) if isinstance(
                        y, ast.Name)} for d in defs))
                hit = involved & set(vocc)
                if refers_cache and hit and s.kind == "slot":
                    problems.append(("tolerance", f"the cached value is returned when `{norm_text(c)[:60]}` holds: inputs "
                                                  f"within the tolerance get the value computed for another "
                                                  f"{', '.join(sorted(hit))}"))
        if not problems:
            ctx.ok(rule, construct, f.loc(s.store),
                   f"{s.owner}-level {s.kind} cache: every input of the cached value is in the key "
                   f"({', '.join(sorted(vocc)) or 'no parameter'})")
        for p, why in problems:
            ctx.violation(rule, construct, f.loc(s.store), why + f" (key `{norm_text(s.key)[:60]}`)", key_detail=p)
    return n


_CONTROL = '''
_CACHE = {}
_last = None

def f(gpts, sampling, inner):
    key = (tuple(gpts), float(inner), float(sampling[0]))
    try:
        return _CACHE[key]
    except KeyError:
        pass
    v = compute(gpts=gpts, sampling=sampling, inner=inner)
    _CACHE[key] = v
    return v

def g(energy):
    global _last
    last = _last
    if last is not None and np.isclose(energy, last[0]):
        return last[1]
    w = convert(energy)
    _last = (float(energy), w)
    return w
'''


def positive_control(ctx) -> None:
    """The rule must recognise a component-incomplete key and a tolerance slot on every run."""
    from pathlib import Path

    from ..model import ModuleInfo
    from ..report import Ctx

    tree = ast.parse(_CONTROL)
    mod = ModuleInfo(name="control", path=Path("control.py"), relpath="control.py", tree=tree, source=_CONTROL)
    for st in tree.body:
        if isinstance(st, ast.FunctionDef):
            mod.functions[st.name] = FuncInfo(mod, st)
        elif isinstance(st, ast.Assign):
            mod.assigns[st.targets[0].id] = st.value

    class _R:
        modules = {"control": mod}

        def all_functions(self):
            return mod.functions.values()

        def init_chain(self, c):
            return []

    class _C:
        repo = _R()
        found: list = []

        def ok(self, *a, **k):
            pass

        def violation(self, rule, construct, where, detail, key_detail=""):
            self.found.append((construct, key_detail))

    c = _C()
    check(c)
    got = sorted(c.found)
    want = [("control.f:_CACHE", "sampling"), ("control.g:_last", "tolerance")]
    ctx.require(got == want, f"R-CACHEKEY positive control failed: {got}")


def check_loop_reuse(ctx, rule: str = "R-LOOPREUSE", modules: Optional[set[str]] = None) -> int:
    """Loop-carried reuse: inside `for i in ...:` a block guarded by a test on its own result
    (`if X is None or len(X) != n[i]:`) recomputes X only when the guard fires; in the other iterations the value of
    an earlier iteration is reused.  Every per-iteration input `P[i]` of the recomputed values must be examined by the
    guard, otherwise iteration i silently uses the value computed for another iteration's P."""
    n = 0
    for f in ctx.repo.all_functions():
        if modules is not None and f.module.name not in modules:
            continue
        for loop in walk_no_nested(f.node):
            if not isinstance(loop, ast.For) or not isinstance(loop.target, ast.Name):
                continue
            ivar = loop.target.id
            for st in loop.body:
                if not isinstance(st, ast.If) or st.orelse:
                    continue
                assigned = set()
                for s2 in st.body:
                    for x in ast.walk(s2):
                        if isinstance(x, ast.Assign):
                            for t in x.targets:
                                if isinstance(t, ast.Name):
                                    assigned.add(t.id)
                tested = {x.id for x in ast.walk(st.test) if isinstance(x, ast.Name)}
                reused = assigned & tested
                if not reused:
                    continue
                # the reused names must be read after the guarded block in the loop body
                after = loop.body[loop.body.index(st) + 1:]
                read_after = {x.id for s3 in after for x in ast.walk(s3) if isinstance(x, ast.Name)
                              and isinstance(x.ctx, ast.Load)}
                if not (assigned & read_after):
                    continue

                def per_iter(e):
                    out = set()
                    for x in ast.walk(e):
                        if isinstance(x, ast.Subscript) and isinstance(x.slice, ast.Name) and x.slice.id == ivar:
                            d = dotted(x.value)
                            if d:
                                out.add(d)
                    return out

                vals = set()
                for s2 in st.body:
                    for x in ast.walk(s2):
                        if isinstance(x, (ast.Assign, ast.AugAssign)):
                            vals |= per_iter(x.value)
                        elif isinstance(x, ast.If):
                            vals |= per_iter(x.test)
                guard = per_iter(st.test)
                n += 1
                missing = sorted(vals - guard)
                construct = f"{f.qualname}:reuse of {', '.join(sorted(reused))}"
                if missing:
                    ctx.violation(rule, construct, f.loc(st),
                                  f"`{', '.join(sorted(assigned))}` is recomputed only when `{norm_text(st.test)[:70]}`; the "
                                  f"recomputed value depends on {', '.join(m + '[' + ivar + ']' for m in missing)}, which the "
                                  f"guard does not examine: iteration {ivar} reuses the value computed for another "
                                  f"iteration's {', '.join(missing)}", key_detail=",".join(missing))
                else:
                    ctx.ok(rule, construct, f.loc(st), "every per-iteration input of the reused value is in the guard")
    return n
