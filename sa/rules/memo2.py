"""R-CACHEKEY — package-wide rule for caches that outlive a call, complementing C11's R-MEMOKEY.

Recognised cache stores (in any function or method):
  dict cache    D[K] = V   where D is a module-level dict, a class-level dict attribute (shared by all
                instances) or an instance dict (`self._tables[key] = ...`), looked up in the same function by
                `D[K]` under try/except KeyError, `K in D`, `K not in D` or `D.get(K)`
  global slot   `global G` ... G = (k, v)  with an earlier `return G[...]` guarded by a comparison on G
  instance slot `if K == self._key: return self._value` ... `self._value = V; self._key = K` in one method

Rules
  (1) every parameter that flows into the cached value V flows into the key K, at *component precision*: a key
      that only contains `p[0]` does not cover a value computed from `p`, `p[1]` or `min(p)`.  A parameter handed
      whole to a method of the class or a function of the package counts for what that callee reads of it
      (attributes, components, helper calls, followed recursively; an unresolved callee reads all of it).  The key
      retains the whole of a parameter only through lossless wrappers (copy, tuple, asarray, float, `+`): `len(p)`,
      `id(p)`, `round(p.a)`, `p[i]` retain something of p, not p; a helper `h(p)` retains what it returns.
      At *element precision*: when V visits a collection reached from a parameter element by element, K must hold
      that collection itself or an unfiltered element-by-element image of it (comprehension, or a sequence filled in
      one loop) that separates the arms of every test V makes on an element and keeps, on each arm, what V reads
      there; a key over a filtered sub-collection, a projection that omits a read attribute, or a key part added
      under a condition V does not share, conflates collections that V distinguishes (sa/rules/keyreads.py);
  (2) for caches shared between instances (module-level, class-level, global) every `self` attribute that the
      value depends on — directly or through the self-methods that compute it — must be part of the key too;
  (4) the value stored on a miss is computed from the key's inputs: a definition of it that reads the cache itself
      (other than the lookup at the key) makes the entry depend on which other keys were computed before;
  (3) a guard that compares the key with a tolerance (`isclose` / `allclose`) conflates distinct inputs: it is a
      violation when the cached value depends on that input.
Breaking any of them makes a result depend on what the object or process computed before.
"""
from __future__ import annotations

import ast
import copy
from typing import Optional

from ..cfg import DataFlow
from ..model import AnalysisError, ClassInfo, FuncInfo, Repo, call_name, dotted, norm_text, walk_no_nested

WHOLE = "*"


def _module_dicts(f: FuncInfo) -> set[str]:
    out = set()
    for name, val in f.module.assigns.items():
        if isinstance(val, ast.Dict) or (isinstance(val, ast.Call) and call_name(val) in ("dict", "OrderedDict",
                                                                                          "collections.OrderedDict")):
            out.add(name)
    return out


def _class_dicts(c: Optional[ClassInfo]) -> set[str]:
    out = set()
    if c is None:
        return out
    for k in c.mro():
        for name, val in k.class_attrs.items():
            if isinstance(val, ast.Dict) or (isinstance(val, ast.Call) and call_name(val) in ("dict",)):
                out.add(name)
    return out


_MUTATORS = {"append", "extend", "insert", "add", "update", "appendleft", "extendleft", "setdefault", "pop", "remove",
             "clear", "sort", "reverse"}


def _is_empty_seq(e: ast.AST) -> Optional[str]:
    if isinstance(e, (ast.List, ast.Tuple)) and not e.elts:
        return "list" if isinstance(e, ast.List) else "tuple"
    if isinstance(e, ast.Call) and isinstance(e.func, ast.Name) and e.func.id in ("list", "tuple") and not e.args and \
            not e.keywords:
        return e.func.id
    return None


def _loop_built(f: FuncInfo) -> tuple[dict[str, ast.expr], dict[str, str], dict[str, ast.stmt]]:
    """Locals filled element by element: `x = []` ... `for t in IT: x.append(E)` (also under `if T: .. else: ..`, and
    `x += [E]` / `x += (E,)`) reads as `[E for t in IT]` (`[E1 if T else E2 ...]`, `[E for t in IT if T]`).
    Returns (name -> equivalent expression, name -> why a mutated local could not be read)."""
    muts: dict[str, list[tuple[ast.stmt, tuple]]] = {}
    plain: dict[str, list[tuple[ast.expr, tuple]]] = {}

    def appended(st: ast.stmt, x: str) -> Optional[ast.expr]:
        if isinstance(st, ast.Expr) and isinstance(st.value, ast.Call) and isinstance(st.value.func, ast.Attribute) and \
                st.value.func.attr == "append" and dotted(st.value.func.value) == x and len(st.value.args) == 1 and \
                not st.value.keywords:
            return st.value.args[0]
        if isinstance(st, ast.AugAssign) and isinstance(st.op, ast.Add) and dotted(st.target) == x and \
                isinstance(st.value, (ast.List, ast.Tuple)) and len(st.value.elts) == 1 and \
                not isinstance(st.value.elts[0], ast.Starred):
            return st.value.elts[0]
        return None

    def rec(stmts, loops: tuple) -> None:
        for st in stmts:
            if isinstance(st, (ast.FunctionDef, ast.AsyncFunctionDef, ast.ClassDef)):
                continue
            if isinstance(st, ast.Expr) and isinstance(st.value, ast.Call) and isinstance(st.value.func, ast.Attribute) \
                    and st.value.func.attr in _MUTATORS and isinstance(st.value.func.value, ast.Name):
                muts.setdefault(st.value.func.value.id, []).append((st, loops))
            elif isinstance(st, ast.AugAssign) and isinstance(st.target, ast.Name) and loops:
                tnames = {a.id for lp in loops if isinstance(lp, ast.For) for a in ast.walk(lp.target)
                          if isinstance(a, ast.Name)}
                if appended(st, st.target.id) is not None or \
                        tnames & {a.id for a in ast.walk(st.value) if isinstance(a, ast.Name)}:
                    muts.setdefault(st.target.id, []).append((st, loops))
            elif isinstance(st, ast.Assign):
                for t in st.targets:
                    if isinstance(t, ast.Name):
                        plain.setdefault(t.id, []).append((st.value, loops))
                    elif isinstance(t, ast.Subscript) and isinstance(t.value, ast.Name):
                        muts.setdefault(t.value.id, []).append((st, loops))
            elif isinstance(st, ast.AnnAssign) and isinstance(st.target, ast.Name) and st.value is not None:
                plain.setdefault(st.target.id, []).append((st.value, loops))
            for fld, val in ast.iter_fields(st):
                if isinstance(val, list) and val and isinstance(val[0], ast.stmt):
                    rec(val, loops + ((st,) if isinstance(st, (ast.For, ast.While)) and fld == "body" else ()))
                elif isinstance(val, list):
                    for h in val:
                        if isinstance(h, ast.ExceptHandler):
                            rec(h.body, loops)

    rec(f.node.body, ())
    built: dict[str, ast.expr] = {}
    unreadable: dict[str, str] = {}
    built_loop: dict[str, ast.stmt] = {}
    for x, ms in muts.items():
        if x in f.params:
            continue
        defs = plain.get(x, [])
        loops = {id(lp[-1]) if lp else None for _, lp in ms}
        why = None
        if len(defs) != 1 or defs[0][1]:
            why = "it has several definitions"
        elif len(loops) != 1 or None in loops or any(len(lp) != 1 for _, lp in ms):
            why = "it is not filled inside one single loop"
        elif not isinstance(ms[0][1][0], ast.For) or ms[0][1][0].orelse:
            why = "the filling loop is not a plain for loop"
        elif any(appended(st, x) is None for st, _ in ms):
            why = "it is changed by something else than appending one element"
        if why is None:
            loop = ms[0][1][0]

            def mentions(n) -> bool:
                return any(isinstance(a, ast.Name) and a.id == x for a in ast.walk(n))

            def build(stmts):
                units = [st for st in stmts if mentions(st)]
                if not units:
                    return None
                if len(units) != 1:
                    raise ValueError("more than one element is appended per iteration")
                u = units[0]
                e = appended(u, x)
                if e is not None:
                    return ("elt", e)
                if isinstance(u, ast.If) and not mentions(u.test):
                    a, b = build(u.body), build(u.orelse)
                    if a is not None and b is not None and a[0] == b[0] == "elt":
                        return ("elt", ast.IfExp(test=u.test, body=a[1], orelse=b[1]))
                    if a is not None and b is None and a[0] == "elt":
                        return ("filter", u.test, a[1])
                    if b is not None and a is None and b[0] == "elt":
                        return ("filter", ast.UnaryOp(op=ast.Not(), operand=u.test), b[1])
                raise ValueError("the appends are not one per iteration / per arm")

            try:
                r = build(loop.body)
                if r is None:
                    raise ValueError("no append found")
                elt, ifs = (r[1], []) if r[0] == "elt" else (r[2], [r[1]])
                comp = ast.ListComp(elt=copy.deepcopy(elt), generators=[ast.comprehension(
                    target=copy.deepcopy(loop.target), iter=copy.deepcopy(loop.iter), ifs=copy.deepcopy(ifs), is_async=0)])
                init = defs[0][0]
                kind = _is_empty_seq(init)
                if kind == "list":
                    built[x] = comp
                else:
                    seq = ast.Call(func=ast.Name(id="tuple", ctx=ast.Load()), args=[comp], keywords=[])
                    built[x] = seq if kind == "tuple" else ast.BinOp(left=copy.deepcopy(init), op=ast.Add(), right=seq)
                ast.fix_missing_locations(built[x])
                built_loop[x] = loop
            except ValueError as e:
                why = str(e)
        if why is not None:
            unreadable[x] = why
    return built, unreadable, built_loop


class _Inliner(ast.NodeTransformer):
    """Inline single plain local definitions (flow-insensitively, depth-limited)."""

    def __init__(self, f: FuncInfo, strict: bool = False):
        self.assigns: dict[str, list[ast.expr]] = {}
        for st in walk_no_nested(f.node):
            if isinstance(st, ast.Assign):
                for t in st.targets:
                    if isinstance(t, ast.Name):
                        self.assigns.setdefault(t.id, []).append(st.value)
                    elif isinstance(t, ast.Tuple) and isinstance(st.value, ast.Tuple) and len(t.elts) == len(
                            st.value.elts):
                        for a, b in zip(t.elts, st.value.elts):
                            if isinstance(a, ast.Name):
                                self.assigns.setdefault(a.id, []).append(b)
                    elif isinstance(t, ast.Tuple):
                        for a in t.elts:
                            if isinstance(a, ast.Name):
                                self.assigns.setdefault(a.id, []).append(st.value)
            elif isinstance(st, (ast.AugAssign, ast.For, ast.AnnAssign)):
                tg = st.target
                for a in ast.walk(tg):
                    if isinstance(a, ast.Name):
                        self.assigns.setdefault(a.id, []).append(getattr(st, "value", None) or getattr(st, "iter", None))
        self.params = set(f.params)
        self.stack: list[str] = []
        self.bound: list[set[str]] = []  # names bound by enclosing comprehensions: not locals of the function
        self.qualname = f.qualname
        self.strict = strict
        self.loop_targets: set[str] = {a.id for st in walk_no_nested(f.node) if isinstance(st, ast.For)
                                       for a in ast.walk(st.target) if isinstance(a, ast.Name)}
        self.loop_targets_inlined: set[str] = set()
        self.built, self.unreadable, self.built_loop = _loop_built(f)

    def _visit_comp(self, node):
        self.bound.append({a.id for g in node.generators for a in ast.walk(g.target) if isinstance(a, ast.Name)})
        try:
            return self.generic_visit(node)
        finally:
            self.bound.pop()

    visit_GeneratorExp = visit_ListComp = visit_SetComp = visit_DictComp = _visit_comp

    def visit_Name(self, node: ast.Name):
        if any(node.id in b for b in self.bound):
            return node
        if isinstance(node.ctx, ast.Load) and node.id not in self.params and node.id not in self.stack:
            if node.id in self.built and len(self.stack) < 6:
                # a sequence filled element by element in one loop reads as the comprehension over that loop
                self.stack.append(node.id)
                try:
                    return self.visit(copy.deepcopy(self.built[node.id]))
                finally:
                    self.stack.pop()
            if node.id in self.unreadable and self.strict:
                raise AnalysisError(f"{self.qualname}: `{node.id}` is filled by mutation ({self.unreadable[node.id]}); "
                                    "the key built from it cannot be read")
            if node.id in self.loop_targets:
                self.loop_targets_inlined.add(node.id)
            defs = [d for d in self.assigns.get(node.id, []) if d is not None]
            if len(defs) == 1 and len(self.stack) < 6:
                self.stack.append(node.id)
                try:
                    return self.visit(copy.deepcopy(defs[0]))
                finally:
                    self.stack.pop()
            if len(defs) > 1 and len(self.stack) < 6:
                if self.strict and self.bound:
                    raise AnalysisError(f"{self.qualname}: `{node.id}` has several definitions inside the loop that "
                                        "builds the key; which one reaches the key is not decided here")
                # several definitions: union of all of them (wrapped in a tuple)
                self.stack.append(node.id)
                try:
                    return ast.Tuple(elts=[self.visit(copy.deepcopy(d)) for d in defs], ctx=ast.Load())
                finally:
                    self.stack.pop()
        return node


def _occurrences(e: ast.AST, params: set[str]) -> dict[str, set]:
    """param -> set of components used: constant subscripts, attribute names ('.a') or WHOLE."""
    out: dict[str, set] = {}

    def visit(n: ast.AST, ctx_comp=None):
        if isinstance(n, ast.Name) and n.id in params:
            out.setdefault(n.id, set()).add(ctx_comp if ctx_comp is not None else WHOLE)
            return
        if isinstance(n, ast.Subscript) and isinstance(n.slice, ast.Constant) and isinstance(n.slice.value, int):
            inner = n.value
            # look through pure wrappers: np.atleast_1d(p)[0], tuple(p)[0], np.asarray(p)[0]
            while isinstance(inner, ast.Call) and (call_name(inner) or "").split(".")[-1] in (
                    "atleast_1d", "tuple", "list", "asarray", "array") and len(inner.args) == 1:
                inner = inner.args[0]
            if isinstance(inner, ast.Name) and inner.id in params:
                out.setdefault(inner.id, set()).add(n.slice.value)
                return
        if isinstance(n, ast.Attribute) and isinstance(n.value, ast.Name) and n.value.id in params and \
                n.value.id != "self":
            # x._valid_gpts is x.gpts after the "is it defined" check; x._gpts is its backing field
            attr = n.attr[len("_valid_"):] if n.attr.startswith("_valid_") else n.attr.lstrip("_")
            out.setdefault(n.value.id, set()).add("." + attr)
            return
        for c in ast.iter_child_nodes(n):
            visit(c)

    visit(e)
    return out


def _value_occurrences(rd, f: FuncInfo, e: ast.AST, params: set[str]) -> dict[str, set]:
    """Like `_occurrences`, but a parameter handed whole to a callee that resolves inside the package counts for what
    the callee reads of it (keyreads.Reads.arg_reads); an unresolved callee still reads the whole parameter."""
    out: dict[str, set] = {}

    def visit(n: ast.AST):
        if isinstance(n, ast.Name) and n.id in params:
            out.setdefault(n.id, set()).add(WHOLE)
            return
        if isinstance(n, ast.Subscript) and isinstance(n.slice, ast.Constant) and isinstance(n.slice.value, int):
            inner = n.value
            while isinstance(inner, ast.Call) and (call_name(inner) or "").split(".")[-1] in (
                    "atleast_1d", "tuple", "list", "asarray", "array") and len(inner.args) == 1:
                inner = inner.args[0]
            if isinstance(inner, ast.Name) and inner.id in params:
                out.setdefault(inner.id, set()).add(n.slice.value)
                return
        if isinstance(n, ast.Attribute) and isinstance(n.value, ast.Name) and n.value.id in params and \
                n.value.id != "self":
            attr = n.attr[len("_valid_"):] if n.attr.startswith("_valid_") else n.attr.lstrip("_")
            out.setdefault(n.value.id, set()).add("." + attr)
            return
        if isinstance(n, ast.Call):
            every = list(n.args) + [k.value for k in n.keywords]
            handed = [a for a in every if isinstance(a, ast.Name) and a.id in params]
            for a in handed:
                out.setdefault(a.id, set()).update(rd.arg_reads(f, n, a))
            visit(n.func)
            for a in every:
                if not any(a is h for h in handed):
                    visit(a)
            return
        for c in ast.iter_child_nodes(n):
            visit(c)

    visit(e)
    return out


_NARROW = "~"  # prefix of a key component that retains something of a parameter but not the parameter


def _key_occurrences(e: ast.AST, params: set[str]) -> dict[str, set]:
    """Components of the parameters the key retains.  A parameter (or component) under a call that is not a lossless
    wrapper, or under a non-constant subscript, is retained only in part: it is recorded as a narrowed component,
    which never stands for the parameter itself."""
    from .keyreads import LOSSLESS, ORDER_KEEPING, _strip_order

    out: dict[str, set] = {}

    def add(p: str, comp, narrow: Optional[str]):
        if narrow is None:
            out.setdefault(p, set()).add(comp)
        else:
            shown = p if comp == WHOLE else (f"{p}[{comp}]" if isinstance(comp, int) else f"{p}{comp}")
            out.setdefault(p, set()).add(_NARROW + narrow.replace("…", shown))

    def visit(n: ast.AST, narrow: Optional[str]):
        if isinstance(n, ast.Name) and n.id in params:
            add(n.id, WHOLE, narrow)
            return
        if isinstance(n, ast.Subscript):
            inner = n.value
            while isinstance(inner, ast.Call) and (call_name(inner) or "").split(".")[-1] in (
                    "atleast_1d", "tuple", "list", "asarray", "array") and len(inner.args) == 1:
                inner = inner.args[0]
            if isinstance(inner, ast.Name) and inner.id in params:
                if isinstance(n.slice, ast.Constant) and isinstance(n.slice.value, int):
                    add(inner.id, n.slice.value, narrow)
                else:
                    add(inner.id, WHOLE, narrow or f"…[{norm_text(n.slice)[:20]}]")
                    visit(n.slice, narrow)
                return
        if isinstance(n, ast.Attribute) and isinstance(n.value, ast.Name) and n.value.id in params and \
                n.value.id != "self":
            attr = n.attr[len("_valid_"):] if n.attr.startswith("_valid_") else n.attr.lstrip("_")
            add(n.value.id, "." + attr, narrow)
            return
        if isinstance(n, ast.Call):
            nm = (call_name(n) or "").split(".")[-1]
            method_of_param = isinstance(n.func, ast.Attribute) and isinstance(n.func.value, ast.Name) and \
                n.func.value.id in params and n.func.value.id != "self"
            if method_of_param:
                visit(n.func, narrow)  # p.lower() is the component `.lower` of p, as before
                inner_narrow = narrow
            elif nm in LOSSLESS or nm in ("reversed", "enumerate", "iter") or isinstance(n.func, ast.Call):
                inner_narrow = narrow
            else:
                inner_narrow = narrow or f"{norm_text(n.func)[:30]}(…)"
            for a in list(n.args) + [k.value for k in n.keywords]:
                visit(a, inner_narrow)
            return
        if isinstance(n, (ast.GeneratorExp, ast.ListComp, ast.SetComp)) and len(n.generators) == 1:
            g = n.generators[0]
            src, enum = _strip_order(g.iter, ORDER_KEEPING)
            if isinstance(src, ast.Name) and src.id in params and isinstance(g.target, ast.Name) and not enum:
                # elementwise copy of the parameter: lossless iff unfiltered and the element survives whole
                sub = _key_occurrences(n.elt, {g.target.id})
                whole = WHOLE in sub.get(g.target.id, set()) and not g.ifs and not isinstance(n, ast.SetComp)
                add(src.id, WHOLE, narrow if whole else (narrow or "an element-wise projection of …"))
                for t in g.ifs:
                    visit(t, narrow)
                visit(n.elt, narrow)
                return
        for c in ast.iter_child_nodes(n):
            visit(c, narrow)

    visit(e, None)
    return out


def _self_attrs(f: FuncInfo, e: ast.AST, depth: int = 0, seen: Optional[set] = None) -> set[str]:
    """self attributes an expression depends on, following self-method calls (depth-limited)."""
    seen = seen if seen is not None else set()
    out: set[str] = set()
    for n in ast.walk(e):
        if isinstance(n, ast.Attribute) and isinstance(n.value, ast.Name) and n.value.id == "self":
            g = f.cls.find_method(n.attr) if f.cls is not None else None
            if g is not None and depth < 3 and id(g) not in seen:
                seen.add(id(g))
                for st in g.body:
                    out |= _self_attrs(g, st, depth + 1, seen)
            elif g is None:
                out.add(n.attr)
    return out


def _derived_from_key(repo: Repo, f: FuncInfo, p: str, attr: str, key_comps: set) -> bool:
    """Is `p.attr` a property (of the class p is annotated with, on every class of that hierarchy that defines it)
    computed only from fields of p that the key contains?"""
    ann = None
    a = f.node.args
    for x in a.posonlyargs + a.args + a.kwonlyargs:
        if x.arg == p:
            ann = x.annotation
    if isinstance(ann, ast.Constant) and isinstance(ann.value, str):
        try:
            ann = ast.parse(ann.value, mode="eval").body
        except SyntaxError:
            return False
    if ann is None or dotted(ann) is None:
        return False
    base = repo.resolve_name(f.module, dotted(ann))
    if not isinstance(base, ClassInfo):
        # annotations under TYPE_CHECKING are not always importable: look the class up by name
        cands = [c for c in repo.all_classes() if c.name == dotted(ann).split(".")[-1]]
        if len(cands) != 1:
            return False
        base = cands[0]
    have = {c[1:].lstrip("_") for c in key_comps if isinstance(c, str) and c.startswith(".")}
    # grid quantities: decided on the storage slots the definitions reach (sa/rules/gridkind.py) — a property computed
    # from slots that the key's own attributes reach is determined by the key
    try:
        from . import gridkind as K

        grid = repo.cls("abtem.core.grid", "Grid")
        eng = getattr(repo, "_gridkind_engine", None)
        if eng is None:
            eng = K.Engine(repo, grid, "gpts", "sampling")
            repo._gridkind_engine = eng

        def slots(name: str):
            for nm in (name, "_valid_" + name, "_" + name):
                try:
                    k = eng.attr_kind(base, nm)
                except AnalysisError:
                    continue
                if k.atoms() and not any(a.split(".")[-1].lstrip("_") == nm.lstrip("_") and
                                         not a.startswith("Grid.") and not a.startswith(grid.qualname)
                                         for a in k.atoms()):
                    return k.atoms()
            return None

        want = slots(attr)
        if want:
            got = set()
            for h in have:
                got |= slots(h) or set()
            if want <= got:
                return True
    except (AnalysisError, KeyError, LookupError, AttributeError):
        pass
    n = 0
    for c in repo.subclasses(base, strict=False):
        m = None
        for nm in (attr, "_" + attr, "_valid_" + attr):
            m = m or c.find_method(nm)
        if m is None:
            continue
        if not m.is_property:
            return False
        n += 1
        fields = set()
        for st in m.body:
            fields |= {x[len("valid_"):] if x.startswith("valid_") else x for x in
                       (y.lstrip("_") for y in _self_attrs(m, st))}
        if not fields or not fields <= have:
            return False
    return n > 0


class CacheSite:
    def __init__(self, f, kind, owner, cache_name, key, value, store):
        self.f, self.kind, self.owner, self.cache_name = f, kind, owner, cache_name
        self.key, self.value, self.store = key, value, store


def find_sites(repo: Repo, modules: Optional[set[str]] = None) -> list[CacheSite]:
    sites: list[CacheSite] = []
    for f in repo.all_functions():
        if modules is not None and f.module.name not in modules:
            continue
        mdicts = _module_dicts(f)
        cdicts = _class_dicts(f.cls)
        globals_ = {n for st in walk_no_nested(f.node) if isinstance(st, ast.Global) for n in st.names}
        lookups: dict[str, list[ast.AST]] = {}
        for n in walk_no_nested(f.node):
            if isinstance(n, ast.Subscript) and isinstance(n.ctx, ast.Load):
                d = dotted(n.value)
                if d:
                    lookups.setdefault(d, []).append(n)
            elif isinstance(n, ast.Compare) and len(n.ops) == 1 and isinstance(n.ops[0], (ast.In, ast.NotIn)):
                d = dotted(n.comparators[0])
                if d:
                    lookups.setdefault(d, []).append(n)
            elif isinstance(n, ast.Call) and isinstance(n.func, ast.Attribute) and n.func.attr == "get":
                d = dotted(n.func.value)
                if d:
                    lookups.setdefault(d, []).append(n)
        for st in walk_no_nested(f.node):
            if isinstance(st, ast.Assign) and len(st.targets) == 1 and isinstance(st.targets[0], ast.Subscript):
                t = st.targets[0]
                d = dotted(t.value)
                if d is None:
                    continue
                base = d.split(".")[-1]
                # the lookup may go through a property exposing the same dict (self.tables vs self._tables)
                if d not in lookups and not any(k.split(".")[-1].lstrip("_") == base.lstrip("_") for k in lookups):
                    continue
                if d in mdicts:
                    owner = "module"
                elif d.startswith(("self.", "cls.")) and d.count(".") == 1 and base in cdicts:
                    owner = "class"
                elif f.cls is not None and d.split(".")[0] in {c.name for c in f.cls.mro()} and base in cdicts:
                    owner = "class"
                elif d.startswith("self.") and d.count(".") == 1:
                    # instance dict: must look like a cache (assigned {} in a constructor of the class)
                    inits = repo.init_chain(f.cls) if f.cls is not None else []
                    is_cache = False
                    for g in inits:
                        for s2 in ast.walk(g.node):
                            if isinstance(s2, (ast.Assign, ast.AnnAssign)):
                                tg = s2.targets if isinstance(s2, ast.Assign) else [s2.target]
                                if any(dotted(x) == d for x in tg) and isinstance(s2.value, ast.Dict) and \
                                        not s2.value.keys:
                                    is_cache = True
                    if not is_cache:
                        continue
                    owner = "instance"
                else:
                    continue
                sites.append(CacheSite(f, "dict", owner, d, t.slice, st.value, st))
        # instance slot pair:  if K == self._key: return self._value  ...  self._value = V; self._key = K
        if f.cls is not None:
            for i_ in walk_no_nested(f.node):
                if not (isinstance(i_, ast.If) and isinstance(i_.test, ast.Compare) and len(i_.test.ops) == 1
                        and isinstance(i_.test.ops[0], ast.Eq)):
                    continue
                sides = [i_.test.left, i_.test.comparators[0]]
                kattr = next((dotted(x) for x in sides if (dotted(x) or "").startswith("self.")
                              and (dotted(x) or "").count(".") == 1), None)
                rets_ = [r for r in i_.body if isinstance(r, ast.Return) and r.value is not None]
                vattr = dotted(rets_[0].value) if rets_ else None
                if kattr is None or vattr is None or not vattr.startswith("self.") or vattr.count(".") != 1:
                    continue
                kst = [st for st in walk_no_nested(f.node) if isinstance(st, ast.Assign)
                       and any(dotted(t) == kattr for t in st.targets)]
                vst = [st for st in walk_no_nested(f.node) if isinstance(st, ast.Assign)
                       and any(dotted(t) == vattr for t in st.targets)]
                if len(kst) == 1 and len(vst) == 1:
                    sites.append(CacheSite(f, "islot", "instance", vattr, kst[0].value, vst[0].value, vst[0]))
        for g in globals_:
            stores = [st for st in walk_no_nested(f.node) if isinstance(st, ast.Assign)
                      and any(isinstance(t, ast.Name) and t.id == g for t in st.targets)]
            reads = [r for r in walk_no_nested(f.node) if isinstance(r, ast.Return) and r.value is not None]
            if stores and reads:
                for st in stores:
                    if isinstance(st.value, ast.Tuple) and len(st.value.elts) == 2:
                        sites.append(CacheSite(f, "slot", "module", g, st.value.elts[0], st.value.elts[1], st))
    return sites


def check(ctx, rule: str = "R-CACHEKEY", modules: Optional[set[str]] = None, stats: Optional[dict] = None) -> int:
    from . import keyreads

    repo: Repo = ctx.repo
    rd = keyreads.Reads(repo)
    n = 0
    for s in find_sites(repo, modules):
        f = s.f
        params = set(f.params) - {"self", "cls"}
        inl = _Inliner(f, strict=True)
        key_e = rd.expand_helpers(f, inl.visit(copy.deepcopy(s.key)), params)
        inl2 = _Inliner(f)
        val_e = inl2.visit(copy.deepcopy(s.value))
        kocc, vocc = _key_occurrences(key_e, params), _value_occurrences(rd, f, val_e, params)
        construct = f"{f.qualname}:{s.cache_name}"
        n += 1
        problems = []

        def show(p, c):
            if isinstance(c, str) and c.startswith(_NARROW):
                return c[len(_NARROW):]
            return p if c == WHOLE else (f"{p}[{c}]" if isinstance(c, int) else f"{p}{c}")

        for p, comps in sorted(vocc.items()):
            kc = kocc.get(p, set())
            if WHOLE in kc or not comps:
                continue
            if not kc:
                problems.append((p, f"`{p}` flows into the cached value but not into the key"))
                continue
            missing = {c for c in comps if c != WHOLE and c not in kc}
            # a property of the parameter's class computed from fields that are all in the key is covered by them
            derived = {c for c in missing if isinstance(c, str) and c.startswith(".") and
                       _derived_from_key(repo, f, p, c[1:], kc)}
            missing -= derived
            comps = comps - derived
            if not comps:
                continue
            if {0, 1} <= kc and not missing:
                continue  # both components of a 2-vector are in the key
            if WHOLE in comps or missing:
                used = ", ".join(show(p, c) for c in sorted(comps, key=str))
                have = ", ".join(show(p, c) for c in sorted(kc, key=str))
                problems.append((p, f"the cached value depends on {used} but the key only contains {have}"))
        # element precision: collections the value iterates over
        flagged = {p for p, _ in problems}
        uses = rd.collect_uses(f, val_e, params)
        covered: dict[str, int] = {}
        undecided = []
        for u in uses:
            if u.collection.split(".")[0] in flagged:
                continue
            if inl.loop_targets_inlined:
                raise AnalysisError(f"{f.qualname}: the key is built inside a loop over "
                                    f"{', '.join(sorted(inl.loop_targets_inlined))} in a form that is not read; the "
                                    f"cached value reads the elements of {u.collection} one by one")
            verdict, why = keyreads.decide(rd, u, rd.key_cover(key_e, u.collection, params))
            if verdict == "ok":
                # the covering part of the key may be added under a condition only
                for test, pol in rd.key_guards(f, s.key, u.collection, params):
                    x, ne = rd.nonempty_form(test)
                    view = rd.view_of(f, x, {p: p for p in params})
                    if view is None or view[0] != u.collection or ne != pol:
                        raise AnalysisError(f"{f.qualname}: {u.collection} enters the key only when "
                                            f"`{norm_text(test)[:60]}` is {pol}; that condition is not a test for "
                                            "elements of the collection and is not compared with the value here")
                    if not view[1] or view[1] <= u.filters or rd.guarded(u, u.collection, view[1]):
                        continue
                    verdict = "conditional"
                    flt = " and ".join(sorted((t if q else f"not {t}") for t, q in view[1])).replace("·", "element")
                    problems.append((u.collection, f"the cached value visits the elements of {u.collection} (`{u.text}` in "
                                                   f"{u.where.split('.')[-1]}) whether or not one of them has {flt}, "
                                                   f"but the key holds them only when `{norm_text(test)[:60]}`: without "
                                                   "such an element, collections that the value distinguishes share a "
                                                   "key"))
            if verdict == "ok":
                covered[u.collection] = covered.get(u.collection, 0) + 1
            elif verdict == "violation":
                msg = (f"the cached value visits the elements of {u.collection} (`{u.text}` in {u.where.split('.')[-1]}): "
                       f"{why}")
                if (u.collection, msg) not in problems:
                    problems.append((u.collection, msg))
            elif verdict == "undecided":
                undecided.append(f"{f.qualname}: {u.collection}: {why}")
            # 'absent': the component rule above has judged the parameter already
        if undecided and not problems:
            raise AnalysisError(undecided[0])
        if stats is not None:
            stats[construct] = {"uses": len(uses), "covered": dict(covered)}
        if s.owner in ("module", "class") and f.cls is not None:
            vs = _self_attrs(f, s.value) | _self_attrs(f, val_e)
            ks = _self_attrs(f, key_e)
            cache_base = s.cache_name.split(".")[-1]
            miss = sorted(a for a in vs - ks if a != cache_base and not a.startswith("__"))
            if miss:
                problems.append(("self", f"the cache `{s.cache_name}` is shared by all instances but the cached value "
                                         f"depends on self.{', self.'.join(miss)}, which the key does not contain"))
        # (4) the value stored on a miss is a function of the key's inputs, not of what the cache already holds
        cache_base = s.cache_name.split(".")[-1]
        cb = cache_base.lstrip("_")
        vdefs = [s.value]
        if isinstance(s.value, ast.Name):
            vdefs = [d for d in inl.assigns.get(s.value.id, []) if d is not None] or [s.value]
        for v in vdefs:
            if isinstance(v, ast.Subscript) and (dotted(v.value) or "").split(".")[-1].lstrip("_") == cb:
                continue  # the lookup D[K] itself
            try:
                v = _Inliner(f).visit(copy.deepcopy(v))  # read through single-definition locals
            except AnalysisError:
                pass
            reads = {a.lstrip("_") for a in _self_attrs(f, v)} if f.cls is not None else set()
            reads |= {x.id.lstrip("_") for x in ast.walk(v) if isinstance(x, ast.Name) and s.owner == "module"}
            if cb in reads:
                problems.append(("history", f"on a miss the value stored under the key can come from `{norm_text(v)[:60]}`, "
                                            f"which reads the cache `{s.cache_name}` itself: what is returned for this "
                                            "key depends on which other keys were computed before"))
        # tolerance guards
        for c in walk_no_nested(f.node):
            if isinstance(c, ast.Call) and (call_name(c) or "").split(".")[-1] in ("isclose", "allclose"):
                involved = {x.id for a in c.args for x in ast.walk(a) if isinstance(x, ast.Name)}
                refers_cache = s.cache_name.split(".")[-1] in involved or any(
                    x in involved for x, defs in inl.assigns.items()
                    if any(d is not None and s.cache_name.split(".")[-1] in {y.id for y in ast.walk(d) if isinstance(
                        y, ast.Name)} for d in defs))
                hit = involved & set(vocc)
                if refers_cache and hit and s.kind == "slot":
                    problems.append(("tolerance", f"the cached value is returned when `{norm_text(c)[:60]}` holds: inputs "
                                                  f"within the tolerance get the value computed for another "
                                                  f"{', '.join(sorted(hit))}"))
        if not problems:
            elem = "".join(f"; {k} element iteration(s) over {c} determined by the key" for c, k in sorted(covered.items()))
            ctx.ok(rule, construct, f.loc(s.store),
                   f"{s.owner}-level {s.kind} cache: every input of the cached value is in the key "
                   f"({', '.join(sorted(p for p, c in vocc.items() if c)) or 'no parameter'}){elem}")
        for p, why in problems:
            ctx.violation(rule, construct, f.loc(s.store), why + f" (key `{norm_text(s.key)[:60]}`)", key_detail=p)
    return n


_CONTROL = '''
_CACHE = {}
_last = None

def f(gpts, sampling, inner):
    key = (tuple(gpts), float(inner), float(sampling[0]))
    try:
        return _CACHE[key]
    except KeyError:
        pass
    v = compute(gpts=gpts, sampling=sampling, inner=inner)
    _CACHE[key] = v
    return v

def g(energy):
    global _last
    last = _last
    if last is not None and np.isclose(energy, last[0]):
        return last[1]
    w = convert(energy)
    _last = (float(energy), w)
    return w
'''


def positive_control(ctx) -> None:
    """The rule must recognise a component-incomplete key and a tolerance slot on every run."""
    from pathlib import Path

    from ..model import ModuleInfo
    from ..report import Ctx

    tree = ast.parse(_CONTROL)
    mod = ModuleInfo(name="control", path=Path("control.py"), relpath="control.py", tree=tree, source=_CONTROL)
    for st in tree.body:
        if isinstance(st, ast.FunctionDef):
            mod.functions[st.name] = FuncInfo(mod, st)
        elif isinstance(st, ast.Assign):
            mod.assigns[st.targets[0].id] = st.value

    class _R:
        modules = {"control": mod}

        def all_functions(self):
            return mod.functions.values()

        def init_chain(self, c):
            return []

    class _C:
        repo = _R()
        found: list = []

        def ok(self, *a, **k):
            pass

        def violation(self, rule, construct, where, detail, key_detail=""):
            self.found.append((construct, key_detail))

    c = _C()
    check(c)
    got = sorted(c.found)
    want = [("control.f:_CACHE", "sampling"), ("control.g:_last", "tolerance")]
    ctx.require(got == want, f"R-CACHEKEY positive control failed: {got}")


def check_loop_reuse(ctx, rule: str = "R-LOOPREUSE", modules: Optional[set[str]] = None) -> int:
    """Loop-carried reuse: inside `for i in ...:` a block guarded by a test on its own result
    (`if X is None or len(X) != n[i]:`) recomputes X only when the guard fires; in the other iterations the value of
    an earlier iteration is reused.  Every per-iteration input `P[i]` of the recomputed values must be examined by the
    guard, otherwise iteration i silently uses the value computed for another iteration's P."""
    n = 0
    for f in ctx.repo.all_functions():
        if modules is not None and f.module.name not in modules:
            continue
        for loop in walk_no_nested(f.node):
            if not isinstance(loop, ast.For) or not isinstance(loop.target, ast.Name):
                continue
            ivar = loop.target.id
            for st in loop.body:
                if not isinstance(st, ast.If) or st.orelse:
                    continue
                assigned = set()
                for s2 in st.body:
                    for x in ast.walk(s2):
                        if isinstance(x, ast.Assign):
                            for t in x.targets:
                                if isinstance(t, ast.Name):
                                    assigned.add(t.id)
                tested = {x.id for x in ast.walk(st.test) if isinstance(x, ast.Name)}
                reused = assigned & tested
                if not reused:
                    continue
                # the reused names must be read after the guarded block in the loop body
                after = loop.body[loop.body.index(st) + 1:]
                read_after = {x.id for s3 in after for x in ast.walk(s3) if isinstance(x, ast.Name)
                              and isinstance(x.ctx, ast.Load)}
                if not (assigned & read_after):
                    continue

                def per_iter(e):
                    out = set()
                    for x in ast.walk(e):
                        if isinstance(x, ast.Subscript) and isinstance(x.slice, ast.Name) and x.slice.id == ivar:
                            d = dotted(x.value)
                            if d:
                                out.add(d)
                    return out

                vals = set()
                for s2 in st.body:
                    for x in ast.walk(s2):
                        if isinstance(x, (ast.Assign, ast.AugAssign)):
                            vals |= per_iter(x.value)
                        elif isinstance(x, ast.If):
                            vals |= per_iter(x.test)
                guard = per_iter(st.test)
                n += 1
                missing = sorted(vals - guard)
                construct = f"{f.qualname}:reuse of {', '.join(sorted(reused))}"
                if missing:
                    ctx.violation(rule, construct, f.loc(st),
                                  f"`{', '.join(sorted(assigned))}` is recomputed only when `{norm_text(st.test)[:70]}`; the "
                                  f"recomputed value depends on {', '.join(m + '[' + ivar + ']' for m in missing)}, which the "
                                  f"guard does not examine: iteration {ivar} reuses the value computed for another "
                                  f"iteration's {', '.join(missing)}", key_detail=",".join(missing))
                else:
                    ctx.ok(rule, construct, f.loc(st), "every per-iteration input of the reused value is in the guard")
    return n
