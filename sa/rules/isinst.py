"""R-ISINSTANCE — operands of isinstance(): the value first, the type second.

`isinstance(np.ndarray, obj)` raises TypeError ("arg 2 must be a type") for every value `obj` that is not itself a
class, so the arm it guards — and every arm after it in the same dispatch — is unreachable for data.  Decided from
what the operands *are*, not from how they are spelled: the first operand names a class (a builtin / numbers / numpy /
dask type, or a name that resolves to a class of the package) and is not a variable of the function, while the second
operand is a parameter or a local variable of the function (data).
"""
from __future__ import annotations

import ast

from ..model import FuncInfo, dotted, norm_text

_TYPE_LEAVES = {"tuple", "list", "dict", "set", "frozenset", "int", "float", "str", "bool", "complex", "slice", "bytes",
                "Number", "Integral", "Real", "Complex", "ndarray", "Array", "integer", "floating", "bool_", "generic",
                "number", "Iterable", "Sequence", "Mapping"}


def _variables(fn: ast.AST) -> set[str]:
    out: set[str] = set()
    for n in ast.walk(fn):
        if isinstance(n, (ast.FunctionDef, ast.Lambda)):
            a = n.args
            out |= {x.arg for x in a.posonlyargs + a.args + a.kwonlyargs}
            if a.vararg:
                out.add(a.vararg.arg)
            if a.kwarg:
                out.add(a.kwarg.arg)
        elif isinstance(n, ast.Name) and isinstance(n.ctx, ast.Store):
            out.add(n.id)
    return out


def check(ctx, repo, funcs: list[FuncInfo], rule: str = "R-ISINSTANCE") -> int:
    n_calls = 0
    for f in funcs:
        variables = _variables(f.node)
        calls = [c for c in ast.walk(f.node) if isinstance(c, ast.Call) and dotted(c.func) == "isinstance"
                 and len(c.args) == 2 and not c.keywords]
        if not calls:
            continue
        bad = []
        for c in calls:
            n_calls += 1
            first, second = c.args
            d = dotted(first)
            if d is None or (d.split(".")[0] in variables and not d.endswith(".__class__")):
                continue
            is_type = d.split(".")[-1] in _TYPE_LEAVES or d.endswith(".__class__")
            if not is_type and "." not in d:
                try:
                    got = repo.resolve_name(f.module, d)
                except Exception:  # noqa: BLE001
                    got = None
                is_type = hasattr(got, "mro")
            is_data = isinstance(second, ast.Name) and second.id in variables
            if is_type and is_data:
                bad.append(c)
        ctx.check(not bad, rule, f"{f.qualname}:isinstance operands", f.loc(bad[0]) if bad else f.where,
                  f"{len(calls)} isinstance tests, each with the value first and the type second",
                  f"`{norm_text(bad[0]) if bad else ''}` tests a *type* against a *value*: it raises TypeError for every "
                  "value that is not a class, so this arm and every later arm of the dispatch cannot be reached",
                  key_detail="isinstance")
    return n_calls
