"""Rational-function terms on top of sa.terms.Poly.

`Poly.inverse()` of a non-monomial is an opaque atom, so `a/(b-c)*n` and `a/((b-c)/n)` have different Poly
normal forms although they are the same function.  `Rat` keeps numerator and denominator as polynomials (no
opaque inverses are introduced by +,-,*,/ and integer powers) and decides equality by cross-multiplication,
which is exact for quotients of polynomials over Q in opaque atoms.

`RatMixin` adds `.rat(expr)` to any `Normalizer` subclass; name inlining is delegated to `_inline(name)` so that
flow-sensitive (FlowNormalizer) and class-sensitive normalisers can share it.
"""
from __future__ import annotations

import ast
from contextlib import contextmanager
from fractions import Fraction
from typing import Iterator, Optional

from ..model import dotted
from ..terms import FlowNormalizer, Poly


class Rat:
    __slots__ = ("num", "den")

    def __init__(self, num: Poly, den: Optional[Poly] = None):
        self.num = num
        self.den = den if den is not None else Poly.const(1)

    @staticmethod
    def of(p: Poly) -> "Rat":
        """Poly -> Rat, moving negative exponents of plain atoms into the denominator."""
        den_mono: dict[str, Fraction] = {}
        for m in p.terms:
            for a, e in m:
                if e < 0 and e.denominator == 1:
                    den_mono[a] = max(den_mono.get(a, Fraction(0)), -e)
        if not den_mono:
            return Rat(p)
        den = Poly({tuple(sorted(den_mono.items())): Fraction(1)})
        return Rat(p * den, den)

    def __add__(self, o: "Rat") -> "Rat":
        if self.den == o.den:
            return Rat(self.num + o.num, self.den)
        return Rat(self.num * o.den + o.num * self.den, self.den * o.den)

    def __neg__(self) -> "Rat":
        return Rat(-self.num, self.den)

    def __sub__(self, o: "Rat") -> "Rat":
        return self + (-o)

    def __mul__(self, o: "Rat") -> "Rat":
        return Rat(self.num * o.num, self.den * o.den)

    def inverse(self) -> "Rat":
        return Rat(self.den, self.num)

    def __truediv__(self, o: "Rat") -> "Rat":
        return self * o.inverse()

    def power(self, e: int) -> "Rat":
        if e < 0:
            return self.inverse().power(-e)
        return Rat(self.num.power(Fraction(e)), self.den.power(Fraction(e)))

    def __eq__(self, o) -> bool:
        return isinstance(o, Rat) and self.num * o.den == o.num * self.den

    def __hash__(self):
        return 0

    def is_zero(self) -> bool:
        return self.num.is_zero()

    def atoms(self) -> set[str]:
        return self.num.atoms() | self.den.atoms()

    def subst(self, mapping: dict[str, Poly]) -> "Rat":
        return Rat(self.num.subst(mapping), self.den.subst(mapping))

    def key(self) -> str:
        d = self.den.key()
        return self.num.key() if d == "1" else f"({self.num.key()}) / ({d})"

    def __repr__(self):
        return f"Rat<{self.key()}>"


class RatMixin:
    """Mixin for Normalizer subclasses: `.rat(expr)` -> Rat."""

    @contextmanager
    def _inline(self, name: str) -> Iterator[Optional[ast.AST]]:  # pragma: no cover - overridden
        yield None

    def rat(self, n: ast.AST) -> Rat:
        if isinstance(n, ast.BinOp):
            if isinstance(n.op, ast.Add):
                return self.rat(n.left) + self.rat(n.right)
            if isinstance(n.op, ast.Sub):
                return self.rat(n.left) - self.rat(n.right)
            if isinstance(n.op, ast.Mult):
                return self.rat(n.left) * self.rat(n.right)
            if isinstance(n.op, ast.Div):
                return self.rat(n.left) / self.rat(n.right)
            if isinstance(n.op, ast.Pow):
                e = self.norm(n.right).const_value()  # type: ignore[attr-defined]
                if e is not None and e.denominator == 1 and -6 <= e.numerator <= 6:
                    return self.rat(n.left).power(e.numerator)
        if isinstance(n, ast.UnaryOp) and isinstance(n.op, ast.USub):
            return -self.rat(n.operand)
        if isinstance(n, ast.UnaryOp) and isinstance(n.op, ast.UAdd):
            return self.rat(n.operand)
        if isinstance(n, (ast.Name, ast.Attribute)):
            d = dotted(n)
            if d is not None:
                with self._inline(d) as expr:
                    if expr is not None:
                        return self.rat(expr)
        if isinstance(n, ast.Call):
            fn = dotted(n.func)
            if fn in self.identity_calls and len(n.args) >= 1:  # type: ignore[attr-defined]
                return self.rat(n.args[0])
        return Rat.of(self.norm(n))  # type: ignore[attr-defined]


class RatFlow(RatMixin, FlowNormalizer):
    """FlowNormalizer (single reaching definitions inlined) with rational-function terms."""

    @contextmanager
    def _inline(self, name: str):
        if name in self.extra:
            yield self.extra[name]
            return
        if name in self.no_inline:
            yield None
            return
        d = self.df.single_def(self._at[-1], name)
        if d is None or d.kind not in ("assign", "walrus") or d.value is None or (d.node, name) in self._stack:
            yield None
            return
        st = self.df.cfg.nodes[d.node].ast
        if isinstance(st, ast.Assign) and not any(
                (isinstance(t, ast.Name) and t.id == name) or dotted(t) == name for t in st.targets):
            if not (isinstance(st.targets[0], (ast.Tuple, ast.List)) and isinstance(st.value, (ast.Tuple, ast.List))):
                yield None
                return
        self._stack.append((d.node, name))  # type: ignore[arg-type]
        self._at.append(d.node)
        try:
            yield d.value
        finally:
            self._at.pop()
            self._stack.pop()
