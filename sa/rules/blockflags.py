"""R-BLOCKFLAGS — sub-distributions keep the flags of the distribution they are cut from.

Every constructor call inside DistributionFromValues that builds a distribution from (a part of) the receiver's own
values — in `divide`, or in a helper `divide` uses such as `__getitem__` — passes `ensemble_mean` taken from the
receiver.  A block built without it falls back to ensemble_mean=False: the blocks' axes metadata then no longer
reassembles to the original `_ensemble_mean`, and a lazily partitioned averaged ensemble is not averaged.
"""
from __future__ import annotations

import ast

from ..model import dotted, norm_text, walk_no_nested


def check(ctx, rule: str = "R-BLOCKFLAGS") -> int:
    repo = ctx.repo
    cls = repo.cls("abtem.distributions", "DistributionFromValues")
    n = 0
    for defs in cls.methods.values():
        for f in defs:
            if f.name == "__init__":
                continue
            for c in walk_no_nested(f.node):
                if not isinstance(c, ast.Call):
                    continue
                fn = dotted(c.func) or (norm_text(c.func) if isinstance(c.func, ast.Call) else "")
                if fn not in ("self.__class__", "type(self)", cls.name, "DistributionFromValues"):
                    continue
                uses_own = any(dotted(a) in ("self.values", "self._values") for x in c.args + [k.value for k in c.keywords]
                               for a in ast.walk(x))
                if not uses_own:
                    continue
                n += 1
                em = next((k.value for k in c.keywords if k.arg == "ensemble_mean"), None)
                if em is None and len(c.args) >= 3:
                    em = c.args[2]
                ok = em is not None and dotted(em) in ("self.ensemble_mean", "self._ensemble_mean")
                ctx.check(ok, rule, f"{f.qualname}:sub-distribution keeps ensemble_mean", f.loc(c),
                          "ensemble_mean passed on from the receiver",
                          f"`{norm_text(c)[:70]}` builds a part of the distribution without the receiver's ensemble_mean "
                          f"({'passes ' + norm_text(em) if em is not None else 'not passed: the part falls back to False'}): "
                          "the blocks of an averaged ensemble are marked as not averaged", key_detail="ensemble_mean")
    return n
