"""Term helpers shared by C17 / C18 / C20: element-wise generator decomposition, two-armed
(endpoint / no endpoint) term normalisation, inlining of tiny local functions.

Everything here is `ast`-level; nothing is imported from the analysed package.
"""
from __future__ import annotations

import ast
from fractions import Fraction
from typing import Optional

from ..model import AnalysisError, dotted
from ..terms import Normalizer, Poly

CEIL_CALLS = {"ceil"}
NORM_CALLS = {"np.linalg.norm", "numpy.linalg.norm", "xp.linalg.norm", "linalg.norm", "norm"}
INT_IDENTITY = {"int", "float", "np.array", "np.asarray", "xp.asarray", "xp.array", "tuple", "list", "np.int64",
                "np.float32", "np.float64"}


def strip_key(p: Poly) -> str:
    k = p.key()
    return k[2:] if k.startswith("1*") and " + " not in k else k


# ---------------------------------------------------------------------------------------------
def elementwise(expr: ast.AST):
    """Decompose `tuple(f(a, b) for a, b in zip(A, B))` (also list(...), a bare list comprehension or
    generator, a single un-zipped iterable) into (element expression, {target name: iterable expr}).
    Returns None when `expr` has no such shape."""
    comp = None
    if isinstance(expr, ast.Call) and dotted(expr.func) in ("tuple", "list", "np.array", "np.asarray") and len(
            expr.args) == 1 and isinstance(expr.args[0], (ast.GeneratorExp, ast.ListComp)):
        comp = expr.args[0]
    elif isinstance(expr, (ast.GeneratorExp, ast.ListComp)):
        comp = expr
    if comp is None:
        return None
    if len(comp.generators) != 1 or comp.generators[0].ifs or comp.generators[0].is_async:
        raise AnalysisError(f"element-wise expression with filters / nested loops: {ast.unparse(expr)[:80]}")
    g = comp.generators[0]
    binding = bind_loop_target(g.target, g.iter)
    return comp.elt, binding


def bind_loop_target(target: ast.expr, it: ast.expr) -> dict[str, ast.expr]:
    """Pair loop-target names with the iterables of a `zip(...)` (or the single iterable); `enumerate`
    contributes an index name bound to the marker Constant('#index')."""
    out: dict[str, ast.expr] = {}
    if isinstance(it, ast.Call) and dotted(it.func) == "enumerate" and len(it.args) == 1 and isinstance(
            target, ast.Tuple) and len(target.elts) == 2 and isinstance(target.elts[0], ast.Name):
        out[target.elts[0].id] = ast.Constant(value="#index")
        out.update(bind_loop_target(target.elts[1], it.args[0]))
        return out
    if isinstance(target, ast.Name):
        out[target.id] = it
        return out
    if isinstance(target, (ast.Tuple, ast.List)) and isinstance(it, ast.Call) and dotted(it.func) == "zip" and len(
            it.args) == len(target.elts) and not it.keywords:
        for t, a in zip(target.elts, it.args):
            if isinstance(t, ast.Name):
                out[t.id] = a
            elif isinstance(t, (ast.Tuple, ast.List)):
                out.update(bind_loop_target(t, a))
            else:
                raise AnalysisError(f"unsupported loop target {ast.unparse(target)}")
        return out
    raise AnalysisError(f"cannot pair loop target `{ast.unparse(target)}` with `{ast.unparse(it)[:60]}`")


# ---------------------------------------------------------------------------------------------
class ArmNormalizer(Normalizer):
    """Normalizer with
      * `truth`: names whose boolean value is fixed (the endpoint flag) — `X if e else Y` selects an
        arm, a bare `e` used arithmetically is 1/0;
      * `polys`: names replaced by ready-made polynomials;
      * `local_funcs`: tiny local functions (`_safe_divide`) inlined through their generic return;
      * ceil(...) and norm(...) as canonical atoms over their normalised argument;
      * int()/float()/tuple()/np.array() as identity.
    """

    def __init__(self, truth: Optional[dict[str, bool]] = None, polys: Optional[dict[str, Poly]] = None,
                 local_funcs: Optional[dict[str, ast.FunctionDef]] = None, **kw):
        ident = set(kw.pop("identity_calls", set())) | INT_IDENTITY
        super().__init__(identity_calls=ident, **kw)
        self.truth = dict(truth or {})
        self.polys = dict(polys or {})
        self.local_funcs = dict(local_funcs or {})

    # -- truth of a test expression, None when unknown
    def _truth(self, t: ast.expr) -> Optional[bool]:
        d = dotted(t)
        if d is not None and d in self.truth:
            return self.truth[d]
        if isinstance(t, ast.UnaryOp) and isinstance(t.op, ast.Not):
            v = self._truth(t.operand)
            return None if v is None else (not v)
        if isinstance(t, ast.Constant) and isinstance(t.value, bool):
            return t.value
        if isinstance(t, ast.BoolOp):
            vals = [self._truth(v) for v in t.values]
            if isinstance(t.op, ast.And):
                if any(v is False for v in vals):
                    return False
                if all(v is True for v in vals):
                    return True
                return None
            if any(v is True for v in vals):
                return True
            if all(v is False for v in vals):
                return False
            return None
        return None

    def norm(self, n: ast.AST) -> Poly:
        if isinstance(n, ast.IfExp):
            v = self._truth(n.test)
            if v is not None:
                return self.norm(n.body if v else n.orelse)
            return Poly.atom(self.opaque(n))
        if isinstance(n, (ast.Name, ast.Attribute)):
            d = dotted(n)
            if d is not None and d in self.polys:
                return self.polys[d]
            if d is not None and d in self.truth:
                return Poly.const(1 if self.truth[d] else 0)
        return super().norm(n)

    def _call(self, n: ast.Call) -> Poly:
        fn = dotted(n.func)
        short = fn.split(".")[-1] if fn else None
        if short in CEIL_CALLS and len(n.args) == 1:
            return Poly.atom(f"ceil({strip_key(self.norm(n.args[0]))})")
        if fn in NORM_CALLS and n.args:
            return Poly.atom(f"‖{strip_key(self.norm(n.args[0]))}‖")
        if fn in self.local_funcs:
            return self._inline(self.local_funcs[fn], n)
        return super()._call(n)

    def _inline(self, f: ast.FunctionDef, call: ast.Call) -> Poly:
        params = [a.arg for a in f.args.posonlyargs + f.args.args]
        if call.keywords or len(call.args) != len(params) or f.args.vararg or f.args.kwarg:
            raise AnalysisError(f"cannot inline call {ast.unparse(call)}")
        generic = generic_return(f)
        sub = ArmNormalizer(truth=self.truth, polys={p: self.norm(a) for p, a in zip(params, call.args)},
                            local_funcs={k: v for k, v in self.local_funcs.items() if k != f.name})
        return sub.norm(generic)


def generic_return(f: ast.FunctionDef) -> ast.expr:
    """The return expression of a tiny local function once its degenerate guards (a constant returned
    under a comparison of a parameter with the literal zero — the division-by-zero guard) are set aside."""
    params = {a.arg for a in f.args.posonlyargs + f.args.args}
    found: list[ast.expr] = []

    def is_zero_guard(t: ast.expr) -> bool:
        if isinstance(t, ast.Compare) and len(t.ops) == 1 and isinstance(t.ops[0], (ast.Eq, ast.Is)):
            a, b = t.left, t.comparators[0]
            for x, y in ((a, b), (b, a)):
                if isinstance(x, ast.Name) and x.id in params and isinstance(y, ast.Constant) and y.value == 0 \
                        and not isinstance(y.value, bool):
                    return True
        return False

    def walk(body: list[ast.stmt], guarded: bool) -> None:
        for st in body:
            if isinstance(st, ast.Return):
                if st.value is None:
                    raise AnalysisError(f"{f.name}: bare return")
                if guarded and isinstance(st.value, ast.Constant):
                    continue
                found.append(st.value)
            elif isinstance(st, ast.If):
                g = is_zero_guard(st.test)
                walk(st.body, guarded or g)
                walk(st.orelse, guarded)
            elif isinstance(st, ast.Expr) and isinstance(st.value, ast.Constant):
                continue
            else:
                raise AnalysisError(f"{f.name}: statement {type(st).__name__} prevents inlining")

    walk(f.body, False)
    # `x if b == 0 else a / b` as a single return
    if len(found) == 1 and isinstance(found[0], ast.IfExp) and is_zero_guard(found[0].test) and isinstance(
            found[0].body, ast.Constant):
        return found[0].orelse
    if len(found) != 1:
        raise AnalysisError(f"{f.name}: {len(found)} generic return expressions, expected one")
    return found[0]


def local_functions(func: ast.FunctionDef) -> dict[str, ast.FunctionDef]:
    return {st.name: st for st in ast.walk(func) if isinstance(st, ast.FunctionDef) and st is not func}


# ---------------------------------------------------------------------------------------------
def expected_grid_term(kind: str, endpoint: bool) -> Poly:
    """Normal form a grid quantity must have in the atoms E (extent), G (gpts), S (sampling)."""
    E, G, S = Poly.atom("E"), Poly.atom("G"), Poly.atom("S")
    one = Poly.const(1)
    n = (G - one) if endpoint else G
    if kind == "E":
        return n * S
    if kind == "S":
        return E * n.inverse()
    if kind == "G":
        q = Poly.atom(f"ceil({strip_key(E * S.inverse())})")
        return q + one if endpoint else q
    raise ValueError(kind)


def describe_expected(kind: str) -> str:
    return {"E": "gpts*sampling | (gpts-1)*sampling with endpoint",
            "S": "extent/gpts | extent/(gpts-1) with endpoint",
            "G": "ceil(extent/sampling) | ceil(extent/sampling)+1 with endpoint"}[kind]


def has_opaque_conditional(p: Poly) -> bool:
    return any(a.startswith("ite(") or " if " in a for a in p.atoms())


def frac(x) -> Fraction:
    return Fraction(x)
