"""Divisor analysis: can the divisor of a division vanish for a legitimate input?

For every division of a function (`a / b`, `a // b`, `a % b`, `x /= b`, `divide(a, b)`, `reciprocal(b)`,
`b ** -k`) the divisor is classified as

* NONZERO   proved different from 0: a non-zero constant, a quantity the caller declares positive (e.g. the
            electron wavelength), an interval that excludes 0 (sa/rules/absdom.py), `exp(...)`, products / quotients /
            powers of such values, or a value guarded by a dominating test (`if d == 0: ... else: x / d`);
* VANISHES  a witness shows that it is 0 for some legitimate input: it is 0 at the *default point* (the designated
            parameters — the polar grid at the optical axis — are 0 and every value unpacked from a parameter
            distribution is at its default 0), or it is a trigonometric function of a free argument, or a boolean
            array, or a product / numerator / positive power of such a value;
* UNKNOWN   neither could be shown (the caller must raise AnalysisError: fail-closed).

Nothing here is specific to one property; the caller decides which functions are examined and which leaves are
positive.
"""
from __future__ import annotations

import ast
from typing import Callable, Optional

from ..cfg import DataFlow
from ..model import call_name, dotted, last_attr, norm_text, walk_no_nested
from .absdom import IDENTITY, INF, POSITIONAL_IDENTITY, IntervalEval

NONZERO, VANISHES, UNKNOWN = "nonzero", "vanishes", "unknown"
_TRIG = {"sin", "cos", "tan"}
_BOOL_CALLS = {"logical_and", "logical_or", "logical_not", "logical_xor", "isclose", "isin", "isnan", "isfinite",
               "less", "less_equal", "greater", "greater_equal", "equal", "not_equal"}
_DIV_CALLS = {"divide": 1, "true_divide": 1, "floor_divide": 1, "mod": 1, "remainder": 1, "fmod": 1, "reciprocal": 0}


class DivisorAnalysis:
    def __init__(self, df: DataFlow, zero_params: set[str], positive: Callable[[ast.AST], bool],
                 unpack_calls: tuple[str, ...] = ("_unpack_distributions",)):
        self.df = df
        self.zero_params = set(zero_params)
        self.positive = positive
        self.unpack_calls = unpack_calls
        self.ie = IntervalEval(df, leaf=lambda e, at: (1e-30, INF) if at >= 0 and positive(e) else None)

    # ------------------------------------------------------------------ sites
    def sites(self):
        """[(cfg node index, divisor expression, enclosing expression)] of the function; the second result is the
        number of division operators that could not be attributed to a CFG node (nested definitions, lambdas)."""
        out = []
        seen: set[int] = set()
        for node in self.df.cfg.nodes:
            st = node.ast
            if st is None:
                continue
            if node.kind == "test":
                roots = [st.test]
            elif node.kind == "loop":
                roots = [st.iter if isinstance(st, ast.For) else st.test]
            elif node.kind == "with":
                roots = [it.context_expr for it in st.items]
            elif node.kind == "stmt" and not isinstance(st, (ast.FunctionDef, ast.AsyncFunctionDef, ast.ClassDef)):
                roots = [st]
            else:
                roots = []
            for r in roots:
                for n in walk_no_nested(r):
                    d = self._divisor(n)
                    if d is not None and id(n) not in seen:
                        seen.add(id(n))
                        out.append((node.idx, d, n))
        total = sum(1 for n in ast.walk(self.df.func) if self._divisor(n) is not None)
        return out, total - len(out)

    @staticmethod
    def _neg_const(e) -> bool:
        return isinstance(e, ast.UnaryOp) and isinstance(e.op, ast.USub) and isinstance(e.operand, ast.Constant) and \
            isinstance(e.operand.value, (int, float)) and e.operand.value > 0

    def _divisor(self, n) -> Optional[ast.AST]:
        if isinstance(n, ast.BinOp):
            if isinstance(n.op, (ast.Div, ast.FloorDiv, ast.Mod)) and not (
                    isinstance(n.left, ast.Constant) and isinstance(n.left.value, str)):
                return n.right
            if isinstance(n.op, ast.Pow) and self._neg_const(n.right):
                return n.left
        if isinstance(n, ast.AugAssign):
            if isinstance(n.op, (ast.Div, ast.FloorDiv, ast.Mod)):
                return n.value
            if isinstance(n.op, ast.Pow) and self._neg_const(n.value):
                return n.target
        if isinstance(n, ast.Call) and last_attr(n) in _DIV_CALLS and isinstance(n.func, ast.Attribute):
            k = _DIV_CALLS[last_attr(n)]
            if len(n.args) > k and not any(isinstance(a, ast.Starred) for a in n.args):
                return n.args[k]
        return None

    # ------------------------------------------------------------------ classification
    def classify(self, at: int, d: ast.AST):
        why = self.nonzero(d, at, 0)
        if why:
            return NONZERO, why
        why = self.has_zero(d, at, 0)
        if why:
            return VANISHES, why
        return UNKNOWN, norm_text(d)[:60]

    @staticmethod
    def _const(e):
        if isinstance(e, ast.Constant) and isinstance(e.value, (int, float, complex)) and not isinstance(e.value, bool):
            return e.value
        if isinstance(e, ast.UnaryOp) and isinstance(e.op, (ast.USub, ast.UAdd)):
            c = DivisorAnalysis._const(e.operand)
            return None if c is None else (-c if isinstance(e.op, ast.USub) else c)
        if isinstance(e, ast.Attribute) and dotted(e) in ("np.pi", "xp.pi", "math.pi", "numpy.pi", "np.e", "math.e"):
            return 3.0
        return None

    def _assign_defs(self, at: int, name: str):
        """[(value expression, node)] of the definitions of a name reaching `at`, or None when one of them is not a
        plain assignment (parameter, loop variable, augmented assignment, ...)."""
        rd = self.df.reaching(at, name)
        if not rd:
            return None
        out = []
        for d in rd:
            if d.kind == "store" and isinstance(d.value, ast.Tuple):
                out.append((d.value.elts[0], d.node))
                continue
            if d.kind not in ("assign", "walrus") or d.value is None:
                return None
            st = self.df.cfg.nodes[d.node].ast
            v = d.value
            if isinstance(st, ast.Assign) and isinstance(st.targets[0], (ast.Tuple, ast.List)) and v is st.value:
                idx = [i for i, t in enumerate(st.targets[0].elts) if dotted(t) == name]
                if len(idx) == 1 and isinstance(v, ast.Call) and last_attr(v) in POSITIONAL_IDENTITY and \
                        len(v.args) > idx[0]:
                    out.append((v.args[idx[0]], d.node))
                    continue
                return None
            out.append((v, d.node))
        return out

    def nonzero(self, e: ast.AST, at: int, depth: int) -> str:
        if depth > 30:
            return ""
        c = self._const(e)
        if c is not None:
            return "non-zero constant" if c != 0 else ""
        if self.positive(e):
            return f"{norm_text(e)} is positive"
        self.ie.unmodelled.clear()
        iv = self.ie.ev(e, at)
        if iv[0] > 0 or iv[1] < 0:
            return "its value range excludes 0"
        g = self._guarded(e, at)
        if g:
            return g
        if isinstance(e, ast.UnaryOp) and isinstance(e.op, (ast.USub, ast.UAdd)):
            return self.nonzero(e.operand, at, depth + 1)
        if isinstance(e, ast.BinOp):
            if isinstance(e.op, (ast.Mult, ast.Div)):
                a, b = self.nonzero(e.left, at, depth + 1), self.nonzero(e.right, at, depth + 1)
                return "product / quotient of non-zero values" if a and b else ""
            if isinstance(e.op, ast.Pow):
                return self.nonzero(e.left, at, depth + 1)
            return ""
        if isinstance(e, ast.Call):
            fn = last_attr(e)
            recv = e.func.value if isinstance(e.func, ast.Attribute) else None
            if fn in ("exp", "exp2", "cosh") and len(e.args) == 1:
                return f"{fn}(...) never vanishes"
            if fn == "astype" and recv is not None:
                return self.nonzero(recv, at, depth + 1)
            if fn in IDENTITY | {"abs", "absolute", "fabs", "complex"} and len(e.args) >= 1:
                return self.nonzero(e.args[0], at, depth + 1)
            if fn in ("max", "maximum") and e.args:
                for a in e.args:
                    self.ie.unmodelled.clear()
                    iv = self.ie.ev(a, at)
                    if iv[0] > 0:
                        return "maximum with a positive value"
            return ""
        if isinstance(e, ast.Name):
            defs = self._assign_defs(at, e.id)
            if not defs:
                return ""
            for v, node in defs:
                if not self.nonzero(v, node, depth + 1):
                    return ""
            return "every definition is non-zero"
        return ""

    # -- guards ---------------------------------------------------------------------------------------
    def _test_excludes_zero(self, test: ast.AST, text: str, want_zero: bool = False):
        """label ('T'/'F') of the edge on which the expression with normalised text `text` is known non-zero
        (want_zero: known to be zero — only equality tests and truthiness establish that)."""
        flip = False
        while isinstance(test, ast.UnaryOp) and isinstance(test.op, ast.Not):
            test, flip = test.operand, not flip
        lab = None
        if norm_text(test) == text:
            lab = "T"
        elif isinstance(test, ast.Compare) and len(test.ops) == 1:
            l, r, op = test.left, test.comparators[0], test.ops[0]
            lz, rz = self._const(l) == 0 and self._const(l) is not None, self._const(r) == 0 and self._const(r) is not None
            if rz and norm_text(l) == text:
                lab = {ast.Eq: "F", ast.NotEq: "T", ast.Gt: "T", ast.Lt: "T", ast.LtE: "F", ast.GtE: "F"}.get(type(op))
            elif lz and norm_text(r) == text:
                lab = {ast.Eq: "F", ast.NotEq: "T", ast.Gt: "T", ast.Lt: "T", ast.LtE: "F", ast.GtE: "F"}.get(type(op))
        if lab is None:
            return None
        if want_zero:
            exact = norm_text(test) == text or (isinstance(test, ast.Compare) and isinstance(test.ops[0], (ast.Eq, ast.NotEq)))
            if not exact:
                return None
            flip = not flip
        return {"T": "F", "F": "T"}[lab] if flip else lab

    def _guarded(self, e: ast.AST, at: int, want_zero: bool = False) -> str:
        """non-empty when a dominating test on the same value excludes 0 on the edge leading here (want_zero: when it
        establishes that the value IS 0 there: `if d != 0: ... else: x / d`)."""
        if not isinstance(e, (ast.Name, ast.Attribute)):
            return ""
        text = norm_text(e)
        cfg = self.df.cfg
        names = [n.id for n in ast.walk(e) if isinstance(n, ast.Name)]
        d = dotted(e)
        if d and d.startswith("self."):
            names.append(".".join(d.split(".")[:2]))
        for t in cfg.nodes:
            if t.kind != "test" or t.idx == at or not cfg.dominates(t.idx, at):
                continue
            lab = self._test_excludes_zero(t.ast.test, text, want_zero)
            if lab is None:
                continue
            if any({id(x) for x in self.df.reaching(t.idx, n)} != {id(x) for x in self.df.reaching(at, n)} for n in names):
                continue
            for s in t.succ:
                if cfg.elabel.get((t.idx, s)) == lab and cfg.nodes[s].pred == [t.idx] and (
                        s == at or cfg.dominates(s, at)):
                    return ("a dominating test establishes that it is 0 on this branch" if want_zero else
                            "guarded by a dominating test that excludes 0")
        return ""

    # -- witnesses ------------------------------------------------------------------------------------
    def dist_value(self, e: ast.AST, at: int, depth: int = 0) -> bool:
        """`e` is (an element, a slice or a dict of elements of) the value tuple returned by _unpack_distributions."""
        if depth > 20:
            return False
        if isinstance(e, ast.Subscript):
            return self.dist_value(e.value, at, depth + 1)
        if isinstance(e, ast.Name):
            rd = self.df.reaching(at, e.id)
            if not rd:
                return False
            for d in rd:
                if d.kind not in ("assign", "walrus") or d.value is None:
                    return False
                st = self.df.cfg.nodes[d.node].ast
                v = d.value
                if isinstance(st, ast.Assign) and isinstance(st.targets[0], (ast.Tuple, ast.List)) and v is st.value:
                    if isinstance(v, ast.Call) and (call_name(v) or "").split(".")[-1] in self.unpack_calls:
                        idx = [i for i, t in enumerate(st.targets[0].elts) if dotted(t) == e.id]
                        if idx != [0]:
                            return False
                        continue
                if not self.dist_value(v, d.node, depth + 1):
                    return False
            return True
        if isinstance(e, ast.Call):
            fn = call_name(e)
            if fn in ("dict", "tuple", "list") and len(e.args) == 1:
                return self.dist_value(e.args[0], at, depth + 1)
            if fn == "zip" and e.args:
                return any(self.dist_value(a, at, depth + 1) for a in e.args)
            return False
        if isinstance(e, ast.DictComp) and len(e.generators) == 1:
            g = e.generators[0]
            bound = {n.id for n in ast.walk(g.target) if isinstance(n, ast.Name)}
            return isinstance(e.value, ast.Name) and e.value.id in bound and self.dist_value(g.iter, at, depth + 1)
        return False

    def zero_at_default(self, e: ast.AST, at: int, depth: int = 0) -> bool:
        if depth > 40:
            return False
        c = self._const(e)
        if c is not None:
            return c == 0
        if isinstance(e, (ast.Name, ast.Subscript)) and self.dist_value(e, at):
            return True
        if isinstance(e, ast.Name):
            rd = self.df.reaching(at, e.id)
            if rd and all(d.kind == "param" for d in rd):
                return e.id in self.zero_params
            defs = self._assign_defs(at, e.id)
            if not defs:
                return False
            return all(self.zero_at_default(v, node, depth + 1) for v, node in defs)
        if isinstance(e, ast.UnaryOp) and isinstance(e.op, (ast.USub, ast.UAdd)):
            return self.zero_at_default(e.operand, at, depth + 1)
        if isinstance(e, ast.BinOp):
            l = lambda: self.zero_at_default(e.left, at, depth + 1)
            r = lambda: self.zero_at_default(e.right, at, depth + 1)
            if isinstance(e.op, (ast.Add, ast.Sub)):
                return l() and r()
            if isinstance(e.op, ast.Mult):
                return l() or r()
            if isinstance(e.op, ast.Div):
                return l() and not r()
            if isinstance(e.op, ast.Pow):
                c = self._const(e.right)
                return c is not None and not isinstance(c, complex) and c > 0 and l()
            return False
        if isinstance(e, ast.Call):
            fn = last_attr(e)
            recv = e.func.value if isinstance(e.func, ast.Attribute) else None
            if fn == "astype" and recv is not None:
                return self.zero_at_default(recv, at, depth + 1)
            if fn in IDENTITY and e.args:
                return self.zero_at_default(e.args[0], at, depth + 1)
            if fn in ("square", "abs", "absolute", "sqrt", "sin", "tan", "sinh", "tanh", "arctan") and len(e.args) == 1:
                return self.zero_at_default(e.args[0], at, depth + 1)
        return False

    def has_zero(self, e: ast.AST, at: int, depth: int) -> str:
        if depth > 30:
            return ""
        if self._const(e) is None and self.zero_at_default(e, at):
            return (f"`{norm_text(e)[:50]}` is 0 at the default point (optical axis, every distribution parameter at its "
                    "default 0)")
        g = self._guarded(e, at, want_zero=True)
        if g:
            return f"`{norm_text(e)[:50]}`: {g}"
        if isinstance(e, (ast.Compare, ast.BoolOp)) or (isinstance(e, ast.UnaryOp) and isinstance(e.op, ast.Not)):
            return f"the boolean `{norm_text(e)[:50]}` is 0 wherever it is false"
        if isinstance(e, ast.UnaryOp) and isinstance(e.op, (ast.USub, ast.UAdd)):
            return self.has_zero(e.operand, at, depth + 1)
        if isinstance(e, ast.BinOp):
            if isinstance(e.op, ast.Mult):
                return self.has_zero(e.left, at, depth + 1) or self.has_zero(e.right, at, depth + 1)
            if isinstance(e.op, ast.Div):
                return self.has_zero(e.left, at, depth + 1)
            if isinstance(e.op, ast.Pow):
                c = self._const(e.right)
                if c is not None and not isinstance(c, complex) and c > 0:
                    return self.has_zero(e.left, at, depth + 1)
            return ""
        if isinstance(e, ast.Call):
            fn = last_attr(e)
            recv = e.func.value if isinstance(e.func, ast.Attribute) else None
            if fn in _TRIG and len(e.args) == 1 and self._const(e.args[0]) is None:
                return f"`{norm_text(e)[:50]}` has zeros"
            if fn in _BOOL_CALLS:
                return f"the boolean `{norm_text(e)[:50]}` is 0 wherever it is false"
            if fn == "astype" and recv is not None:
                return self.has_zero(recv, at, depth + 1)
            if fn in IDENTITY | {"abs", "absolute", "square", "sqrt"} and e.args:
                return self.has_zero(e.args[0], at, depth + 1)
            return ""
        if isinstance(e, ast.Name):
            defs = self._assign_defs(at, e.id)
            if not defs:
                return ""
            for v, node in defs:
                w = self.has_zero(v, node, depth + 1)
                if w:
                    return w
        return ""
